(* C17/Proofs.v — lemmas about the lowering model: induction scheme, unfolding equations,
   site rewriting over all contexts, confinement of the type name, flag bookkeeping. *)
From Coq Require Import ZArith List Bool String Ascii Lia.
From Verif Require Import Base.I64 C17.Model.
Import ListNotations.
Open Scope string_scope.
Open Scope list_scope.

(* ------------------------------------------------------------------ induction scheme *)

Section ExprInd.
  Variable P : expr -> Prop.
  Variable Q : stmt -> Prop.
  Hypothesis Hident : forall n, P (EIdent n).
  Hypothesis Hlit : forall z, P (ELit z).
  Hypothesis Hcall : forall f names args, P f -> Forall P args -> P (ECall f names args).
  Hypothesis Hparen : forall e, P e -> P (EParen e).
  Hypothesis Hnode : forall k subs, Forall P subs -> P (ENode k subs).
  Hypothesis Hyield : forall e, P e -> P (EYield e).
  Hypothesis Hblock : forall ss, Forall Q ss -> P (EBlock ss).
  Hypothesis Hsnode : forall k subs, Forall P subs -> Q (SNode k subs).
  Hypothesis Hsfail : Q SFail.

  Fixpoint expr_ind2 (e : expr) : P e :=
    match e with
    | EIdent n => Hident n
    | ELit z => Hlit z
    | ECall f names args =>
        Hcall f names args (expr_ind2 f)
          ((fix go (l : list expr) : Forall P l :=
              match l with
              | [] => Forall_nil P
              | x :: r => Forall_cons x (expr_ind2 x) (go r)
              end) args)
    | EParen e1 => Hparen e1 (expr_ind2 e1)
    | ENode k subs =>
        Hnode k subs
          ((fix go (l : list expr) : Forall P l :=
              match l with
              | [] => Forall_nil P
              | x :: r => Forall_cons x (expr_ind2 x) (go r)
              end) subs)
    | EYield e1 => Hyield e1 (expr_ind2 e1)
    | EBlock ss =>
        Hblock ss
          ((fix go (l : list stmt) : Forall Q l :=
              match l with
              | [] => Forall_nil Q
              | x :: r => Forall_cons x (stmt_ind2 x) (go r)
              end) ss)
    end
  with stmt_ind2 (s : stmt) : Q s :=
    match s with
    | SNode k subs =>
        Hsnode k subs
          ((fix go (l : list expr) : Forall P l :=
              match l with
              | [] => Forall_nil P
              | x :: r => Forall_cons x (expr_ind2 x) (go r)
              end) subs)
    | SFail => Hsfail
    end.

  Lemma expr_stmt_ind : (forall e, P e) /\ (forall s, Q s).
  Proof. split; [exact expr_ind2 | exact stmt_ind2]. Qed.
End ExprInd.

(* ------------------------------------------------------------------ unfolding equations *)

Lemma inner_list_eq : forall st l,
  (fix go (l : list expr) : option (list ir) :=
     match l with
     | [] => Some []
     | x :: r => match lower_expr st x with
                 | Some x' => match go r with Some r' => Some (x' :: r') | None => None end
                 | None => None
                 end
     end) l = lower_list st l.
Proof. induction l as [|x r IH]; [reflexivity|]. cbn [lower_list]. rewrite <- IH. reflexivity. Qed.

Lemma inner_stmts_eq : forall st l,
  (fix gos (l : list stmt) : option (list irs) :=
     match l with
     | [] => Some []
     | s :: r => match lower_stmt st s with
                 | Some s' => match gos r with Some r' => Some (s' :: r') | None => None end
                 | None => None
                 end
     end) l = lower_stmts st l.
Proof. induction l as [|x r IH]; [reflexivity|]. cbn [lower_stmts]. rewrite <- IH. reflexivity. Qed.

Lemma lower_ident : forall st n, lower_expr st (EIdent n) = Some (IVar n).
Proof. reflexivity. Qed.
Lemma lower_lit : forall st z, lower_expr st (ELit z) = Some (ILit z).
Proof. reflexivity. Qed.
Lemma lower_paren : forall st e, lower_expr st (EParen e) = lower_expr st e.
Proof. intros st e. destruct e; reflexivity. Qed.
Lemma lower_yield : forall st e, lower_expr st (EYield e) = Some IUnit.
Proof. reflexivity. Qed.
Lemma lower_node : forall st k subs, lower_expr st (ENode k subs) = option_map (INode k) (lower_list st subs).
Proof. intros. cbn [lower_expr]. rewrite inner_list_eq. reflexivity. Qed.
Lemma lower_block : forall st ss, lower_expr st (EBlock ss) = option_map IBlock (lower_stmts st ss).
Proof. intros. cbn [lower_expr]. rewrite inner_stmts_eq. reflexivity. Qed.
Lemma lower_snode : forall st k subs, lower_stmt st (SNode k subs) = option_map (ISNode k) (lower_list st subs).
Proof. intros. cbn [lower_stmt]. rewrite inner_list_eq. reflexivity. Qed.
Lemma lower_sfail : forall st, lower_stmt st SFail = None.
Proof. reflexivity. Qed.

Definition generic_call (st : lstate) (f : expr) (names : list (option string)) (args : list expr) : option ir :=
  match lower_expr st f with
  | Some f' => option_map (ICall f' names) (lower_list st args)
  | None => None
  end.

Definition ctor_call (st : lstate) (name : string) (names : list (option string)) (args : list expr) : option ir :=
  if rewrite_applies st name names args then
    match args, lookup name (hooks st) with
    | [a], Some h => option_map (checked_ctor name h) (lower_expr st a)
    | _, _ => None
    end
  else option_map (IStruct name (map field_name names)) (lower_list st args).

Lemma lower_call : forall st f names args,
  lower_expr st (ECall f names args) =
  match f with
  | EIdent name => if ctor_detected st name then ctor_call st name names args else generic_call st f names args
  | _ => generic_call st f names args
  end.
Proof.
  intros st f names args. unfold generic_call, ctor_call.
  destruct f; cbn [lower_expr]; rewrite ?inner_list_eq; try reflexivity.
Qed.

Global Opaque lower_expr lower_stmt.

(* ------------------------------------------------------------------ list lemmas *)

Lemma lower_list_in : forall st l l', lower_list st l = Some l' ->
  forall a, In a l -> exists a', lower_expr st a = Some a' /\ In a' l'.
Proof.
  induction l as [|x r IH]; intros l' H a Ha; [destruct Ha|].
  cbn [lower_list] in H. destruct (lower_expr st x) as [x'|] eqn:Ex; [|discriminate].
  destruct (lower_list st r) as [r'|] eqn:Er; [|discriminate]. inversion H; subst l'.
  destruct Ha as [->|Ha].
  - exists x'. split; [assumption | left; reflexivity].
  - destruct (IH r' eq_refl a Ha) as (a' & H1 & H2). exists a'. split; [assumption | right; assumption].
Qed.

Lemma lower_stmts_in : forall st l l', lower_stmts st l = Some l' ->
  forall s, In s l -> exists s', lower_stmt st s = Some s' /\ In s' l'.
Proof.
  induction l as [|x r IH]; intros l' H a Ha; [destruct Ha|].
  cbn [lower_stmts] in H. destruct (lower_stmt st x) as [x'|] eqn:Ex; [|discriminate].
  destruct (lower_stmts st r) as [r'|] eqn:Er; [|discriminate]. inversion H; subst l'.
  destruct Ha as [->|Ha].
  - exists x'. split; [assumption | left; reflexivity].
  - destruct (IH r' eq_refl a Ha) as (a' & H1 & H2). exists a'. split; [assumption | right; assumption].
Qed.

Lemma lower_list_forall : forall st (P : ir -> bool) l l', lower_list st l = Some l' ->
  (forall a a', In a l -> lower_expr st a = Some a' -> P a' = true) -> forallb P l' = true.
Proof.
  induction l as [|x r IH]; intros l' H HP.
  - inversion H. reflexivity.
  - cbn [lower_list] in H. destruct (lower_expr st x) as [x'|] eqn:Ex; [|discriminate].
    destruct (lower_list st r) as [r'|] eqn:Er; [|discriminate]. inversion H; subst l'.
    cbn [forallb]. rewrite (HP x x' (or_introl eq_refl) Ex). cbn [andb].
    apply IH; [reflexivity|]. intros a a' Ha. apply HP. right; assumption.
Qed.

Lemma lower_stmts_forall : forall st (P : irs -> bool) l l', lower_stmts st l = Some l' ->
  (forall a a', In a l -> lower_stmt st a = Some a' -> P a' = true) -> forallb P l' = true.
Proof.
  induction l as [|x r IH]; intros l' H HP.
  - inversion H. reflexivity.
  - cbn [lower_stmts] in H. destruct (lower_stmt st x) as [x'|] eqn:Ex; [|discriminate].
    destruct (lower_stmts st r) as [r'|] eqn:Er; [|discriminate]. inversion H; subst l'.
    cbn [forallb]. rewrite (HP x x' (or_introl eq_refl) Ex). cbn [andb].
    apply IH; [reflexivity|]. intros a a' Ha. apply HP. right; assumption.
Qed.

(* ------------------------------------------------------------------ iwithin *)

Lemma iwithin_trans : forall a b c, iwithin a b -> iwithin b c -> iwithin a c.
Proof.
  intros a b c Hab Hbc. induction Hbc as [|b c d Hbc IH Hcd]; [assumption|].
  eapply iwithin_step; [apply IH; assumption | exact Hcd].
Qed.

Lemma iwithin_child : forall a b, ichild a b -> iwithin a b.
Proof. intros. eapply iwithin_step; [apply iwithin_refl | eassumption]. Qed.

Lemma within_ident : forall e n, within e (EIdent n) -> e = EIdent n.
Proof. intros e n H. inversion H as [|e1 e2 e3 H1 H2]; subst; [reflexivity | inversion H2]. Qed.

Lemma within_trans : forall a b c, within a b -> within b c -> within a c.
Proof.
  intros a b c Hab Hbc. induction Hbc as [|b c d Hbc IH Hcd]; [assumption|].
  eapply within_step; [apply IH; assumption | exact Hcd].
Qed.

(* the argument of a checked construction sits inside it *)
Lemma checked_arg_within : forall T h a, iwithin a (checked_ctor T h a).
Proof.
  intros. unfold checked_ctor. eapply iwithin_step; [|apply ich_recv].
  apply iwithin_child. apply ich_marg. left; reflexivity.
Qed.

(* ------------------------------------------------------------------ one step: every visited child is lowered inside *)

Lemma rewrite_applies_shape : forall st name names args, rewrite_applies st name names args = true ->
  exists a h, names = [None] /\ args = [a] /\ lookup name (hooks st) = Some h /\ opt_eqb (cur st) name = false.
Proof.
  intros st name names args H. unfold rewrite_applies in H.
  destruct (lookup name (hooks st)) as [h|]; [|discriminate].
  destruct names as [|[n|] [|? ?]]; try discriminate.
  destruct args as [|a [|? ?]]; try discriminate.
  exists a, h. repeat split. apply negb_true_iff in H. exact H.
Qed.

Lemma child_lowered : forall st e2 e3 i3, child e2 e3 -> (forall n, e2 <> EIdent n) ->
  lower_expr st e3 = Some i3 -> exists i2, lower_expr st e2 = Some i2 /\ iwithin i2 i3.
Proof.
  intros st e2 e3 i3 Hc Hn H. destruct Hc as [f names args | a f names args Ha | e | a k subs Ha | a k subs ss Hs Ha].
  - (* callee *)
    rewrite lower_call in H.
    assert (G : generic_call st f names args = Some i3).
    { destruct f; try exact H. exfalso. eapply Hn. reflexivity. }
    unfold generic_call in G. destruct (lower_expr st f) as [f'|]; [|discriminate].
    destruct (lower_list st args) as [as'|]; [|discriminate]. inversion G; subst i3.
    exists f'. split; [reflexivity|]. apply iwithin_child. constructor.
  - (* argument *)
    rewrite lower_call in H.
    assert (G : generic_call st f names args = Some i3 \/
                exists name, f = EIdent name /\ ctor_call st name names args = Some i3).
    { destruct f; try (left; exact H). destruct (ctor_detected st n); [right; eauto | left; exact H]. }
    destruct G as [G | (name & -> & G)].
    + unfold generic_call in G. destruct (lower_expr st f) as [f'|]; [|discriminate].
      destruct (lower_list st args) as [as'|] eqn:El; [|discriminate]. inversion G; subst i3.
      destruct (lower_list_in st args as' El a Ha) as (a' & H1 & H2).
      exists a'. split; [assumption|]. apply iwithin_child. apply ich_arg. assumption.
    + unfold ctor_call in G. destruct (rewrite_applies st name names args) eqn:Er.
      * destruct (rewrite_applies_shape _ _ _ _ Er) as (a0 & h & -> & -> & Hl & _).
        rewrite Hl in G. destruct Ha as [->|[]].
        destruct (lower_expr st a) as [a'|]; [|discriminate]. inversion G; subst i3.
        exists a'. split; [reflexivity | apply checked_arg_within].
      * destruct (lower_list st args) as [as'|] eqn:El; [|discriminate]. inversion G; subst i3.
        destruct (lower_list_in st args as' El a Ha) as (a' & H1 & H2).
        exists a'. split; [assumption|]. apply iwithin_child. apply ich_field. assumption.
  - rewrite lower_paren in H. exists i3. split; [assumption | apply iwithin_refl].
  - rewrite lower_node in H. destruct (lower_list st subs) as [l'|] eqn:El; [|discriminate].
    inversion H; subst i3. destruct (lower_list_in st subs l' El a Ha) as (a' & H1 & H2).
    exists a'. split; [assumption|]. apply iwithin_child. constructor. assumption.
  - rewrite lower_block in H. destruct (lower_stmts st ss) as [ss'|] eqn:Es; [|discriminate].
    inversion H; subst i3. destruct (lower_stmts_in st ss ss' Es _ Hs) as (s' & H1 & H2).
    rewrite lower_snode in H1. destruct (lower_list st subs) as [l'|] eqn:El; [|discriminate].
    inversion H1; subst s'. destruct (lower_list_in st subs l' El a Ha) as (a' & H3 & H4).
    exists a'. split; [assumption|]. apply iwithin_child. econstructor; eassumption.
Qed.

Lemma within_lowered : forall st e1 e, within e1 e -> (forall n, e1 <> EIdent n) ->
  forall i, lower_expr st e = Some i -> exists i1, lower_expr st e1 = Some i1 /\ iwithin i1 i.
Proof.
  intros st e1 e Hw Hn. induction Hw as [e | e1 e2 e3 Hw IH Hc]; intros i H.
  - exists i. split; [assumption | apply iwithin_refl].
  - assert (Hn2 : forall n, e2 <> EIdent n).
    { intros n ->. apply within_ident in Hw. eapply Hn. exact Hw. }
    destruct (child_lowered st e2 e3 i Hc Hn2 H) as (i2 & H2 & W2).
    destruct (IH Hn i2 H2) as (i1 & H1 & W1). exists i1. split; [assumption|].
    eapply iwithin_trans; eassumption.
Qed.

(* lowering of a direct construction site under the rewrite's conditions *)
Lemma lower_site : forall st T a h,
  ctor_detected st T = true -> lookup T (hooks st) = Some h -> cur st <> Some T ->
  lower_expr st (site T a) = option_map (checked_ctor T h) (lower_expr st a).
Proof.
  intros st T a h Hd Hl Hc. unfold site. rewrite lower_call, Hd. unfold ctor_call, rewrite_applies.
  rewrite Hl. assert (E : opt_eqb (cur st) T = false).
  { unfold opt_eqb. destruct (cur st) as [c|]; [|reflexivity]. apply String.eqb_neq. congruence. }
  rewrite E. reflexivity.
Qed.

(* inside `impl T` the site stays a raw constructor (the exemption) *)
Lemma lower_site_inside : forall st T a, ctor_detected st T = true -> cur st = Some T ->
  lower_expr st (site T a) = option_map (fun a' => IStruct T [""] [a']) (lower_expr st a).
Proof.
  intros st T a Hd Hc. unfold site. rewrite lower_call, Hd. unfold ctor_call, rewrite_applies.
  rewrite Hc. unfold opt_eqb. rewrite String.eqb_refl.
  destruct (lookup T (hooks st)); cbn [negb lower_list map field_name];
    destruct (lower_expr st a); reflexivity.
Qed.

(* without a hook the site stays a raw constructor *)
Lemma lower_site_nohook : forall st T a, ctor_detected st T = true -> lookup T (hooks st) = None ->
  lower_expr st (site T a) = option_map (fun a' => IStruct T [""] [a']) (lower_expr st a).
Proof.
  intros st T a Hd Hl. unfold site. rewrite lower_call, Hd. unfold ctor_call, rewrite_applies. rewrite Hl.
  cbn [lower_list map field_name]. destruct (lower_expr st a); reflexivity.
Qed.

Lemma site_rewritten_expr : forall st e i T a h,
  lower_expr st e = Some i -> within (site T a) e ->
  ctor_detected st T = true -> lookup T (hooks st) = Some h -> cur st <> Some T ->
  exists a', lower_expr st a = Some a' /\ iwithin (checked_ctor T h a') i.
Proof.
  intros st e i T a h H Hw Hd Hl Hc.
  destruct (within_lowered st (site T a) e Hw (fun n => ltac:(discriminate)) i H) as (i1 & H1 & W1).
  rewrite (lower_site st T a h Hd Hl Hc) in H1.
  destruct (lower_expr st a) as [a'|]; [|discriminate]. inversion H1; subst i1.
  exists a'. split; [reflexivity | assumption].
Qed.

(* ------------------------------------------------------------------ confinement: no other mention of T in the output *)

Lemma ir_confined_checked : forall T h a, ir_confined T a = true -> ir_confined T (checked_ctor T h a) = true.
Proof.
  intros T h a Ha. unfold checked_ctor. cbn [ir_confined]. rewrite String.eqb_refl.
  unfold expect_name. rewrite !String.eqb_refl. rewrite Ha. reflexivity.
Qed.

Lemma ir_confined_method_other : forall T r m args,
  (forall n h a, r = IMethod (IVar n) h [a] -> n <> T) ->
  ir_confined T (IMethod r m args) = (ir_confined T r && forallb (ir_confined T) args)%bool.
Proof.
  intros T r m args Hr. cbn [ir_confined].
  destruct r as [| | | | |r0 h l| | |]; try reflexivity.
  destruct r0; try reflexivity. destruct l as [|a [|? ?]]; try reflexivity.
  destruct (String.eqb n T) eqn:E; [|reflexivity].
  apply String.eqb_eq in E. exfalso. eapply Hr; [reflexivity | exact E].
Qed.

Lemma confined_lowered :
  forall st T h, ctor_detected st T = true -> lookup T (hooks st) = Some h -> cur st <> Some T ->
  (forall e, confined T e = true -> forall i, lower_expr st e = Some i -> ir_confined T i = true) /\
  (forall s, confined_stmt T s = true -> forall i, lower_stmt st s = Some i -> irs_confined T i = true).
Proof.
  intros st T h Hd Hl Hc.
  apply expr_stmt_ind.
  - intros n Hcf i H. rewrite lower_ident in H. inversion H; subst. exact Hcf.
  - intros z _ i H. rewrite lower_lit in H. inversion H; reflexivity.
  - (* call *)
    intros f names args IHf IHargs Hcf i H. rewrite Forall_forall in IHargs.
    assert (Hargs : forallb (confined T) args = true -> forall l', lower_list st args = Some l' ->
                    forallb (ir_confined T) l' = true).
    { intros Hall l' El. eapply lower_list_forall; [exact El|]. intros a a' Ha Ea.
      apply (IHargs a Ha); [|exact Ea]. rewrite forallb_forall in Hall. apply Hall. exact Ha. }
    rewrite lower_call in H.
    assert (Gen : (forall n, f = EIdent n -> n <> T) -> confined T f = true -> forallb (confined T) args = true ->
                  generic_call st f names args = Some i -> ir_confined T i = true).
    { intros _ Hf Hall G. unfold generic_call in G. destruct (lower_expr st f) as [f'|] eqn:Ef; [|discriminate].
      destruct (lower_list st args) as [l'|] eqn:El; [|discriminate]. inversion G; subst i.
      cbn [ir_confined]. rewrite (IHf Hf f' eq_refl), (Hargs Hall l' eq_refl). reflexivity. }
    destruct f as [n| |f0 nm0 ar0|e0|k0 s0|e0|ss0].
    + (* callee is an identifier *)
      cbn [confined] in Hcf. destruct (String.eqb n T) eqn:En.
      * apply String.eqb_eq in En. subst n. rewrite Hd in H.
        destruct names as [|[nm|] [|? ?]]; try discriminate.
        destruct args as [|a [|? ?]]; try discriminate.
        change (lower_expr st (site T a) = Some i) in H || idtac.
        unfold ctor_call, rewrite_applies in H. rewrite Hl in H.
        assert (E : opt_eqb (cur st) T = false).
        { unfold opt_eqb. destruct (cur st) as [c|]; [|reflexivity]. apply String.eqb_neq. congruence. }
        rewrite E in H. cbn [negb] in H.
        destruct (lower_expr st a) as [a'|] eqn:Ea; [|discriminate]. inversion H; subst i.
        apply ir_confined_checked. apply (IHargs a (or_introl eq_refl) Hcf a' Ea).
      * assert (Hne : n <> T) by (apply String.eqb_neq; exact En).
        destruct (ctor_detected st n).
        -- unfold ctor_call in H. destruct (rewrite_applies st n names args) eqn:Er.
           ++ destruct (rewrite_applies_shape _ _ _ _ Er) as (a0 & h0 & -> & -> & Hl0 & _).
              rewrite Hl0 in H. destruct (lower_expr st a0) as [a'|] eqn:Ea; [|discriminate].
              inversion H; subst i. unfold checked_ctor.
              rewrite ir_confined_method_other.
              2:{ intros n1 h1 a1 E1. inversion E1; subst. exact Hne. }
              rewrite ir_confined_method_other.
              2:{ intros n1 h1 a1 E1. discriminate. }
              cbn [ir_confined forallb]. rewrite En. cbn [negb andb].
              cbn [forallb] in Hcf. rewrite andb_true_r in Hcf.
              rewrite (IHargs a0 (or_introl eq_refl) Hcf a' Ea). reflexivity.
           ++ destruct (lower_list st args) as [l'|] eqn:El; [|discriminate]. inversion H; subst i.
              cbn [ir_confined]. rewrite En. cbn [negb andb]. apply (Hargs Hcf l' eq_refl).
        -- apply Gen; try assumption.
           ++ intros n0 E0. inversion E0; subst. exact Hne.
           ++ cbn [confined]. rewrite En. reflexivity.
    + cbn [confined] in Hcf. apply andb_true_iff in Hcf. destruct Hcf. apply Gen; try assumption. intros; discriminate.
    + cbn [confined] in Hcf. apply andb_true_iff in Hcf. destruct Hcf. apply Gen; try assumption. intros; discriminate.
    + cbn [confined] in Hcf. apply andb_true_iff in Hcf. destruct Hcf. apply Gen; try assumption. intros; discriminate.
    + cbn [confined] in Hcf. apply andb_true_iff in Hcf. destruct Hcf. apply Gen; try assumption. intros; discriminate.
    + cbn [confined] in Hcf. apply andb_true_iff in Hcf. destruct Hcf. apply Gen; try assumption. intros; discriminate.
    + cbn [confined] in Hcf. apply andb_true_iff in Hcf. destruct Hcf. apply Gen; try assumption. intros; discriminate.
  - intros e IH Hcf i H. rewrite lower_paren in H. apply IH; assumption.
  - intros k subs IH Hcf i H. rewrite Forall_forall in IH. rewrite lower_node in H.
    destruct (lower_list st subs) as [l'|] eqn:El; [|discriminate]. inversion H; subst i.
    cbn [ir_confined]. eapply lower_list_forall; [exact El|]. intros a a' Ha Ea.
    apply (IH a Ha); [|exact Ea]. cbn [confined] in Hcf. rewrite forallb_forall in Hcf. apply Hcf. exact Ha.
  - intros e _ _ i H. rewrite lower_yield in H. inversion H; reflexivity.
  - intros ss IH Hcf i H. rewrite Forall_forall in IH. rewrite lower_block in H.
    destruct (lower_stmts st ss) as [l'|] eqn:El; [|discriminate]. inversion H; subst i.
    cbn [ir_confined]. eapply lower_stmts_forall; [exact El|]. intros a a' Ha Ea.
    apply (IH a Ha); [|exact Ea]. cbn [confined] in Hcf. rewrite forallb_forall in Hcf. apply Hcf. exact Ha.
  - intros k subs IH Hcf i H. rewrite Forall_forall in IH. rewrite lower_snode in H.
    destruct (lower_list st subs) as [l'|] eqn:El; [|discriminate]. inversion H; subst i.
    cbn [irs_confined]. eapply lower_list_forall; [exact El|]. intros a a' Ha Ea.
    apply (IH a Ha); [|exact Ea]. cbn [confined_stmt] in Hcf. rewrite forallb_forall in Hcf. apply Hcf. exact Ha.
  - intros _ i H. rewrite lower_sfail in H. discriminate.
Qed.

(* ------------------------------------------------------------------ flag bookkeeping *)

Lemma flag_restored : forall st T ms, cur (fst (lower_model_methods st T ms)) = cur st.
Proof. intros. reflexivity. Qed.

Lemma methods_state : forall st T ms,
  hooks (fst (lower_model_methods st T ms)) = hooks st /\
  structs (fst (lower_model_methods st T ms)) = structs st.
Proof. intros. split; reflexivity. Qed.

Lemma methods_lowered_under : forall st T ms,
  snd (lower_model_methods st T ms) = lower_methods (set_cur st (Some T)) ms.
Proof. reflexivity. Qed.
