(* Core/Checker.v — executable model of the traversal in src/frontend/typechecker/check_stmt.rs and
   check_expr/{ops,basics}.rs for the fragment, arm by arm: an arm the real checker lacks is lacking
   here.  It counts diagnostics; the verdict is "no diagnostic".  Definitions only.
   Notable arms (each confirmed against the real checker by the correspondence run):
   - check_assignment looks the name up in the CURRENT scope only (lookup_local) and ignores the
     binding kind: an existing local is a re-assignment even for `let`/`mut`; a name bound only in an
     enclosing scope gets a NEW local binding;
   - check_binary: And/Or return Bool without looking at the operand types; arithmetic with exactly
     one numeric operand is accepted ("(Some(n), None) | (None, Some(n))");
   - check_if_stmt never visits elif conditions or bodies;
   - Break/Continue are accepted anywhere; range() arguments are checked as expressions only. *)
From Verif Require Import Base.I64 Core.Syntax Core.Dynamic Core.Rust Core.Lower.
From Coq Require Import ZArith List Bool.
Import ListNotations.
Open Scope Z_scope.

Definition cscopes := tenv.          (* SymbolTable scopes: name -> (type, is_mutable) *)

(* types_compatible on {int, bool, Unknown} *)
Definition compat (a b : ty) : bool :=
  match a, b with
  | TyUnk, _ | _, TyUnk => true
  | _, _ => ty_eqb a b
  end.

Definition b2n (b : bool) : nat := if b then 1%nat else 0%nat.

(* check_expr: resulting type and number of diagnostics *)
Fixpoint ccheck (C : cscopes) (e : expr) : ty * nat :=
  match e with
  | EInt _ => (TyInt, O)
  | EBool _ => (TyBool, O)
  | EVar x => match tlookup x C with Some (t, _) => (t, O) | None => (TyUnk, 1%nat) end
  | EParen e1 => ccheck C e1
  | EUn UNeg e1 =>
      let '(t, n) := ccheck C e1 in
      if compat t TyInt then (TyInt, n) else (TyUnk, Datatypes.S n)
  | EUn UNot e1 =>
      let '(t, n) := ccheck C e1 in
      (TyBool, (n + b2n (negb (compat t TyBool)))%nat)
  | EBin o l r =>
      let '(tl, nl) := ccheck C l in
      let '(tr, nr) := ccheck C r in
      let n := (nl + nr)%nat in
      if is_arith o then
        match tl, tr with
        | TyInt, _ | _, TyInt => (TyInt, n)
        | _, _ => (TyUnk, Datatypes.S n)
        end
      else match o with
           | OpAnd | OpOr => (TyBool, n)
           | _ => (* comparisons *)
               match tl, tr with
               | TyInt, TyInt => (TyBool, n)
               | _, _ => if ty_eqb tl tr || compat tl tr then (TyBool, n) else (TyBool, Datatypes.S n)
               end
           end
  end.

(* check_call on a user function: the callee must be a known symbol and the arguments are checked
   as expressions — NO arity, argument-type or keyword-name check.  The call has the callee's return
   type; a function returning None is modelled as Unknown (compatible with everything). *)
Definition ccheck_c (P : prog) (C : cscopes) (c : cexpr) : ty * nat :=
  match c with
  | CPure e => ccheck C e
  | CCall f pos kw =>
      let n := fold_right (fun e acc => (snd (ccheck C e) + acc)%nat) O (pos ++ map snd kw) in
      match find_fn f P with
      | Some d => (if fret d then TyInt else TyUnk, n)
      | None => (TyUnk, Datatypes.S n)
      end
  end.

Definition clocal (x : ident) (C : cscopes) : option (ty * bool) :=
  match C with [] => None | f :: _ => tflookup x f end.

Definition rargs_list (r : rargs) : list expr :=
  match r with R1 e => [e] | R2 a z => [a; z] | R3 a z s => [a; z; s] end.

(* [ev]: does check_if_stmt visit the elif branches?  false on the tree this model was written
   against (finding elif-unchecked); true once the pending `fix: type-check the conditions and bodies
   of elif branches` is merged.  The correspondence run probes the real checker and picks the variant. *)
Fixpoint ccheck_stmt (P : prog) (rt ev : bool) (C : cscopes) (s : stmt) {struct s} : cscopes * nat :=
  match s with
  | SAssign k x ann c0 =>
      let '(t, n) := ccheck_c P C c0 in
      match clocal x C with
      | Some (vt, vm) =>
          (* re-assignment of a local: mutability and type *)
          (C, (n + b2n (negb vm) + b2n (negb (compat t vt)))%nat)
      | None =>
          let m := match k with BMut => true | _ => false end in
          match ann with
          | Some a => (tbind x (a, m) C, (n + b2n (negb (compat t a)))%nat)
          | None => (tbind x (t, m) C, n)
          end
      end
  | SCompound o x e =>
      match tlookup x C with
      | Some (vt, vm) =>
          let '(te, n) := ccheck C e in
          let n1 := (n + b2n (negb vm))%nat in
          match vt, te with
          | TyInt, TyInt => (C, n1)                       (* result Int, compatible with Int *)
          | _, _ => (C, (n1 + b2n (negb (compat te vt)))%nat)
          end
      | None => (C, 1%nat)
      end
  | SIf c th el =>
      let '(tc, n) := ccheck C c in
      let n1 := (n + b2n (negb (compat tc TyBool)))%nat in
      let '(_, n2) := ccheck_block P rt ev ([] :: C) th in
      (C, (n1 + n2 + ccheck_els P rt ev C el)%nat)
  | SWhile c b =>
      let '(tc, n) := ccheck C c in
      let n1 := (n + b2n (negb (compat tc TyBool)))%nat in
      let '(_, n2) := ccheck_block P rt ev ([] :: C) b in
      (C, (n1 + n2)%nat)
  | SFor x r b =>
      let n := fold_right (fun e acc => (snd (ccheck C e) + acc)%nat) O (rargs_list r) in
      let '(_, n2) := ccheck_block P rt ev ([(x, (TyInt, false))] :: C) b in
      (C, (n + n2)%nat)
  | SPrint c0 => (C, snd (ccheck_c P C c0))
  | SExpr c0 => (C, snd (ccheck_c P C c0))
  (* check_return: the value's type must be compatible with the declared return type *)
  | SReturn None => (C, b2n rt)
  | SReturn (Some c0) =>
      let '(t, n) := ccheck_c P C c0 in
      (C, (n + b2n (if rt then negb (compat t TyInt) else negb (ty_eqb t TyUnk)))%nat)
  | SPass | SBreak | SContinue => (C, O)
  end
with ccheck_block (P : prog) (rt ev : bool) (C : cscopes) (b : block) {struct b} : cscopes * nat :=
  match b with
  | BNil => (C, O)
  | BCons s r =>
      let '(S1, n1) := ccheck_stmt P rt ev C s in
      let '(S2, n2) := ccheck_block P rt ev S1 r in
      (S2, (n1 + n2)%nat)
  end
(* only the final else body is visited: elif branches are skipped *)
with ccheck_els (P : prog) (rt ev : bool) (C : cscopes) (el : els) {struct el} : nat :=
  match el with
  | ENone => O
  | EElse b => snd (ccheck_block P rt ev ([] :: C) b)
  | EElif c b rest =>
      if ev then
        let '(tc, n) := ccheck C c in
        (n + b2n (negb (compat tc TyBool)) + snd (ccheck_block P rt ev ([] :: C) b) + ccheck_els P rt ev C rest)%nat
      else ccheck_els P rt ev C rest
  end.

Definition check_def (P : prog) (ev : bool) (d : fdef) : nat :=
  snd (ccheck_block P (fret d) ev [map (fun p => (p, (TyInt, false))) (fparams d)] (fbody d)).

Definition check_errors (ev : bool) (c : fcase) : nat :=
  fold_right (fun d acc => (check_def (cprog c) ev d + acc)%nat) O (cprog c).

Definition check_fn_gen (ev : bool) (c : fcase) : bool := Nat.eqb (check_errors ev c) O.
Definition check_fn (c : fcase) : bool := check_fn_gen false c.          (* before the elif fix *)
Definition check_fn_elif (c : fcase) : bool := check_fn_gen true c.      (* elif branches visited (current tree) *)
