(* Core/Dynamic.v — what the documented language semantics assign to a MiniIncan function:
   big-step, fuel-indexed evaluator producing the printed lines and a termination kind.
   Written from the language reference (numeric_semantics.md: `//` floors, `%` has the sign of
   the divisor, zero divisor -> ZeroDivisionError) and scopes_and_name_resolution.md (lexical
   block scopes; plain `x = e` reassigns the nearest existing binding, otherwise creates a new
   one in the current scope; `let`/`mut` always create a new binding in the current scope).
   Arithmetic uses the C04 *spec* functions (Z.div / Z.modulo).  `int` is a 64-bit integer; the
   documentation is silent on overflow, so a result outside i64 is the outcome [Unspec] and the
   theorems exclude it.  Definitions only. *)
From Verif Require Import Base.I64 C04.Model Core.Syntax.
From Coq Require Import ZArith List Bool.
Import ListNotations.
Open Scope Z_scope.

Inductive val := VI (z : Z) | VB (b : bool).

(* Environment: one association list, newest binding first.  Lexical block scoping is a stack
   discipline on it: entering a block remembers the current length, leaving it drops the bindings
   made since ([restore]); updates of outer variables made inside the block stay. *)
Definition env := list (ident * val).

Fixpoint lookup (x : ident) (E : env) : option val :=
  match E with
  | [] => None
  | (y, v) :: r => if x =? y then Some v else lookup x r
  end.

Definition ebind (x : ident) (v : val) (E : env) : env := (x, v) :: E.

(* assign to the nearest binding of x *)
Fixpoint eupdate (x : ident) (v : val) (E : env) : env :=
  match E with
  | [] => []
  | (y, w) :: r => if x =? y then (y, v) :: r else (y, w) :: eupdate x v r
  end.

Definition bound (x : ident) (E : env) : bool :=
  match lookup x E with Some _ => true | None => false end.

Definition restore (n : nat) (E : env) : env := skipn (length E - n) E.

(* result of evaluating an expression *)
Inductive eres := EV (v : val) | EZeroDiv | EUnspec | EStuck.

Definition chk (z : Z) : eres := if in_i64b z then EV (VI z) else EUnspec.

Definition bool_lt (a b : bool) : bool := negb a && b.

Definition binop_val (o : binop) (a b : val) : eres :=
  match a, b with
  | VI x, VI y =>
      match o with
      | OpAdd => chk (x + y)
      | OpSub => chk (x - y)
      | OpMul => chk (x * y)
      | OpFloorDiv => if y =? 0 then EZeroDiv
                    else if (x =? MIN64) && (y =? -1) then EUnspec
                    else chk (spec_floor_div x y)
      | OpMod => if y =? 0 then EZeroDiv else chk (spec_mod x y)
      | OpEq => EV (VB (x =? y))
      | OpNe => EV (VB (negb (x =? y)))
      | OpLt => EV (VB (x <? y))
      | OpLe => EV (VB (x <=? y))
      | OpGt => EV (VB (y <? x))
      | OpGe => EV (VB (y <=? x))
      | OpAnd | OpOr => EStuck
      end
  | VB x, VB y =>
      match o with
      | OpEq => EV (VB (eqb x y))
      | OpNe => EV (VB (negb (eqb x y)))
      | OpLt => EV (VB (bool_lt x y))
      | OpLe => EV (VB (negb (bool_lt y x)))
      | OpGt => EV (VB (bool_lt y x))
      | OpGe => EV (VB (negb (bool_lt x y)))
      | _ => EStuck
      end
  | _, _ => EStuck
  end.

Fixpoint eval (E : env) (e : expr) : eres :=
  match e with
  | EInt n => chk n
  | EBool b => EV (VB b)
  | EVar x => match lookup x E with
              | Some (VI z) => chk z
              | Some v => EV v
              | None => EStuck
              end
  | EParen e1 => eval E e1
  | EUn UNeg e1 => match eval E e1 with
                  | EV (VI z) => chk (- z)
                  | EV _ => EStuck
                  | r => r
                  end
  | EUn UNot e1 => match eval E e1 with
                  | EV (VB b) => EV (VB (negb b))
                  | EV _ => EStuck
                  | r => r
                  end
  | EBin OpAnd l r => match eval E l with
                    | EV (VB false) => EV (VB false)
                    | EV (VB true) => match eval E r with
                                      | EV (VB b) => EV (VB b)
                                      | EV _ => EStuck
                                      | x => x
                                      end
                    | EV _ => EStuck
                    | x => x
                    end
  | EBin OpOr l r => match eval E l with
                   | EV (VB true) => EV (VB true)
                   | EV (VB false) => match eval E r with
                                      | EV (VB b) => EV (VB b)
                                      | EV _ => EStuck
                                      | x => x
                                      end
                   | EV _ => EStuck
                   | x => x
                   end
  | EBin o l r => match eval E l with
                  | EV a => match eval E r with
                            | EV b => binop_val o a b
                            | x => x
                            end
                  | x => x
                  end
  end.

(* one printed line *)
Inductive line := LI (z : Z) | LB (b : bool).

Definition line_of (v : val) : line := match v with VI z => LI z | VB b => LB b end.

(* how a run ends.  [ZeroDiv]: "ZeroDivisionError: float division by zero"; [StepZero]:
   "ValueError: range() arg 3 must not be zero"; [Unspec]: the documentation does not say
   (integer overflow); [RustPanic]: any other abort of the generated program (only the Rust side
   produces it); [Stuck]: the program is ill-formed (unbound name, operand of the wrong type) *)
Inductive stop := Done | ZeroDiv | StepZero | Unspec | RustPanic | OutOfFuel | Stuck.

(* [Ret v]: a `return` is unwinding to the enclosing call (v = None for `return` without value) *)
Inductive sig := Go | Brk | Cont | Ret (v : option val) | Halt (k : stop).

Definition stop_of (r : eres) : stop :=
  match r with EV _ => Stuck | EZeroDiv => ZeroDiv | EUnspec => Unspec | EStuck => Stuck end.

Definition xres := (list line * env * sig)%type.

Definition in_scope (n : nat) (r : xres) : xres :=
  let '(o, E, g) := r in (o, restore n E, g).

Definition xseq (r : xres) (k : env -> xres) : xres :=
  let '(o, E, g) := r in
  match g with
  | Go => let '(o2, E2, g2) := k E in (o ++ o2, E2, g2)
  | _ => (o, E, g)
  end.

(* the three values of a range call, evaluated left to right *)
Definition eval_rargs (E : env) (r : rargs) : eres * eres * eres :=
  match r with
  | R1 e => (EV (VI 0), eval E e, EV (VI 1))
  | R2 a b => (eval E a, eval E b, EV (VI 1))
  | R3 a b s => (eval E a, eval E b, eval E s)
  end.

Definition range_done (cur stp step : Z) : bool :=
  if 0 <? step then stp <=? cur else cur <=? stp.

(* arguments (call-free) evaluated left to right in WRITTEN order; the first that is not a value
   stops the evaluation *)
Fixpoint eval_args (E : env) (l : list expr) : list val + eres :=
  match l with
  | [] => inl []
  | e :: r => match eval E e with
              | EV v => match eval_args E r with inl vs => inl (v :: vs) | inr x => inr x end
              | x => inr x
              end
  end.

(* result of a call expression: a value, no value (a function returning None), or a stop *)
Inductive cres := CV (v : option val) | CHalt (k : stop).

(* a call-level expression: a call-free expression is evaluated on the spot, a call through [callf] *)
Definition cev_with (callf : ident -> list expr -> list (ident * expr) -> list line * cres)
                    (E : env) (c : cexpr) : list line * cres :=
  match c with
  | CPure e => match eval E e with
               | EV v => ([], CV (Some v))
               | r => ([], CHalt (stop_of r))
               end
  | CCall fn pos kw => callf fn pos kw
  end.

(* [P]: the function table *)

Fixpoint exec_stmt (P : prog) (fuel : nat) (E : env) (s : stmt) {struct fuel} : xres :=
  match fuel with
  | O => ([], E, Halt OutOfFuel)
  | S f =>
    match s with
    | SAssign k x _ c =>
        match cev_with (call P f E) E c with
        | (o, CV (Some v)) =>
            match k with
            | BInferred => if bound x E then (o, eupdate x v E, Go) else (o, ebind x v E, Go)
            | _ => (o, ebind x v E, Go)
            end
        | (o, CV None) => (o, E, Halt Stuck)
        | (o, CHalt k) => (o, E, Halt k)
        end
    | SCompound o x e =>
        match eval E (EBin (binop_of_cop o) (EVar x) e) with
        | EV v => ([], eupdate x v E, Go)
        | r => ([], E, Halt (stop_of r))
        end
    | SIf c th el =>
        match eval E c with
        | EV (VB true) => in_scope (length E) (exec_block P f E th)
        | EV (VB false) => exec_els P f E el
        | r => ([], E, Halt (stop_of r))
        end
    | SWhile c b =>
        match eval E c with
        | EV (VB true) =>
            let '(o, E1, g) := in_scope (length E) (exec_block P f E b) in
            match g with
            | Go | Cont => let '(o2, E2, g2) := exec_stmt P f E1 (SWhile c b) in (o ++ o2, E2, g2)
            | Brk => (o, E1, Go)
            | Ret v => (o, E1, Ret v)
            | Halt k => (o, E1, Halt k)
            end
        | EV (VB false) => ([], E, Go)
        | r => ([], E, Halt (stop_of r))
        end
    | SFor x r b =>
        match eval_rargs E r with
        | (EV (VI a), EV (VI z), EV (VI st)) =>
            if st =? 0 then ([], E, Halt StepZero) else exec_range P f E x a z st b
        | (EV (VI _), EV (VI _), r3) => ([], E, Halt (stop_of r3))
        | (EV (VI _), r2, _) => ([], E, Halt (stop_of r2))
        | (r1, _, _) => ([], E, Halt (stop_of r1))
        end
    | SPrint c =>
        match cev_with (call P f E) E c with
        | (o, CV (Some v)) => (o ++ [line_of v], E, Go)
        | (o, CV None) => (o, E, Halt Stuck)
        | (o, CHalt k) => (o, E, Halt k)
        end
    | SExpr c =>
        match cev_with (call P f E) E c with
        | (o, CV _) => (o, E, Go)
        | (o, CHalt k) => (o, E, Halt k)
        end
    | SReturn None => ([], E, Ret None)
    | SReturn (Some c) =>
        match cev_with (call P f E) E c with
        | (o, CV (Some v)) => (o, E, Ret (Some v))
        | (o, CV None) => (o, E, Halt Stuck)
        | (o, CHalt k) => (o, E, Halt k)
        end
    | SPass => ([], E, Go)
    | SBreak => ([], E, Brk)
    | SContinue => ([], E, Cont)
    end
  end
with exec_block (P : prog) (fuel : nat) (E : env) (b : block) {struct fuel} : xres :=
  match fuel with
  | O => ([], E, Halt OutOfFuel)
  | S f =>
    match b with
    | BNil => ([], E, Go)
    | BCons s r => xseq (exec_stmt P f E s) (fun E1 => exec_block P f E1 r)
    end
  end
with exec_els (P : prog) (fuel : nat) (E : env) (el : els) {struct fuel} : xres :=
  match fuel with
  | O => ([], E, Halt OutOfFuel)
  | S f =>
    match el with
    | ENone => ([], E, Go)
    | EElse b => in_scope (length E) (exec_block P f E b)
    | EElif c b rest =>
        match eval E c with
        | EV (VB true) => in_scope (length E) (exec_block P f E b)
        | EV (VB false) => exec_els P f E rest
        | r => ([], E, Halt (stop_of r))
        end
    end
  end
with exec_range (P : prog) (fuel : nat) (E : env) (x : ident) (cur stp step : Z) (b : block) {struct fuel} : xres :=
  match fuel with
  | O => ([], E, Halt OutOfFuel)
  | S f =>
    if range_done cur stp step then ([], E, Go) else
    let '(o, E1, g) := in_scope (length E) (exec_block P f ((x, VI cur) :: E) b) in
    match g with
    | Go | Cont =>
        (* Python's range over unbounded ints: a next value outside i64 is past the end *)
        if in_i64b (cur + step)
        then let '(o2, E2, g2) := exec_range P f E1 x (cur + step) stp step b in (o ++ o2, E2, g2)
        else (o, E1, Go)
    | Brk => (o, E1, Go)
    | Ret v => (o, E1, Ret v)
    | Halt k => (o, E1, Halt k)
    end
  end
(* call/return: the callee is looked up in the function table, the arguments are evaluated left to
   right in written order and bound to the parameters by name ([select]); the body runs in a fresh
   environment holding only the parameters *)
with call (P : prog) (fuel : nat) (E : env) (fn : ident) (pos : list expr) (kw : list (ident * expr)) {struct fuel}
  : list line * cres :=
  match fuel with
  | O => ([], CHalt OutOfFuel)
  | S f =>
    match find_fn fn P with
    | None => ([], CHalt Stuck)
    | Some d =>
        match eval_args E (pos ++ map snd kw) with
        | inr r => ([], CHalt (stop_of r))
        | inl vs =>
            match select (fparams d) (length pos) O (map fst kw) with
            | None => ([], CHalt Stuck)
            | Some sel =>
                match pick vs sel with
                | None => ([], CHalt Stuck)
                | Some bound_vals =>
                    let '(o, _, g) := exec_block P f (combine (fparams d) bound_vals) (fbody d) in
                    match g with
                    | Ret (Some v) => if fret d then (o, CV (Some v)) else (o, CHalt Stuck)
                    | Ret None | Go => if fret d then (o, CHalt Stuck) else (o, CV None)
                    | Brk | Cont => (o, CHalt Stuck)
                    | Halt k => (o, CHalt k)
                    end
                end
            end
        end
    end
  end.

(* the observable behaviour the documentation assigns to calling the entry function with [args] *)
Definition run (fuel : nat) (c : fcase) : list line * stop :=
  match call (cprog c) fuel [] (centry c) (map EInt (args c)) [] with
  | (o, CV _) => (o, Done)
  | (o, CHalt k) => (o, k)
  end.
