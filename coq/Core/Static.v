(* Core/Static.v — the documented static rules of the fragment, as an executable judgement that
   reports the FIRST rule violated.  Written from the language reference (numeric_semantics.md:
   arithmetic on numbers, comparisons between like types) and scopes_and_name_resolution.md
   (plain `x = e` reassigns the NEAREST existing binding — which must be `mut` and of the same type —
   or else creates a new immutable binding; `let`/`mut` create a new binding in the current scope),
   NOT from the checker.  Definitions only.
   Fragment restriction: `let`/`mut` of a name already bound in the SAME scope is outside the
   fragment (VRebindSameScope). *)
From Verif Require Import Base.I64 Core.Syntax Core.Dynamic Core.Rust.
From Coq Require Import ZArith List Bool.
Import ListNotations.
Open Scope Z_scope.

Inductive vkind :=
| VUnbound | VLiteralRange
| VNegOperand | VNotOperand | VArithOperand | VCompareTypes | VAndOrOperand
| VReassignImmutable | VReassignType | VAnnotation | VRebindSameScope
| VCompoundTarget | VCompoundOperand
| VCondition | VRangeArg | VBreakOutsideLoop
| VUnknownFn | VCallArity | VCallArgType | VUnitValue | VReturnType | VMissingReturn.

Inductive sres (A : Type) := SOk (a : A) | SBad (k : vkind).
Arguments SOk {A}. Arguments SBad {A}.

Definition senv := tenv.          (* scopes of name -> (type, mutable), innermost first *)

Definition is_cmp_op (o : binop) : bool :=
  match o with OpEq | OpNe | OpLt | OpLe | OpGt | OpGe => true | _ => false end.
Definition is_arith_op (o : binop) : bool :=
  match o with OpAdd | OpSub | OpMul | OpFloorDiv | OpMod => true | _ => false end.

Fixpoint sty (E : senv) (e : expr) : sres ty :=
  match e with
  | EInt n => if (0 <=? n) && in_i64b n then SOk TyInt else SBad VLiteralRange
  | EBool _ => SOk TyBool
  | EVar x => match tlookup x E with
              | Some (TyUnk, _) => SBad VUnbound
              | Some (t, _) => SOk t
              | None => SBad VUnbound
              end
  | EParen e1 => sty E e1
  | EUn UNeg e1 => match sty E e1 with
                   | SOk TyInt => SOk TyInt
                   | SOk _ => SBad VNegOperand
                   | SBad k => SBad k
                   end
  | EUn UNot e1 => match sty E e1 with
                   | SOk TyBool => SOk TyBool
                   | SOk _ => SBad VNotOperand
                   | SBad k => SBad k
                   end
  | EBin o l r =>
      match sty E l with
      | SBad k => SBad k
      | SOk tl =>
          match sty E r with
          | SBad k => SBad k
          | SOk tr =>
              if is_arith_op o then
                match tl, tr with TyInt, TyInt => SOk TyInt | _, _ => SBad VArithOperand end
              else if is_cmp_op o then
                (if ty_eqb tl tr then SOk TyBool else SBad VCompareTypes)
              else
                match tl, tr with TyBool, TyBool => SOk TyBool | _, _ => SBad VAndOrOperand end
          end
      end
  end.

Definition ann_ok (ann : option ty) (t : ty) : bool :=
  match ann with None => true | Some a => ty_eqb a t end.

Definition in_top (x : ident) (E : senv) : bool :=
  match E with
  | [] => false
  | f :: _ => match tflookup x f with Some _ => true | None => false end
  end.

Definition sty_int (E : senv) (e : expr) : sres unit :=
  match sty E e with SOk TyInt => SOk Datatypes.tt | SOk _ => SBad VRangeArg | SBad k => SBad k end.

(* all written arguments are ints *)
Fixpoint sty_args (E : senv) (l : list expr) : sres unit :=
  match l with
  | [] => SOk Datatypes.tt
  | e :: r => match sty E e with
              | SOk TyInt => sty_args E r
              | SOk _ => SBad VCallArgType
              | SBad k => SBad k
              end
  end.

(* a call-level expression: Some t a value of type t, None no value (a function returning None).
   A call must name a function of the program, bind every parameter exactly from its arguments
   (positional first, then by keyword) and pass ints. *)
Definition sty_c (P : prog) (E : senv) (c : cexpr) : sres (option ty) :=
  match c with
  | CPure e => match sty E e with SOk t => SOk (Some t) | SBad k => SBad k end
  | CCall f pos kw =>
      match find_fn f P with
      | None => SBad VUnknownFn
      | Some d =>
          match sty_args E (pos ++ map snd kw) with
          | SBad k => SBad k
          | SOk _ =>
              match select (fparams d) (length pos) O (map fst kw) with
              | Some sel =>
                  if Nat.eqb (length sel) (length pos + length kw)
                  then match pick (pos ++ map snd kw) sel with
                       | Some _ => SOk (if fret d then Some TyInt else None)
                       | None => SBad VCallArity
                       end
                  else SBad VCallArity
              | None => SBad VCallArity
              end
          end
      end
  end.

(* [rt]: the enclosing function returns int *)
Fixpoint static_stmt (P : prog) (rt lp : bool) (E : senv) (s : stmt) {struct s} : sres senv :=
  match s with
  | SAssign k x ann c =>
      match sty_c P E c with
      | SBad v => SBad v
      | SOk None => SBad VUnitValue
      | SOk (Some t) =>
          match k with
          | BInferred =>
              match tlookup x E with
              | Some (vt, vm) =>
                  if negb vm then SBad VReassignImmutable
                  else if negb (ty_eqb vt t) then SBad VReassignType
                  else if ann_ok ann vt then SOk E else SBad VAnnotation
              | None => if ann_ok ann t then SOk (tbind x (t, false) E) else SBad VAnnotation
              end
          | BLet => if in_top x E then SBad VRebindSameScope
                    else if ann_ok ann t then SOk (tbind x (t, false) E) else SBad VAnnotation
          | BMut => if in_top x E then SBad VRebindSameScope
                    else if ann_ok ann t then SOk (tbind x (t, true) E) else SBad VAnnotation
          end
      end
  | SCompound o x e =>
      match tlookup x E with
      | Some (TyInt, true) =>
          match sty E e with
          | SOk TyInt => SOk E
          | SOk _ => SBad VCompoundOperand
          | SBad v => SBad v
          end
      | _ => SBad VCompoundTarget
      end
  | SIf c th el =>
      match sty E c with
      | SOk TyBool =>
          match static_block P rt lp ([] :: E) th with
          | SOk _ => match static_els P rt lp E el with SOk _ => SOk E | SBad v => SBad v end
          | SBad v => SBad v
          end
      | SOk _ => SBad VCondition
      | SBad v => SBad v
      end
  | SWhile c b =>
      match sty E c with
      | SOk TyBool => match static_block P rt true ([] :: E) b with SOk _ => SOk E | SBad v => SBad v end
      | SOk _ => SBad VCondition
      | SBad v => SBad v
      end
  | SFor x r b =>
      let args := match r with R1 e => [e] | R2 a z => [a; z] | R3 a z s => [a; z; s] end in
      match (fix go (l : list expr) : sres unit :=
               match l with
               | [] => SOk Datatypes.tt
               | e :: rest => match sty_int E e with SOk _ => go rest | SBad v => SBad v end
               end) args with
      | SBad v => SBad v
      | SOk _ =>
          match static_block P rt true ([(x, (TyInt, false))] :: E) b with SOk _ => SOk E | SBad v => SBad v end
      end
  | SPrint c => match sty_c P E c with
                | SOk (Some _) => SOk E
                | SOk None => SBad VUnitValue
                | SBad v => SBad v
                end
  | SExpr c => match sty_c P E c with SOk _ => SOk E | SBad v => SBad v end
  | SReturn None => if rt then SBad VReturnType else SOk E
  | SReturn (Some c) =>
      match sty_c P E c with
      | SOk (Some TyInt) => if rt then SOk E else SBad VReturnType
      | SOk (Some _) => SBad VReturnType
      | SOk None => SBad VUnitValue
      | SBad v => SBad v
      end
  | SPass => SOk E
  | SBreak | SContinue => if lp then SOk E else SBad VBreakOutsideLoop
  end
with static_block (P : prog) (rt lp : bool) (E : senv) (b : block) {struct b} : sres senv :=
  match b with
  | BNil => SOk E
  | BCons s r => match static_stmt P rt lp E s with SOk E1 => static_block P rt lp E1 r | SBad v => SBad v end
  end
with static_els (P : prog) (rt lp : bool) (E : senv) (el : els) {struct el} : sres unit :=
  match el with
  | ENone => SOk Datatypes.tt
  | EElse b => match static_block P rt lp ([] :: E) b with SOk _ => SOk Datatypes.tt | SBad v => SBad v end
  | EElif c b rest =>
      match sty E c with
      | SOk TyBool =>
          match static_block P rt lp ([] :: E) b with
          | SOk _ => static_els P rt lp E rest
          | SBad v => SBad v
          end
      | SOk _ => SBad VCondition
      | SBad v => SBad v
      end
  end.

Definition param_env (ps : list ident) : senv := [map (fun p => (p, (TyInt, false))) ps].

(* a function returning int must end in a return on every path: its last statement is a `return`
   or an if/elif/else whose branches all end that way *)
Fixpoint ends_ret (b : block) : bool :=
  match b with
  | BNil => false
  | BCons s BNil =>
      match s with
      | SReturn _ => true
      | SIf _ th el => ends_ret th && ends_ret_els el
      | _ => false
      end
  | BCons _ r => ends_ret r
  end
with ends_ret_els (el : els) : bool :=
  match el with
  | ENone => false
  | EElse b => ends_ret b
  | EElif _ b rest => ends_ret b && ends_ret_els rest
  end.

Definition static_def (P : prog) (d : fdef) : option vkind :=
  match static_block P (fret d) false (param_env (fparams d)) (fbody d) with
  | SBad k => Some k
  | SOk _ => if negb (fret d) || ends_ret (fbody d) then None else Some VMissingReturn
  end.

Fixpoint static_defs (P : prog) (l : list fdef) : option vkind :=
  match l with
  | [] => None
  | d :: r => match static_def P d with Some k => Some k | None => static_defs P r end
  end.

(* None: every function of the program obeys the documented rules; Some k: the first rule broken *)
Definition static_fn (c : fcase) : option vkind := static_defs (cprog c) (cprog c).

Definition vkind_code (k : vkind) : Z :=
  match k with
  | VUnbound => 1 | VLiteralRange => 2 | VNegOperand => 3 | VNotOperand => 4 | VArithOperand => 5
  | VCompareTypes => 6 | VAndOrOperand => 7 | VReassignImmutable => 8 | VReassignType => 9
  | VAnnotation => 10 | VRebindSameScope => 11 | VCompoundTarget => 12 | VCompoundOperand => 13
  | VCondition => 14 | VRangeArg => 15 | VBreakOutsideLoop => 16
  | VUnknownFn => 17 | VCallArity => 18 | VCallArgType => 19 | VUnitValue => 20 | VReturnType => 21 | VMissingReturn => 22
  end.
