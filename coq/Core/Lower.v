(* Core/Lower.v — model of src/backend/ir/lower/{expr,stmt}.rs and src/backend/ir/emit/
   {expressions/mod.rs, expressions/calls.rs, statements.rs} + conversions.rs::determine_binop_plan
   for the fragment.  Lowering produces an IR that mirrors ir::expr / ir::stmt (expressions carry
   the operand types the checker recorded); emission produces MiniRust token trees by splicing,
   exactly as `quote!{ #l #op #r }` does — no grouping is re-inserted.  [tree_of] is the term the
   IR node *denotes* (what the emitter meant).  Definitions only. *)
From Verif Require Import Base.I64 Core.Syntax Core.Dynamic Core.Rust.
From Coq Require Import ZArith List Bool.
Import ListNotations.
Open Scope Z_scope.

(* ---------------------------------------------------------------- lowering state *)

Definition scope := list (ident * ty).
Definition scopes := list scope.            (* AstLowering::scopes, innermost first *)

Fixpoint sclookup (x : ident) (s : scope) : option ty :=
  match s with [] => None | (y, t) :: r => if x =? y then Some t else sclookup x r end.
Fixpoint slookup (x : ident) (sc : scopes) : option ty :=
  match sc with
  | [] => None
  | s :: r => match sclookup x s with Some t => Some t | None => slookup x r end
  end.
Definition sexists (x : ident) (sc : scopes) : bool :=
  match slookup x sc with Some _ => true | None => false end.
Definition sinsert (x : ident) (t : ty) (sc : scopes) : scopes :=
  match sc with [] => [[(x, t)]] | s :: r => ((x, t) :: s) :: r end.
(* AstLowering::lookup_var: Unknown when absent *)
Definition var_ty (x : ident) (sc : scopes) : ty :=
  match slookup x sc with Some t => t | None => TyUnk end.

Fixpoint mem (x : ident) (l : list ident) : bool :=
  match l with [] => false | y :: r => (x =? y) || mem x r end.

(* the type the checker records for an expression (TypeCheckInfo::expr_type), which
   lower_expr_spanned copies into the IR; see check_expr/ops.rs *)
Definition is_arith (o : binop) : bool :=
  match o with OpAdd | OpSub | OpMul | OpFloorDiv | OpMod => true | _ => false end.

Fixpoint cty (sc : scopes) (e : expr) : ty :=
  match e with
  | EInt _ => TyInt
  | EBool _ => TyBool
  | EVar x => var_ty x sc
  | EParen e1 => cty sc e1
  | EUn UNeg e1 => match cty sc e1 with TyInt | TyUnk => TyInt | TyBool => TyUnk end
  | EUn UNot _ => TyBool
  | EBin o l r =>
      if is_arith o then
        match cty sc l, cty sc r with
        | TyInt, _ | _, TyInt => TyInt       (* "(Some(n), None) | (None, Some(n))" arm included *)
        | _, _ => TyUnk
        end
      else TyBool
  end.

(* ---------------------------------------------------------------- IR *)

Inductive iexpr :=
| IInt (n : Z) | IBool (b : bool) | IVar (x : ident)
| IUn (o : unop) (e : iexpr)
| IBin (o : binop) (lt rt : ty) (l r : iexpr)          (* BinOp with the operands' types *)
| ICast (e : iexpr).                                    (* the `(step) as i64` of emit_range_call *)

Inductive icexpr :=
| IPure (e : iexpr)
| ICallU (f : ident) (args : list iexpr).          (* arguments in EMITTED (declaration) order *)

Definition istmt := gstmt iexpr icexpr.
Definition iblock := gblock iexpr icexpr.
Definition iels := gels iexpr icexpr.

(* lower_expr: the Paren arm returns the lowered content *)
Fixpoint lower_expr (sc : scopes) (e : expr) : iexpr :=
  match e with
  | EInt n => IInt n
  | EBool b => IBool b
  | EVar x => IVar x
  | EParen e1 => lower_expr sc e1
  | EUn o e1 => IUn o (lower_expr sc e1)
  | EBin o l r => IBin o (cty sc l) (cty sc r) (lower_expr sc l) (lower_expr sc r)
  end.

(* emit_call_expr: with the callee's signature from the function registry, keyword arguments are put
   into declaration order ([select] is that loop); without it (unknown callee, arity mismatch) the
   arguments stay in written order *)
Definition lower_c (P : prog) (sc : scopes) (c : cexpr) : icexpr :=
  match c with
  | CPure e => IPure (lower_expr sc e)
  | CCall f pos kw =>
      let written := map (lower_expr sc) (pos ++ map snd kw) in
      match find_fn f P with
      | Some d =>
          match select (fparams d) (length pos) O (map fst kw) with
          | Some sel => match pick written sel with
                        | Some l => ICallU f l
                        | None => ICallU f written
                        end
          | None => ICallU f written
          end
      | None => ICallU f written
      end
  end.

(* the type the checker records for a call-level expression *)
Definition cty_c (P : prog) (sc : scopes) (c : cexpr) : ty :=
  match c with
  | CPure e => cty sc e
  | CCall f _ _ => match find_fn f P with
                   | Some d => if fret d then TyInt else TyUnk
                   | None => TyUnk
                   end
  end.

Inductive lres (A : Type) := LOk (a : A) | LErr.     (* LErr: "Cannot reassign immutable variable" *)
Arguments LOk {A}. Arguments LErr {A}.

Definition lower_rargs (sc : scopes) (r : rargs) : iexpr * iexpr * iexpr :=
  match r with
  | R1 e => (IInt 0, lower_expr sc e, IInt 1)
  | R2 a b => (lower_expr sc a, lower_expr sc b, IInt 1)
  | R3 a b s => (lower_expr sc a, lower_expr sc b, ICast (lower_expr sc s))
  end.

(* lower_statement; [mv] is AstLowering::mutable_vars (keyed by NAME, only ever grows) *)
Fixpoint lower_stmt (P : prog) (sc : scopes) (mv : list ident) (s : stmt) {struct s}
  : lres (istmt * scopes * list ident) :=
  match s with
  | SAssign k x ann c =>
      let v := lower_c P sc c in
      let t := match ann with Some t => t | None => cty_c P sc c end in
      match k with
      | BInferred =>
          if sexists x sc then
            (if mem x mv then LOk (GAssign x v, sc, mv) else LErr)
          else LOk (GLet x false v, sinsert x t sc, mv)
      | BMut => LOk (GLet x true v, sinsert x t sc, x :: mv)
      | BLet => LOk (GLet x false v, sinsert x t sc, mv)
      end
  | SCompound o x e =>
      LOk (GAssign x (IPure (IBin (binop_of_cop o) (var_ty x sc) (cty sc e) (IVar x) (lower_expr sc e))), sc, mv)
  | SIf c th el =>
      (* the else branch and the elif chain are lowered BEFORE the condition and the then branch *)
      match lower_els P sc mv el with
      | LOk (el', mv1) =>
          match lower_block P ([] :: sc) mv1 th with
          | LOk (th', _, mv2) => LOk (GIf (lower_expr sc c) th' el', sc, mv2)
          | LErr => LErr
          end
      | LErr => LErr
      end
  | SWhile c b =>
      match lower_block P ([] :: sc) mv b with
      | LOk (b', _, mv1) => LOk (GWhile (lower_expr ([] :: sc) c) b', sc, mv1)
      | LErr => LErr
      end
  | SFor x r b =>
      let '(a, z, st) := lower_rargs sc r in
      match lower_block P ([(x, TyInt)] :: sc) mv b with
      | LOk (b', _, mv1) => LOk (GFor x a z st b', sc, mv1)
      | LErr => LErr
      end
  | SPrint c => LOk (GPrint (lower_c P sc c), sc, mv)
  | SExpr c => LOk (GExpr (lower_c P sc c), sc, mv)
  | SReturn oc => LOk (GReturn (match oc with Some c => Some (lower_c P sc c) | None => None end), sc, mv)
  | SPass => LOk (GUnit, sc, mv)
  | SBreak => LOk (GBreak, sc, mv)
  | SContinue => LOk (GContinue, sc, mv)
  end
with lower_block (P : prog) (sc : scopes) (mv : list ident) (b : block) {struct b}
  : lres (iblock * scopes * list ident) :=
  match b with
  | BNil => LOk (GNil, sc, mv)
  | BCons s r =>
      match lower_stmt P sc mv s with
      | LOk (s', sc1, mv1) =>
          match lower_block P sc1 mv1 r with
          | LOk (r', sc2, mv2) => LOk (GCons s' r', sc2, mv2)
          | LErr => LErr
          end
      | LErr => LErr
      end
  end
with lower_els (P : prog) (sc : scopes) (mv : list ident) (el : els) {struct el}
  : lres (iels * list ident) :=
  match el with
  | ENone => LOk (GNoElse, mv)
  | EElse b =>
      match lower_block P ([] :: sc) mv b with
      | LOk (b', _, mv1) => LOk (GElse b', mv1)
      | LErr => LErr
      end
  | EElif c b rest =>
      (* "Build elif chain from end to start": later branches first *)
      match lower_els P sc mv rest with
      | LOk (rest', mv1) =>
          match lower_block P ([] :: sc) mv1 b with
          | LOk (b', _, mv2) => LOk (GElse (GCons (GIf (lower_expr sc c) b' rest') GNil), mv2)
          | LErr => LErr
          end
      | LErr => LErr
      end
  end.


Definition init_scopes (ps : list ident) : scopes := [map (fun p => (p, TyInt)) ps].

Record ifn := { iname : ident; iparams : list ident; iret : bool; ibody : iblock }.

(* lower_program: functions in declaration order; mutable_vars is ONE map for the whole program *)
Fixpoint lower_fns (P : prog) (mv : list ident) (l : list fdef) : lres (list ifn) :=
  match l with
  | [] => LOk []
  | d :: r =>
      match lower_block P (init_scopes (fparams d)) mv (fbody d) with
      | LOk (b, _, mv1) =>
          match lower_fns P mv1 r with
          | LOk rest => LOk ({| iname := fname d; iparams := fparams d; iret := fret d; ibody := b |} :: rest)
          | LErr => LErr
          end
      | LErr => LErr
      end
  end.
Definition lower_prog (P : prog) : lres (list ifn) := lower_fns P [] P.

(* ---------------------------------------------------------------- emission *)

(* determine_binop_plan for int/bool operands: infix token or stdlib helper *)
Inductive plan := PInfix (t : op) (b : rbop) | PHelper (h : helper).

Definition binop_plan (o : binop) (lt : ty) : plan :=
  match o with
  | OpAdd => PInfix OPlus RAdd | OpSub => PInfix OMinus RSub | OpMul => PInfix OStar RMul
  | OpEq => PInfix OEqEq REq | OpNe => PInfix ONe RNe
  | OpLt => PInfix OLt RLt | OpLe => PInfix OLe RLe | OpGt => PInfix OGt RGt | OpGe => PInfix OGe RGe
  | OpAnd => PInfix OAndAnd RAnd | OpOr => PInfix OOrOr ROr
  (* result_ty is Int when both operands are numeric, otherwise it is the LEFT type *)
  | OpMod => PHelper (match lt with TyInt => HModI64 | _ => HMod end)
  | OpFloorDiv => PHelper (match lt with TyInt => HFloorI64 | _ => HFloor end)
  end.

Fixpoint emit_expr (e : iexpr) : list tt :=
  match e with
  | IInt n => if 0 <=? n then [T (TInt n)] else [T (TOp OMinus); T (TInt (- n))]
  | IBool true => [T TTrue]
  | IBool false => [T TFalse]
  | IVar x => [T (TId x)]
  | IUn UNeg e1 => T (TOp OMinus) :: emit_expr e1
  | IUn UNot e1 => T (TOp OBang) :: emit_expr e1
  | IBin o lt _ l r =>
      match binop_plan o lt with
      | PInfix t _ => emit_expr l ++ T (TOp t) :: emit_expr r
      | PHelper h => [T (TPath h); G Paren (emit_expr l ++ T TComma :: emit_expr r)]
      end
  | ICast e1 => [G Paren (emit_expr e1); T TAs; T TI64]
  end.

Fixpoint emit_args (l : list iexpr) : list tt :=
  match l with
  | [] => []
  | [e] => emit_expr e
  | e :: r => emit_expr e ++ T TComma :: emit_args r
  end.

Definition emit_c (c : icexpr) : list tt :=
  match c with
  | IPure e => emit_expr e
  | ICallU f l => [T (TFn f); G Paren (emit_args l)]
  end.

Definition is_true_lit (e : iexpr) : bool := match e with IBool true => true | _ => false end.

Fixpoint emit_stmt (s : istmt) : list tt :=
  match s with
  | GLet x m e =>
      T (TKw KLet) :: (if m then [T (TKw KMut)] else []) ++ T (TId x) :: T TAssign :: emit_c e ++ [T TSemi]
  | GAssign x e => T (TId x) :: T TAssign :: emit_c e ++ [T TSemi]
  | GIf c th el =>
      T (TKw KIf) :: emit_expr c ++ G Brace (emit_block th) ::
      match el with GNoElse => [] | GElse b => [T (TKw KElse); G Brace (emit_block b)] end
  | GWhile c b =>
      if is_true_lit c then [T (TKw KLoop); G Brace (emit_block b)]
      else T (TKw KWhile) :: emit_expr c ++ [G Brace (emit_block b)]
  | GLoop b => [T (TKw KLoop); G Brace (emit_block b)]
  | GFor x a z s b =>
      [T (TKw KFor); T (TId x); T (TKw KIn); T TRange;
       G Paren (emit_expr a ++ T TComma :: emit_expr z ++ T TComma :: emit_expr s);
       G Brace (emit_block b)]
  | GPrint e => [T TPrintln; T TBang; G Paren (T TFmt :: T TComma :: emit_c e); T TSemi]
  | GExpr e => emit_c e ++ [T TSemi]
  | GReturn None => [T (TKw KReturn); T TSemi]
  | GReturn (Some e) => T (TKw KReturn) :: emit_c e ++ [T TSemi]
  | GUnit => [G Paren []; T TSemi]
  | GBreak => [T (TKw KBreak); T TSemi]
  | GContinue => [T (TKw KContinue); T TSemi]
  end
with emit_block (b : iblock) : list tt :=
  match b with
  | GNil => []
  | GCons s r => emit_stmt s ++ emit_block r
  end.

(* ---------------------------------------------------------------- the denoted term *)

Fixpoint tree_of (e : iexpr) : rexpr :=
  match e with
  | IInt n => if 0 <=? n then RInt n else RNeg (RInt (- n))
  | IBool b => RBool b
  | IVar x => RVar x
  | IUn UNeg e1 => RNeg (tree_of e1)
  | IUn UNot e1 => RNot (tree_of e1)
  | IBin o lt _ l r =>
      match binop_plan o lt with
      | PInfix _ b => RBin b (tree_of l) (tree_of r)
      | PHelper h => RCall h (tree_of l) (tree_of r)
      end
  | ICast e1 => RCast (tree_of e1)
  end.

Definition tree_of_c (c : icexpr) : rcexpr :=
  match c with
  | IPure e => RPure (tree_of e)
  | ICallU f l => RUCall f (map tree_of l)
  end.

Fixpoint tree_of_stmt (s : istmt) : rstmt :=
  match s with
  | GLet x m e => GLet x m (tree_of_c e)
  | GAssign x e => GAssign x (tree_of_c e)
  | GIf c th el => GIf (tree_of c) (tree_of_block th)
                       (match el with GNoElse => GNoElse | GElse b => GElse (tree_of_block b) end)
  | GWhile c b => if is_true_lit c then GLoop (tree_of_block b) else GWhile (tree_of c) (tree_of_block b)
  | GLoop b => GLoop (tree_of_block b)
  | GFor x a z s b => GFor x (tree_of a) (tree_of z) (tree_of s) (tree_of_block b)
  | GPrint e => GPrint (tree_of_c e)
  | GExpr e => GExpr (tree_of_c e)
  | GReturn oe => GReturn (match oe with Some e => Some (tree_of_c e) | None => None end)
  | GUnit => GUnit
  | GBreak => GBreak
  | GContinue => GContinue
  end
with tree_of_block (b : iblock) : rblock :=
  match b with
  | GNil => GNil
  | GCons s r => GCons (tree_of_stmt s) (tree_of_block r)
  end.

(* ---------------------------------------------------------------- the grouping class *)

(* an IR expression is emitted faithfully iff Rust's grammar reads the spliced tokens back as
   the term the node denotes *)
Definition regroups (e : iexpr) : bool :=
  match parse_expr (emit_expr e) with
  | Some t => if rexpr_eq_dec t (tree_of e) then false else true
  | None => true
  end.

Definition regroups_c (c : icexpr) : bool :=
  match c with IPure e => regroups e | ICallU _ l => existsb regroups l end.

Fixpoint regroups_stmt (s : istmt) : bool :=
  match s with
  | GLet _ _ e | GAssign _ e | GPrint e | GExpr e => regroups_c e
  | GReturn oe => match oe with Some e => regroups_c e | None => false end
  | GIf c th el => regroups c || regroups_block th ||
                   match el with GNoElse => false | GElse b => regroups_block b end
  | GWhile c b => (if is_true_lit c then false else regroups c) || regroups_block b
  | GLoop b => regroups_block b
  | GFor _ a z s b => regroups a || regroups z || regroups s || regroups_block b
  | GUnit | GBreak | GContinue => false
  end
with regroups_block (b : iblock) : bool :=
  match b with
  | GNil => false
  | GCons s r => regroups_stmt s || regroups_block r
  end.

(* ---------------------------------------------------------------- function items *)

Fixpoint emit_params (ps : list ident) : list tt :=
  match ps with
  | [] => []
  | [p] => [T (TId p); T TColon; T TI64]
  | p :: r => T (TId p) :: T TColon :: T TI64 :: T TComma :: emit_params r
  end.

Definition emit_fn (d : ifn) : list tt :=
  T (TKw KFn) :: T (TFn (iname d)) :: G Paren (emit_params (iparams d)) ::
  (if iret d then [T TArrow; T TI64] else []) ++ [G Brace (emit_block (ibody d))].

Definition emit_fns (l : list ifn) : list tt := flat_map emit_fn l.

Definition tree_of_fn (d : ifn) : rfn :=
  {| rname := iname d; rparams := iparams d; rret := iret d; rbody := tree_of_block (ibody d) |}.
Definition tree_of_fns (l : list ifn) : rprog := map tree_of_fn l.
