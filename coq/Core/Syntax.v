(* Core/Syntax.v — MiniIncan source syntax (DESIGN 7.3), the narrow fragment first:
   int and bool expressions with parentheses, variables, let/mut/plain/typed and compound
   assignment at any block depth, if/elif/else, while, for-in-range, println, pass/break/continue,
   inside top-level functions with int parameters.  Definitions only.

   Identifiers are numbers: variable [k] is spelled "v<k>" in generated source.
   [EParen] is the parser's [Expr::Paren] node: the tree carries exactly the parentheses the
   source text has, so "what the source says" (grouping) is the tree itself. *)
From Coq Require Import ZArith List Bool.
Import ListNotations.
Open Scope Z_scope.

Definition ident := Z.

Inductive ty := TyInt | TyBool | TyUnk.

Inductive unop := UNeg | UNot.

(* the binary operators of the fragment (ast::BinaryOp minus Div/Pow (float-valued), In/NotIn/Is) *)
Inductive binop := OpAdd | OpSub | OpMul | OpFloorDiv | OpMod | OpEq | OpNe | OpLt | OpLe | OpGt | OpGe | OpAnd | OpOr.

Inductive expr :=
| EInt (n : Z)                       (* integer literal token: 0 <= n < 2^63 *)
| EBool (b : bool)
| EVar (x : ident)
| EParen (e : expr)
| EUn (o : unop) (e : expr)
| EBin (o : binop) (l r : expr).

(* ast::BindingKind of an AssignmentStmt: `x = e` / `let x = e` / `mut x = e` *)
Inductive bkind := BInferred | BLet | BMut.

(* ast::CompoundOp minus Div *)
Inductive cop := CAdd | CSub | CMul | CFloorDiv | CMod.

(* arguments of the `range(...)` call of a for statement *)
Inductive rargs := R1 (e : expr) | R2 (a b : expr) | R3 (a b s : expr).

Inductive stmt :=
| SAssign (k : bkind) (x : ident) (ann : option ty) (e : expr)
| SCompound (o : cop) (x : ident) (e : expr)
| SIf (c : expr) (th : block) (el : els)
| SWhile (c : expr) (b : block)
| SFor (x : ident) (r : rargs) (b : block)
| SPrint (e : expr)
| SPass
| SBreak
| SContinue
with block := BNil | BCons (s : stmt) (b : block)
with els := ENone | EElse (b : block) | EElif (c : expr) (b : block) (rest : els).

Scheme stmt_mind := Induction for stmt Sort Prop
  with block_mind := Induction for block Sort Prop
  with els_mind := Induction for els Sort Prop.
Combined Scheme stmt_block_els_ind from stmt_mind, block_mind, els_mind.

(* a test function: `def t(v_p1: int, ..., v_pn: int) -> None: body`, called with [args] *)
Record fcase := { params : list ident; args : list Z; body : block }.

Definition binop_of_cop (o : cop) : binop :=
  match o with CAdd => OpAdd | CSub => OpSub | CMul => OpMul | CFloorDiv => OpFloorDiv | CMod => OpMod end.

Definition ty_eqb (a b : ty) : bool :=
  match a, b with TyInt, TyInt | TyBool, TyBool | TyUnk, TyUnk => true | _, _ => false end.

Fixpoint block_app (a b : block) : block :=
  match a with BNil => b | BCons s r => BCons s (block_app r b) end.
