(* Core/Syntax.v — MiniIncan source syntax (DESIGN 7.3), the narrow fragment first:
   int and bool expressions with parentheses, variables, let/mut/plain/typed and compound
   assignment at any block depth, if/elif/else, while, for-in-range, println, pass/break/continue,
   inside top-level functions with int parameters.  Definitions only.

   Identifiers are numbers: variable [k] is spelled "v<k>" in generated source.
   [EParen] is the parser's [Expr::Paren] node: the tree carries exactly the parentheses the
   source text has, so "what the source says" (grouping) is the tree itself. *)
From Coq Require Import ZArith List Bool.
Import ListNotations.
Open Scope Z_scope.

Definition ident := Z.

Inductive ty := TyInt | TyBool | TyUnk.

Inductive unop := UNeg | UNot.

(* the binary operators of the fragment (ast::BinaryOp minus Div/Pow (float-valued), In/NotIn/Is) *)
Inductive binop := OpAdd | OpSub | OpMul | OpFloorDiv | OpMod | OpEq | OpNe | OpLt | OpLe | OpGt | OpGe | OpAnd | OpOr.

Inductive expr :=
| EInt (n : Z)                       (* integer literal token: 0 <= n < 2^63 *)
| EBool (b : bool)
| EVar (x : ident)
| EParen (e : expr)
| EUn (o : unop) (e : expr)
| EBin (o : binop) (l r : expr).

(* ast::BindingKind of an AssignmentStmt: `x = e` / `let x = e` / `mut x = e` *)
Inductive bkind := BInferred | BLet | BMut.

(* ast::CompoundOp minus Div *)
Inductive cop := CAdd | CSub | CMul | CFloorDiv | CMod.

(* arguments of the `range(...)` call of a for statement *)
Inductive rargs := R1 (e : expr) | R2 (a b : expr) | R3 (a b s : expr).

(* A call expression: calls appear only at the top of an assignment's right-hand side, a println
   argument, a return value or an expression statement, and their arguments are call-free
   expressions (fragment restriction: `f(x) + 1` and `f(g(x))` are outside the proved fragment).
   [pos] are the positional arguments, [kw] the keyword arguments, both in written order. *)
Inductive cexpr :=
| CPure (e : expr)
| CCall (f : ident) (pos : list expr) (kw : list (ident * expr)).

Inductive stmt :=
| SAssign (k : bkind) (x : ident) (ann : option ty) (c : cexpr)
| SCompound (o : cop) (x : ident) (e : expr)
| SIf (c : expr) (th : block) (el : els)
| SWhile (c : expr) (b : block)
| SFor (x : ident) (r : rargs) (b : block)
| SPrint (c : cexpr)
| SExpr (c : cexpr)                   (* expression statement: a call *)
| SReturn (c : option cexpr)
| SPass
| SBreak
| SContinue
with block := BNil | BCons (s : stmt) (b : block)
with els := ENone | EElse (b : block) | EElif (c : expr) (b : block) (rest : els).

Scheme stmt_mind := Induction for stmt Sort Prop
  with block_mind := Induction for block Sort Prop
  with els_mind := Induction for els Sort Prop.
Combined Scheme stmt_block_els_ind from stmt_mind, block_mind, els_mind.

(* `def f<fname>(v_p1: int, ...) -> int | None: body`; function k is spelled "f<k>" *)
Record fdef := { fname : ident; fparams : list ident; fret : bool; fbody : block }.
Definition prog := list fdef.

Fixpoint find_fn (f : ident) (p : prog) : option fdef :=
  match p with
  | [] => None
  | d :: r => if f =? fname d then Some d else find_fn f r
  end.

(* Binding of arguments to parameters BY NAME: a parameter named by a keyword argument takes that
   argument, the others take the positional arguments in order.  For every parameter (in declaration
   order) the index of its argument in the written list pos ++ kw; None on an arity mismatch. *)
Fixpoint kw_index (p : ident) (kws : list ident) (j : nat) : option nat :=
  match kws with
  | [] => None
  | k :: r => if p =? k then Some j else kw_index p r (S j)
  end.

Fixpoint select (params : list ident) (npos next : nat) (kws : list ident) : option (list nat) :=
  match params with
  | [] => Some []
  | p :: r =>
      match kw_index p kws npos with
      | Some j => match select r npos next kws with Some l => Some (j :: l) | None => None end
      | None => if (next <? npos)%nat
                then match select r npos (S next) kws with Some l => Some (next :: l) | None => None end
                else None
      end
  end.

Fixpoint pick {A} (l : list A) (sel : list nat) : option (list A) :=
  match sel with
  | [] => Some []
  | i :: r => match nth_error l i, pick l r with
              | Some a, Some t => Some (a :: t)
              | _, _ => None
              end
  end.

(* a test case: the program, the function called and its (integer) arguments *)
Record fcase := { cprog : prog; centry : ident; args : list Z }.

Definition binop_of_cop (o : cop) : binop :=
  match o with CAdd => OpAdd | CSub => OpSub | CMul => OpMul | CFloorDiv => OpFloorDiv | CMod => OpMod end.

Definition ty_eqb (a b : ty) : bool :=
  match a, b with TyInt, TyInt | TyBool, TyBool | TyUnk, TyUnk => true | _, _ => false end.

Fixpoint block_app (a b : block) : block :=
  match a with BNil => b | BCons s r => BCons s (block_app r b) end.
