(* Core/Rust.v — MiniRust: the token trees the emitter produces, Rust's expression grammar for
   them (precedence parser), the statement grammar, and the meaning of the parsed terms
   (wrapping i64 arithmetic as in the `--release` builds `incan build` makes; the stdlib helpers
   are the C04 models over the kernels rs2v regenerates).  Definitions only. *)
From Verif Require Import Base.I64 C04.Model Core.Syntax Core.Dynamic.
From Coq Require Import ZArith List Bool.
Import ListNotations.
Open Scope Z_scope.

(* ---------------------------------------------------------------- tokens *)

Inductive op :=
| OPlus | OMinus | OStar | OEqEq | ONe | OLt | OLe | OGt | OGe | OAndAnd | OOrOr | OBang.

(* stdlib paths are one token each: incan_stdlib::num::py_mod_i64 etc., incan_stdlib::iter::range *)
Inductive helper := HModI64 | HMod | HFloorI64 | HFloor.

Inductive kw := KLet | KMut | KIf | KElse | KWhile | KLoop | KFor | KIn | KBreak | KContinue | KReturn | KFn.

Inductive tok :=
| TInt (n : Z) | TTrue | TFalse | TId (x : ident) | TFn (f : ident)      (* variable v<x>, function f<f> *)
| TPath (h : helper) | TRange
| TOp (o : op) | TKw (k : kw)
| TSemi | TComma | TAssign | TBang | TPrintln | TFmt      (* ; , = ! println "{}" *)
| TAs | TI64 | TColon | TArrow.

Inductive delim := Paren | Brace.

Inductive tt := T (t : tok) | G (d : delim) (ts : list tt).

(* ---------------------------------------------------------------- terms *)

Inductive rbop := RAdd | RSub | RMul | REq | RNe | RLt | RLe | RGt | RGe | RAnd | ROr.

Inductive rexpr :=
| RInt (n : Z) | RBool (b : bool) | RVar (x : ident)
| RNeg (e : rexpr) | RNot (e : rexpr)
| RBin (o : rbop) (l r : rexpr)
| RCall (h : helper) (a b : rexpr)
| RCast (e : rexpr).                                   (* `e as i64` *)

(* call-level expressions: a call-free expression or a call of a user function *)
Inductive rcexpr :=
| RPure (e : rexpr)
| RUCall (f : ident) (args : list rexpr).

(* statements, generic in the two expression types (X call-free, Y call-level): the lowering IR and
   the parsed Rust share the shape *)
Section G.
  Variables X Y : Type.
  Inductive gstmt :=
  | GLet (x : ident) (m : bool) (e : Y)
  | GAssign (x : ident) (e : Y)
  | GIf (c : X) (th : gblock) (el : gels)
  | GWhile (c : X) (b : gblock)
  | GLoop (b : gblock)
  | GFor (x : ident) (a z s : X) (b : gblock)        (* for x in range(a, z, s) *)
  | GPrint (e : Y)
  | GExpr (e : Y)
  | GReturn (e : option Y)
  | GUnit
  | GBreak
  | GContinue
  with gblock := GNil | GCons (s : gstmt) (r : gblock)
  with gels := GNoElse | GElse (b : gblock).
End G.
Arguments GLet {X Y}. Arguments GAssign {X Y}. Arguments GIf {X Y}. Arguments GWhile {X Y}.
Arguments GLoop {X Y}. Arguments GFor {X Y}. Arguments GPrint {X Y}. Arguments GExpr {X Y}.
Arguments GReturn {X Y}. Arguments GUnit {X Y}.
Arguments GBreak {X Y}. Arguments GContinue {X Y}. Arguments GNil {X Y}. Arguments GCons {X Y}.
Arguments GNoElse {X Y}. Arguments GElse {X Y}.

Scheme gstmt_mind := Induction for gstmt Sort Prop
  with gblock_mind := Induction for gblock Sort Prop
  with gels_mind := Induction for gels Sort Prop.
Combined Scheme gstmt_gblock_gels_ind from gstmt_mind, gblock_mind, gels_mind.

Definition rstmt := gstmt rexpr rcexpr.
Definition rblock := gblock rexpr rcexpr.
Definition rels := gels rexpr rcexpr.

(* a function item `fn f(p1: i64, ...) [-> i64] { body }` *)
Record rfn := { rname : ident; rparams : list ident; rret : bool; rbody : rblock }.
Definition rprog := list rfn.
Fixpoint find_rfn (f : ident) (p : rprog) : option rfn :=
  match p with [] => None | d :: r => if f =? rname d then Some d else find_rfn f r end.

(* ---------------------------------------------------------------- expression grammar *)

Definition binop_of_op (o : op) : option rbop :=
  match o with
  | OPlus => Some RAdd | OMinus => Some RSub | OStar => Some RMul
  | OEqEq => Some REq | ONe => Some RNe | OLt => Some RLt | OLe => Some RLe
  | OGt => Some RGt | OGe => Some RGe | OAndAnd => Some RAnd | OOrOr => Some ROr
  | OBang => None
  end.

(* Rust's binary operator precedence (The Rust Reference, "Expression precedence"):
   unary - ! > as > * / % > + - > << >> > & > ^ > | > == != < > <= >= (non-associative) > && > || *)
Definition prec (o : rbop) : Z :=
  match o with
  | RMul => 12
  | RAdd | RSub => 11
  | REq | RNe | RLt | RLe | RGt | RGe => 7
  | RAnd => 6
  | ROr => 5
  end.
Definition prec_as : Z := 13.

Definition is_cmp (o : rbop) : bool :=
  match o with REq | RNe | RLt | RLe | RGt | RGe => true | _ => false end.

Definition next_is_cmp (ts : list tt) : bool :=
  match ts with
  | T (TOp o) :: _ => match binop_of_op o with Some b => is_cmp b | None => false end
  | _ => false
  end.

(* split a token list at its first top-level comma *)
Fixpoint split_comma (ts : list tt) : option (list tt * list tt) :=
  match ts with
  | [] => None
  | T TComma :: r => Some ([], r)
  | t :: r => match split_comma r with Some (a, b) => Some (t :: a, b) | None => None end
  end.

Fixpoint p_unary (f : nat) (ts : list tt) {struct f} : option (rexpr * list tt) :=
  match f with
  | O => None
  | S f' =>
    match ts with
    | T (TOp OMinus) :: r =>
        match p_unary f' r with Some (e, r') => Some (RNeg e, r') | None => None end
    | T (TOp OBang) :: r =>
        match p_unary f' r with Some (e, r') => Some (RNot e, r') | None => None end
    | T (TInt n) :: r => Some (RInt n, r)
    | T TTrue :: r => Some (RBool true, r)
    | T TFalse :: r => Some (RBool false, r)
    | T (TId x) :: r => Some (RVar x, r)
    | T (TPath h) :: G Paren argts :: r =>
        match split_comma argts with
        | Some (a1, a2) =>
            match p_all f' a1, p_all f' a2 with
            | Some e1, Some e2 => Some (RCall h e1 e2, r)
            | _, _ => None
            end
        | None => None
        end
    | G Paren inner :: r =>
        match p_all f' inner with Some e => Some (e, r) | None => None end
    | _ => None
    end
  end
with p_binary (f : nat) (minp : Z) (lhs : rexpr) (ts : list tt) {struct f} : option (rexpr * list tt) :=
  match f with
  | O => None
  | S f' =>
    match ts with
    | T TAs :: T TI64 :: r =>
        if minp <=? prec_as then p_binary f' minp (RCast lhs) r else Some (lhs, ts)
    | T (TOp o) :: r =>
        match binop_of_op o with
        | None => Some (lhs, ts)
        | Some b =>
            if prec b <? minp then Some (lhs, ts) else
            match p_unary f' r with
            | None => None
            | Some (rhs, r1) =>
                match p_binary f' (prec b + 1) rhs r1 with
                | None => None
                | Some (rhs', r2) =>
                    if is_cmp b && next_is_cmp r2 then None      (* comparison operators cannot be chained *)
                    else p_binary f' minp (RBin b lhs rhs') r2
                end
            end
        end
    | _ => Some (lhs, ts)
    end
  end
with p_all (f : nat) (ts : list tt) {struct f} : option rexpr :=
  match f with
  | O => None
  | S f' =>
    match p_unary f' ts with
    | Some (e, r) => match p_binary f' 0 e r with
                     | Some (e', []) => Some e'
                     | _ => None
                     end
    | None => None
    end
  end.

(* number of tokens, groups included: enough fuel for the parser *)
Fixpoint tt_size (t : tt) : nat :=
  match t with
  | T _ => 1
  | G _ ts => S (S ((fix go (l : list tt) : nat := match l with [] => O | x :: r => (tt_size x + go r)%nat end) ts))
  end.
Definition tts_size (ts : list tt) : nat := fold_right (fun t n => (tt_size t + n)%nat) O ts.

Definition parse_expr (ts : list tt) : option rexpr := p_all (3 * tts_size ts + 3) ts.

(* ---------------------------------------------------------------- statement grammar *)

(* tokens up to the first top-level `;` *)
Fixpoint split_semi (ts : list tt) : option (list tt * list tt) :=
  match ts with
  | [] => None
  | T TSemi :: r => Some ([], r)
  | t :: r => match split_semi r with Some (a, b) => Some (t :: a, b) | None => None end
  end.

(* tokens up to the first top-level brace group, the group's content, the rest *)
Fixpoint split_brace (ts : list tt) : option (list tt * list tt * list tt) :=
  match ts with
  | [] => None
  | G Brace b :: r => Some ([], b, r)
  | t :: r => match split_brace r with Some (a, b, c) => Some (t :: a, b, c) | None => None end
  end.

Definition split3 (ts : list tt) : option (list tt * list tt * list tt) :=
  match split_comma ts with
  | Some (a, r) => match split_comma r with Some (b, c) => Some (a, b, c) | None => None end
  | None => None
  end.

(* all comma-separated pieces of an argument list (no piece for an empty list) *)
Fixpoint split_commas (cur : list tt) (ts : list tt) : list (list tt) :=
  match ts with
  | [] => match cur with [] => [] | _ => [rev cur] end
  | T TComma :: r => rev cur :: split_commas [] r
  | t :: r => split_commas (t :: cur) r
  end.

Fixpoint parse_all (l : list (list tt)) : option (list rexpr) :=
  match l with
  | [] => Some []
  | ts :: r => match parse_expr ts, parse_all r with
               | Some e, Some es => Some (e :: es)
               | _, _ => None
               end
  end.

(* a call-level expression: `f<k>( args )` or a call-free expression *)
Definition parse_c (ts : list tt) : option rcexpr :=
  match ts with
  | [T (TFn f); G Paren at_] =>
      match parse_all (split_commas [] at_) with Some es => Some (RUCall f es) | None => None end
  | _ => match parse_expr ts with Some e => Some (RPure e) | None => None end
  end.

Fixpoint p_block (f : nat) (ts : list tt) {struct f} : option rblock :=
  match f with
  | O => None
  | S f' =>
    match ts with
    | [] => Some GNil
    | T (TKw KLet) :: T (TKw KMut) :: T (TId x) :: T TAssign :: r =>
        match split_semi r with
        | Some (et, r1) =>
            match parse_c et, p_block f' r1 with
            | Some e, Some b => Some (GCons (GLet x true e) b)
            | _, _ => None
            end
        | None => None
        end
    | T (TKw KLet) :: T (TId x) :: T TAssign :: r =>
        match split_semi r with
        | Some (et, r1) =>
            match parse_c et, p_block f' r1 with
            | Some e, Some b => Some (GCons (GLet x false e) b)
            | _, _ => None
            end
        | None => None
        end
    | T (TId x) :: T TAssign :: r =>
        match split_semi r with
        | Some (et, r1) =>
            match parse_c et, p_block f' r1 with
            | Some e, Some b => Some (GCons (GAssign x e) b)
            | _, _ => None
            end
        | None => None
        end
    | T TPrintln :: T TBang :: G Paren (T TFmt :: T TComma :: et) :: T TSemi :: r =>
        match parse_c et, p_block f' r with
        | Some e, Some b => Some (GCons (GPrint e) b)
        | _, _ => None
        end
    | T (TFn g) :: G Paren at_ :: T TSemi :: r =>
        match parse_c [T (TFn g); G Paren at_], p_block f' r with
        | Some e, Some b => Some (GCons (GExpr e) b)
        | _, _ => None
        end
    | T (TKw KReturn) :: T TSemi :: r =>
        match p_block f' r with Some b => Some (GCons (GReturn None) b) | None => None end
    | T (TKw KReturn) :: r =>
        match split_semi r with
        | Some (et, r1) =>
            match parse_c et, p_block f' r1 with
            | Some e, Some b => Some (GCons (GReturn (Some e)) b)
            | _, _ => None
            end
        | None => None
        end
    | G Paren [] :: T TSemi :: r =>
        match p_block f' r with Some b => Some (GCons GUnit b) | None => None end
    | T (TKw KBreak) :: T TSemi :: r =>
        match p_block f' r with Some b => Some (GCons GBreak b) | None => None end
    | T (TKw KContinue) :: T TSemi :: r =>
        match p_block f' r with Some b => Some (GCons GContinue b) | None => None end
    | T (TKw KLoop) :: G Brace bt :: r =>
        match p_block f' bt, p_block f' r with
        | Some body, Some b => Some (GCons (GLoop body) b)
        | _, _ => None
        end
    | T (TKw KWhile) :: r =>
        match split_brace r with
        | Some (ct, bt, r1) =>
            match parse_expr ct, p_block f' bt, p_block f' r1 with
            | Some c, Some body, Some b => Some (GCons (GWhile c body) b)
            | _, _, _ => None
            end
        | None => None
        end
    | T (TKw KFor) :: T (TId x) :: T (TKw KIn) :: T TRange :: G Paren at_ :: G Brace bt :: r =>
        match split3 at_ with
        | Some (t1, t2, t3) =>
            match parse_expr t1, parse_expr t2, parse_expr t3, p_block f' bt, p_block f' r with
            | Some a, Some z, Some s, Some body, Some b => Some (GCons (GFor x a z s body) b)
            | _, _, _, _, _ => None
            end
        | None => None
        end
    | T (TKw KIf) :: r =>
        match split_brace r with
        | Some (ct, bt, r1) =>
            match parse_expr ct, p_block f' bt with
            | Some c, Some th =>
                match r1 with
                | T (TKw KElse) :: G Brace et :: r2 =>
                    match p_block f' et, p_block f' r2 with
                    | Some el, Some b => Some (GCons (GIf c th (GElse el)) b)
                    | _, _ => None
                    end
                | _ =>
                    match p_block f' r1 with
                    | Some b => Some (GCons (GIf c th GNoElse) b)
                    | None => None
                    end
                end
            | _, _ => None
            end
        | None => None
        end
    | _ => None
    end
  end.

Definition parse_block (ts : list tt) : option rblock := p_block (tts_size ts + 1) ts.

(* `p1 : i64 , p2 : i64` *)
Fixpoint parse_params (ts : list tt) : option (list ident) :=
  match ts with
  | [] => Some []
  | [T (TId p); T TColon; T TI64] => Some [p]
  | T (TId p) :: T TColon :: T TI64 :: T TComma :: r =>
      match parse_params r with Some l => Some (p :: l) | None => None end
  | _ => None
  end.

(* a file: a sequence of `fn f(params) [-> i64] { body }` items *)
Fixpoint parse_items (ts : list tt) : option rprog :=
  match ts with
  | [] => Some []
  | T (TKw KFn) :: T (TFn f) :: G Paren pt :: T TArrow :: T TI64 :: G Brace bt :: r =>
      match parse_params pt, parse_block bt, parse_items r with
      | Some ps, Some b, Some rest => Some ({| rname := f; rparams := ps; rret := true; rbody := b |} :: rest)
      | _, _, _ => None
      end
  | T (TKw KFn) :: T (TFn f) :: G Paren pt :: G Brace bt :: r =>
      match parse_params pt, parse_block bt, parse_items r with
      | Some ps, Some b, Some rest => Some ({| rname := f; rparams := ps; rret := false; rbody := b |} :: rest)
      | _, _, _ => None
      end
  | _ => None
  end.

(* ---------------------------------------------------------------- meaning of terms *)

(* result of evaluating a Rust expression: a value, one of the two documented panics, any other
   panic (arithmetic overflow in a helper), or ill-typed (would not compile) *)
Inductive rres := RV (v : val) | RZeroDiv | RPanic | RStuck.

Definition wrapv (z : Z) : rres := RV (VI (wrap64 z)).

Definition of_outcome (o : outcome) : rres :=
  match o with
  | OInt z => RV (VI z)
  | OFloat _ => RStuck
  | OZeroDiv => RZeroDiv
  | OPanic _ => RPanic
  end.

Definition call_helper (h : helper) (a b : val) : rres :=
  match a, b with
  | VI x, VI y =>
      match h with
      | HModI64 => of_outcome (py_mod_i64 Wrap x y)
      | HMod => of_outcome (py_mod Wrap (NI x) (NI y))
      | HFloorI64 => of_outcome (py_floor_div_i64 Wrap x y)
      | HFloor => of_outcome (py_floor_div Wrap (NI x) (NI y))
      end
  | _, _ => RStuck
  end.

Definition rbin_val (o : rbop) (a b : val) : rres :=
  match a, b with
  | VI x, VI y =>
      match o with
      | RAdd => wrapv (x + y)
      | RSub => wrapv (x - y)
      | RMul => wrapv (x * y)
      | REq => RV (VB (x =? y))
      | RNe => RV (VB (negb (x =? y)))
      | RLt => RV (VB (x <? y))
      | RLe => RV (VB (x <=? y))
      | RGt => RV (VB (y <? x))
      | RGe => RV (VB (y <=? x))
      | RAnd | ROr => RStuck
      end
  | VB x, VB y =>
      match o with
      | REq => RV (VB (eqb x y))
      | RNe => RV (VB (negb (eqb x y)))
      | RLt => RV (VB (bool_lt x y))
      | RLe => RV (VB (negb (bool_lt y x)))
      | RGt => RV (VB (bool_lt y x))
      | RGe => RV (VB (negb (bool_lt x y)))
      | _ => RStuck
      end
  | _, _ => RStuck
  end.

Fixpoint reval (E : env) (e : rexpr) : rres :=
  match e with
  | RInt n => RV (VI n)
  | RBool b => RV (VB b)
  | RVar x => match lookup x E with Some v => RV v | None => RStuck end
  | RNeg e1 => match reval E e1 with
               | RV (VI z) => wrapv (- z)
               | RV _ => RStuck
               | r => r
               end
  | RNot e1 => match reval E e1 with
               | RV (VB b) => RV (VB (negb b))
               | RV (VI z) => RV (VI (- z - 1))          (* `!` on i64 is bitwise complement *)
               | r => r
               end
  | RBin RAnd l r => match reval E l with
                     | RV (VB false) => RV (VB false)
                     | RV (VB true) => match reval E r with
                                       | RV (VB b) => RV (VB b)
                                       | RV _ => RStuck
                                       | x => x
                                       end
                     | RV _ => RStuck
                     | x => x
                     end
  | RBin ROr l r => match reval E l with
                    | RV (VB true) => RV (VB true)
                    | RV (VB false) => match reval E r with
                                       | RV (VB b) => RV (VB b)
                                       | RV _ => RStuck
                                       | x => x
                                       end
                    | RV _ => RStuck
                    | x => x
                    end
  | RBin o l r => match reval E l with
                  | RV a => match reval E r with
                            | RV b => rbin_val o a b
                            | x => x
                            end
                  | x => x
                  end
  | RCall h a b => match reval E a with
                   | RV va => match reval E b with
                              | RV vb => call_helper h va vb
                              | x => x
                              end
                   | x => x
                   end
  | RCast e1 => match reval E e1 with
                | RV (VI z) => RV (VI z)
                | RV _ => RStuck
                | r => r
                end
  end.

Definition rstop_of (r : rres) : stop :=
  match r with RV _ => Stuck | RZeroDiv => ZeroDiv | RPanic => RustPanic | RStuck => Stuck end.

(* arguments of a call, evaluated left to right in EMITTED order *)
Fixpoint reval_args (E : env) (l : list rexpr) : list val + rres :=
  match l with
  | [] => inl []
  | e :: r => match reval E e with
              | RV v => match reval_args E r with inl vs => inl (v :: vs) | inr x => inr x end
              | x => inr x
              end
  end.

Definition rcev_with (callf : ident -> list rexpr -> list line * cres) (E : env) (c : rcexpr) : list line * cres :=
  match c with
  | RPure e => match reval E e with
               | RV v => ([], CV (Some v))
               | r => ([], CHalt (rstop_of r))
               end
  | RUCall fn args => callf fn args
  end.


Fixpoint rexec_stmt (P : rprog) (fuel : nat) (E : env) (s : rstmt) {struct fuel} : xres :=
  match fuel with
  | O => ([], E, Halt OutOfFuel)
  | S f =>
    match s with
    | GLet x _ c =>
        match rcev_with (rcall P f E) E c with
        | (o, CV (Some v)) => (o, ebind x v E, Go)
        | (o, CV None) => (o, E, Halt Stuck)
        | (o, CHalt k) => (o, E, Halt k)
        end
    | GAssign x c =>
        match rcev_with (rcall P f E) E c with
        | (o, CV (Some v)) => if bound x E then (o, eupdate x v E, Go) else (o, E, Halt Stuck)
        | (o, CV None) => (o, E, Halt Stuck)
        | (o, CHalt k) => (o, E, Halt k)
        end
    | GIf c th el =>
        match reval E c with
        | RV (VB true) => in_scope (length E) (rexec_block P f E th)
        | RV (VB false) => match el with
                           | GNoElse => ([], E, Go)
                           | GElse b => in_scope (length E) (rexec_block P f E b)
                           end
        | r => ([], E, Halt (rstop_of r))
        end
    | GWhile c b =>
        match reval E c with
        | RV (VB true) =>
            let '(o, E1, g) := in_scope (length E) (rexec_block P f E b) in
            match g with
            | Go | Cont => let '(o2, E2, g2) := rexec_stmt P f E1 (GWhile c b) in (o ++ o2, E2, g2)
            | Brk => (o, E1, Go)
            | Ret v => (o, E1, Ret v)
            | Halt k => (o, E1, Halt k)
            end
        | RV (VB false) => ([], E, Go)
        | r => ([], E, Halt (rstop_of r))
        end
    | GLoop b =>
        let '(o, E1, g) := in_scope (length E) (rexec_block P f E b) in
        match g with
        | Go | Cont => let '(o2, E2, g2) := rexec_stmt P f E1 (GLoop b) in (o ++ o2, E2, g2)
        | Brk => (o, E1, Go)
        | Ret v => (o, E1, Ret v)
        | Halt k => (o, E1, Halt k)
        end
    | GFor x a z s b =>
        match reval E a with
        | RV (VI va) =>
            match reval E z with
            | RV (VI vz) =>
                match reval E s with
                | RV (VI vs) => if vs =? 0 then ([], E, Halt StepZero) else rexec_range P f E x va vz vs b
                | r => ([], E, Halt (rstop_of r))
                end
            | r => ([], E, Halt (rstop_of r))
            end
        | r => ([], E, Halt (rstop_of r))
        end
    | GPrint c =>
        match rcev_with (rcall P f E) E c with
        | (o, CV (Some v)) => (o ++ [line_of v], E, Go)
        | (o, CV None) => (o, E, Halt Stuck)
        | (o, CHalt k) => (o, E, Halt k)
        end
    | GExpr c =>
        match rcev_with (rcall P f E) E c with
        | (o, CV _) => (o, E, Go)
        | (o, CHalt k) => (o, E, Halt k)
        end
    | GReturn None => ([], E, Ret None)
    | GReturn (Some c) =>
        match rcev_with (rcall P f E) E c with
        | (o, CV (Some v)) => (o, E, Ret (Some v))
        | (o, CV None) => (o, E, Halt Stuck)
        | (o, CHalt k) => (o, E, Halt k)
        end
    | GUnit => ([], E, Go)
    | GBreak => ([], E, Brk)
    | GContinue => ([], E, Cont)
    end
  end
with rexec_block (P : rprog) (fuel : nat) (E : env) (b : rblock) {struct fuel} : xres :=
  match fuel with
  | O => ([], E, Halt OutOfFuel)
  | S f =>
    match b with
    | GNil => ([], E, Go)
    | GCons s r => xseq (rexec_stmt P f E s) (fun E1 => rexec_block P f E1 r)
    end
  end
(* incan_stdlib::iter::PyRange::next: `self.cur = self.cur.checked_add(self.step).unwrap_or(self.end)` *)
with rexec_range (P : rprog) (fuel : nat) (E : env) (x : ident) (cur stp step : Z) (b : rblock) {struct fuel} : xres :=
  match fuel with
  | O => ([], E, Halt OutOfFuel)
  | S f =>
    if range_done cur stp step then ([], E, Go) else
    let '(o, E1, g) := in_scope (length E) (rexec_block P f ((x, VI cur) :: E) b) in
    match g with
    | Go | Cont =>
        let nxt := if in_i64b (cur + step) then cur + step else stp in
        let '(o2, E2, g2) := rexec_range P f E1 x nxt stp step b in (o ++ o2, E2, g2)
    | Brk => (o, E1, Go)
    | Ret v => (o, E1, Ret v)
    | Halt k => (o, E1, Halt k)
    end
  end
(* a Rust call: arguments left to right, positional binding *)
with rcall (P : rprog) (fuel : nat) (E : env) (fn : ident) (al : list rexpr) {struct fuel} : list line * cres :=
  match fuel with
  | O => ([], CHalt OutOfFuel)
  | S f =>
    match find_rfn fn P with
    | None => ([], CHalt Stuck)
    | Some d =>
        match reval_args E al with
        | inr r => ([], CHalt (rstop_of r))
        | inl vs =>
            if negb (Nat.eqb (length (rparams d)) (length vs)) then ([], CHalt Stuck) else
            let '(o, _, g) := rexec_block P f (combine (rparams d) vs) (rbody d) in
            match g with
            | Ret (Some v) => if rret d then (o, CV (Some v)) else (o, CHalt Stuck)
            | Ret None | Go => if rret d then (o, CHalt Stuck) else (o, CV None)
            | Brk | Cont => (o, CHalt Stuck)
            | Halt k => (o, CHalt k)
            end
        end
    end
  end.

Definition rrun (fuel : nat) (p : rprog) (entry : ident) (av : list rexpr) : list line * stop :=
  match rcall p fuel [] entry av with
  | (o, CV _) => (o, Done)
  | (o, CHalt k) => (o, k)
  end.

(* ---------------------------------------------------------------- typing (i64 / bool) *)
(* Types are written with the source names: TyInt is i64, TyBool is bool (TyUnk is never produced).
   Every integer is taken to be i64 here; when rustc's integer fallback picks i32 instead is the
   subject of the class Known_C01_int_fallback (C01/Model.v). *)

Definition tframe := list (ident * (ty * bool)).      (* name -> (type, declared `mut`) *)
Definition tenv := list tframe.

Fixpoint tflookup (x : ident) (f : tframe) : option (ty * bool) :=
  match f with [] => None | (y, v) :: r => if x =? y then Some v else tflookup x r end.
Fixpoint tlookup (x : ident) (E : tenv) : option (ty * bool) :=
  match E with
  | [] => None
  | f :: r => match tflookup x f with Some v => Some v | None => tlookup x r end
  end.
Definition tbind (x : ident) (v : ty * bool) (E : tenv) : tenv :=
  match E with [] => [[(x, v)]] | f :: r => ((x, v) :: f) :: r end.

(* Rust typing uses a FLAT environment (newest binding first): `let` may shadow anything, a block's
   bindings are dropped at its end. *)
Fixpoint rtype_expr (E : tframe) (e : rexpr) : option ty :=
  match e with
  | RInt n => if in_i64b n then Some TyInt else None
  | RBool _ => Some TyBool
  | RVar x => match tflookup x E with Some (TyUnk, _) => None | Some (t, _) => Some t | None => None end
  | RNeg e1 => match rtype_expr E e1 with Some TyInt => Some TyInt | _ => None end
  | RNot e1 => rtype_expr E e1
  | RBin o l r =>
      match rtype_expr E l, rtype_expr E r with
      | Some a, Some b =>
          match o with
          | RAdd | RSub | RMul => match a, b with TyInt, TyInt => Some TyInt | _, _ => None end
          | RAnd | ROr => match a, b with TyBool, TyBool => Some TyBool | _, _ => None end
          | _ => if ty_eqb a b then Some TyBool else None
          end
      | _, _ => None
      end
  | RCall _ a b =>
      match rtype_expr E a, rtype_expr E b with Some TyInt, Some TyInt => Some TyInt | _, _ => None end
  | RCast e1 => match rtype_expr E e1 with Some TyInt => Some TyInt | _ => None end
  end.

Definition is_i64 (o : option ty) : bool := match o with Some TyInt => true | _ => false end.
Definition is_boolt (o : option ty) : bool := match o with Some TyBool => true | _ => false end.
Definition is_some {A} (o : option A) : bool := match o with Some _ => true | None => false end.

(* signatures of the program's functions: name -> (number of parameters, returns i64) *)
Definition fsigs := list (ident * (nat * bool)).
Fixpoint find_sig (f : ident) (S0 : fsigs) : option (nat * bool) :=
  match S0 with [] => None | (g, v) :: r => if f =? g then Some v else find_sig f r end.

(* type of a call-level expression: Some (Some t) a value of type t, Some None unit *)
Definition rtype_c (S0 : fsigs) (E : tframe) (c : rcexpr) : option (option ty) :=
  match c with
  | RPure e => match rtype_expr E e with Some t => Some (Some t) | None => None end
  | RUCall f al =>
      match find_sig f S0 with
      | Some (n, rt) =>
          if Nat.eqb n (length al) && forallb (fun a => is_i64 (rtype_expr E a)) al
          then Some (if rt then Some TyInt else None) else None
      | None => None
      end
  end.

(* [lp]: inside a loop body (break/continue allowed); [rt]: the enclosing function returns i64.
   Returns the environment after the statement, or None if rustc would reject. *)
Fixpoint rtype_stmt (S0 : fsigs) (rt lp : bool) (E : tframe) (s : rstmt) : option tframe :=
  match s with
  | GLet x m c => match rtype_c S0 E c with Some (Some t) => Some ((x, (t, m)) :: E) | _ => None end
  | GAssign x c =>
      match tflookup x E, rtype_c S0 E c with
      | Some (t, true), Some (Some t') => if ty_eqb t t' then Some E else None
      | _, _ => None
      end
  | GIf c th el =>
      if is_boolt (rtype_expr E c) && is_some (rtype_block S0 rt lp E th) &&
         match el with GNoElse => true | GElse b => is_some (rtype_block S0 rt lp E b) end
      then Some E else None
  | GWhile c b =>
      if is_boolt (rtype_expr E c) && is_some (rtype_block S0 rt true E b) then Some E else None
  | GLoop b => if is_some (rtype_block S0 rt true E b) then Some E else None
  | GFor x a z s b =>
      if is_i64 (rtype_expr E a) && is_i64 (rtype_expr E z) && is_i64 (rtype_expr E s) &&
         is_some (rtype_block S0 rt true ((x, (TyInt, false)) :: E) b)
      then Some E else None
  | GPrint c => match rtype_c S0 E c with Some (Some _) => Some E | _ => None end
  | GExpr c => match rtype_c S0 E c with Some _ => Some E | None => None end
  | GReturn None => if rt then None else Some E
  | GReturn (Some c) =>
      match rtype_c S0 E c with
      | Some (Some TyInt) => if rt then Some E else None
      | _ => None
      end
  | GUnit => Some E
  | GBreak | GContinue => if lp then Some E else None
  end
with rtype_block (S0 : fsigs) (rt lp : bool) (E : tframe) (b : rblock) : option tframe :=
  match b with
  | GNil => Some E
  | GCons s r => match rtype_stmt S0 rt lp E s with Some E1 => rtype_block S0 rt lp E1 r | None => None end
  end.

(* rustc accepts a body of a function returning i64 only if it cannot fall off its end: here, if
   its last statement is a `return` or an if/else whose branches all end that way *)
Fixpoint ends_in_return (b : rblock) : bool :=
  match b with
  | GNil => false
  | GCons s GNil =>
      match s with
      | GReturn _ => true
      | GIf _ th (GElse el) => ends_in_return th && ends_in_return el
      | _ => false
      end
  | GCons _ r => ends_in_return r
  end.

Definition rtype_fn (S0 : fsigs) (d : rfn) : bool :=
  is_some (rtype_block S0 (rret d) false (map (fun p => (p, (TyInt, false))) (rparams d)) (rbody d)) &&
  (negb (rret d) || ends_in_return (rbody d)).

Definition sigs_of (p : rprog) : fsigs := map (fun d => (rname d, (length (rparams d), rret d))) p.
Definition rtype_prog (p : rprog) : bool := forallb (rtype_fn (sigs_of p)) p.

(* decidable equality of terms: used to define the grouping class by the re-parse itself *)
Definition rbop_eq_dec (a b : rbop) : {a = b} + {a <> b}.
Proof. decide equality. Defined.
Definition helper_eq_dec (a b : helper) : {a = b} + {a <> b}.
Proof. decide equality. Defined.
Definition rexpr_eq_dec (a b : rexpr) : {a = b} + {a <> b}.
Proof.
  decide equality; try apply Z.eq_dec; try apply bool_dec; try apply rbop_eq_dec; try apply helper_eq_dec.
Defined.

(* boolean equality of parsed bodies (sound: see C01/ProofsStmt.v), used to define the grouping
   class of a whole function by the re-parse of its emitted body *)
Definition rexpr_eqb (a b : rexpr) : bool := if rexpr_eq_dec a b then true else false.

Fixpoint rexprs_eqb (a b : list rexpr) : bool :=
  match a, b with
  | [], [] => true
  | x :: r, y :: s => rexpr_eqb x y && rexprs_eqb r s
  | _, _ => false
  end.
Definition rcexpr_eqb (a b : rcexpr) : bool :=
  match a, b with
  | RPure x, RPure y => rexpr_eqb x y
  | RUCall f l, RUCall g m => (f =? g) && rexprs_eqb l m
  | _, _ => false
  end.
Definition orc_eqb (a b : option rcexpr) : bool :=
  match a, b with
  | None, None => true
  | Some x, Some y => rcexpr_eqb x y
  | _, _ => false
  end.

Fixpoint rstmt_eqb (a b : rstmt) {struct a} : bool :=
  match a, b with
  | GLet x m e, GLet x' m' e' => (x =? x') && Bool.eqb m m' && rcexpr_eqb e e'
  | GAssign x e, GAssign x' e' => (x =? x') && rcexpr_eqb e e'
  | GIf c t e, GIf c' t' e' => rexpr_eqb c c' && rblock_eqb t t' && rels_eqb e e'
  | GWhile c b1, GWhile c' b2 => rexpr_eqb c c' && rblock_eqb b1 b2
  | GLoop b1, GLoop b2 => rblock_eqb b1 b2
  | GFor x a z s b1, GFor x' a' z' s' b2 =>
      (x =? x') && rexpr_eqb a a' && rexpr_eqb z z' && rexpr_eqb s s' && rblock_eqb b1 b2
  | GPrint e, GPrint e' => rcexpr_eqb e e'
  | GExpr e, GExpr e' => rcexpr_eqb e e'
  | GReturn e, GReturn e' => orc_eqb e e'
  | GUnit, GUnit | GBreak, GBreak | GContinue, GContinue => true
  | _, _ => false
  end
with rblock_eqb (a b : rblock) {struct a} : bool :=
  match a, b with
  | GNil, GNil => true
  | GCons s r, GCons s' r' => rstmt_eqb s s' && rblock_eqb r r'
  | _, _ => false
  end
with rels_eqb (a b : rels) {struct a} : bool :=
  match a, b with
  | GNoElse, GNoElse => true
  | GElse x, GElse y => rblock_eqb x y
  | _, _ => false
  end.

Fixpoint idents_eqb (a b : list ident) : bool :=
  match a, b with
  | [], [] => true
  | x :: r, y :: s => (x =? y) && idents_eqb r s
  | _, _ => false
  end.
Definition rfn_eqb (a b : rfn) : bool :=
  (rname a =? rname b) && idents_eqb (rparams a) (rparams b) && Bool.eqb (rret a) (rret b) && rblock_eqb (rbody a) (rbody b).
Fixpoint rprog_eqb (a b : rprog) : bool :=
  match a, b with
  | [], [] => true
  | x :: r, y :: s => rfn_eqb x y && rprog_eqb r s
  | _, _ => false
  end.
