(* C08/Props.v — the property theorems for C08 (formatting never changes meaning), core fragment.
   Scope: expressions of Fmt/Ast.v except dict/set literals and closures (those are modelled and tied,
   not proved); statements and declarations are covered by correspondence and the oracle only. *)
From Coq Require Import ZArith NArith List Bool.
From Verif Require Import Fmt.Ast Fmt.Print Fmt.Parse Fmt.Wf Fmt.Roundtrip C08.Model C08.Proofs.
Import ListNotations.
Local Open Scope nat_scope.

(* hypotheses are satisfiable by a non-trivial value (every proved constructor, depth 8, a `::` slice) *)
Example C08_nonvacuous :
  ladder_wf w_big /\ ~ Known_C08 w_big /\
  parse_expr (need w_big) (print_expr w_big ++ [TNewline]) = POk (w_big, [TNewline]).
Proof.
  destruct big_ok as (W & K2 & P). split; [exact W|]. split; [|exact P].
  unfold Known_C08, Known_C08_float_integral. congruence.
Qed.

(* T1  parse (print e ++ rest) = (e, rest): the printer inserts no parentheses, so this is exactly the
       statement that Paren nodes (ladder_wf) suffice; explicit fuel bound 20 * size e.
       _partial: ladder_wf excludes dict/set literals and closures (modelled and tied, not proved); match, if,
       comprehensions, f-strings, yield, statements and declarations are not in the Coq fragment at all. *)
Theorem C08_expr_roundtrip_partial : forall e rest fuel,
  ladder_wf e -> ~ Known_C08 e -> stop 0 rest -> need e <= fuel ->
  parse_expr fuel (print_expr e ++ rest) = POk (e, rest).
Proof.
  intros e rest fuel W K Hs Hf.
  apply expr_roundtrip; try assumption.
  destruct (has_intfloat e) eqn:E; [exfalso; apply K; exact E | reflexivity].
Qed.
Print Assumptions C08_expr_roundtrip_partial.

(* T2  for EVERY ladder_wf expression: the result is e with each integral float replaced by the int (exactly the
       meaning change of finding fmt-float, nothing else) *)
Theorem C08_expr_roundtrip_modulo_float : forall e rest fuel,
  ladder_wf e -> stop 0 rest -> need e <= fuel ->
  parse_expr fuel (print_expr e ++ rest) = POk (defloat e, rest).
Proof. intros e rest fuel W Hs Hf. apply expr_roundtrip_norm; assumption. Qed.
Print Assumptions C08_expr_roundtrip_modulo_float.

(* T3  the float class really changes meaning *)
Theorem C08_float_refuted : exists e e', ladder_wf e /\ Known_C08_float_integral e /\
  parse_expr 100 (print_expr e) = POk (e', []) /\ e' <> e.
Proof. destruct float_refuted as (W & K & P & N). eexists _, _. repeat split; eassumption. Qed.
Print Assumptions C08_float_refuted.

(* T4  a slice printed with the `::` token round-trips (it did not before /repo 974c053; the class is gone) *)
Theorem C08_slice_colon_colon_roundtrips : exists e, ladder_wf e /\ slice_colon_colon e /\
  parse_expr 100 (print_expr e ++ [TNewline]) = POk (e, [TNewline]).
Proof. destruct colon_colon_roundtrips as (W & K & _ & P). eexists. repeat split; eassumption. Qed.
Print Assumptions C08_slice_colon_colon_roundtrips.

(* T5  closures with parameters: the source spelling parses, the printed spelling does not *)
Theorem C08_closure_refuted : exists ts e, parse_expr 100 ts = POk (e, []) /\ parse_expr 100 (print_expr e) = PErr.
Proof. destruct closure_refuted as [A B]. eexists _, _. split; eassumption. Qed.
Print Assumptions C08_closure_refuted.

(* T6  printer arms that drop information (no parser can invert them) *)
Theorem C08_lossy_arms_refuted :
  (forall c t1 e1 t2 e2, print_if_expr c t1 e1 = print_if_expr c t2 e2) /\
  (forall n t d, print_param {| p_mut := true; p_name := n; p_ty := t; p_default := d |}
               = print_param {| p_mut := false; p_name := n; p_ty := t; p_default := d |}) /\
  (forall n tps ps r, print_fn_header n tps ps r = print_fn_header n [] ps r) /\
  (forall ts, print_ty (TyTuple ts) = print_ty (TyGeneric id_Tuple ts) /\ TyTuple ts <> TyGeneric id_Tuple ts) /\
  print_ty TyUnit = [TKw KNone].
Proof.
  split; [exact if_expr_refuted|]. split; [exact mut_param_refuted|]. split; [exact type_params_refuted|].
  split; [exact tuple_type_refuted|exact unit_type_refuted].
Qed.
Print Assumptions C08_lossy_arms_refuted.

(* T7  parser_output_wf is FALSE for statements: the parser's desugaring of `t op= rhs` produces an AST
       outside ladder_wf, and formatting it changes the meaning *)
Theorem C08_parser_output_wf_refuted : exists ts s,
  parse_stmt 100 ts = POk (s, []) /\ forallb wfb (stmt_exprs s) = false /\
  exists s', parse_stmt 100 (print_stmt s) = POk (s', []) /\ s' <> s.
Proof. destruct compound_desugar_refuted as (A & B & C). eexists _, _. repeat split; eassumption. Qed.
Print Assumptions C08_parser_output_wf_refuted.
