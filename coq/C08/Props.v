(* C08/Props.v — the property theorems for C08 (formatting never changes meaning), core fragment.
   Scope: expressions of Fmt/Ast.v except dict/set literals and closures (those are modelled and tied,
   not proved); statements and declarations are covered by correspondence and the oracle only. *)
From Coq Require Import ZArith NArith List Bool.
From Verif Require Import Fmt.Ast Fmt.Print Fmt.Parse Fmt.Wf Fmt.Roundtrip Fmt.Bytes Fmt.Text C08.Model C08.Proofs.
Import ListNotations.
Local Open Scope nat_scope.

(* hypotheses are satisfiable by a non-trivial value (every proved constructor, depth 8, `::` slice, 2.0) *)
Example C08_nonvacuous :
  ladder_wf w_big /\ parse_expr (need w_big) (print_expr w_big ++ [TNewline]) = POk (w_big, [TNewline]).
Proof. exact big_ok. Qed.

(* T1  parse (print e ++ rest) = (e, rest) for EVERY ladder_wf expression — no finding class is left in the core:
       the printer inserts no parentheses, so this is exactly the statement that Paren nodes (ladder_wf) suffice;
       explicit fuel bound 20 * size e.
       _partial: ladder_wf excludes dict/set literals and closures (modelled and tied, not proved); match, if,
       comprehensions, f-strings, yield, statements and declarations are not in the Coq fragment at all. *)
Theorem C08_expr_roundtrip_partial : forall e rest fuel,
  ladder_wf e -> stop 0 rest -> need e <= fuel ->
  parse_expr fuel (print_expr e ++ rest) = POk (e, rest).
Proof. intros e rest fuel W Hs Hf. apply expr_roundtrip_full; assumption. Qed.
Print Assumptions C08_expr_roundtrip_partial.

(* T2  regression witness for the repaired float arm (fix: Debug form): 1.0 stays a float *)
Theorem C08_float_fixed : exists e, ladder_wf e /\ float_integral e /\ parse_expr 100 (print_expr e) = POk (e, []).
Proof. destruct float_fixed as (W & K & _ & P). eexists. repeat split; eassumption. Qed.
Print Assumptions C08_float_fixed.

(* T3  regression witness for the `::` slice (parser fix 974c053) *)
Theorem C08_slice_colon_colon_roundtrips : exists e, ladder_wf e /\ slice_colon_colon e /\
  parse_expr 100 (print_expr e ++ [TNewline]) = POk (e, [TNewline]).
Proof. destruct colon_colon_roundtrips as (W & K & _ & P). eexists. repeat split; eassumption. Qed.
Print Assumptions C08_slice_colon_colon_roundtrips.

(* T4  regression witnesses for the repaired declaration-level arms: `mut`, type parameters, tuple and unit types
       are printed again (the arms are injective on what they used to drop) *)
Theorem C08_repaired_arms :
  (forall n t d, print_param {| p_mut := true; p_name := n; p_ty := t; p_default := d |}
              <> print_param {| p_mut := false; p_name := n; p_ty := t; p_default := d |}) /\
  (forall n tp tps ps r, print_fn_header n (tp :: tps) ps r <> print_fn_header n [] ps r) /\
  (forall ts, print_ty (TyTuple ts) <> print_ty (TyGeneric id_Tuple ts)) /\
  print_ty TyUnit = [TPu PLParen; TPu PRParen].
Proof.
  split; [exact mut_param_fixed|]. split; [exact type_params_fixed|].
  split; [intros ts; exact (proj1 (tuple_type_fixed ts)) | exact unit_type_fixed].
Qed.
Print Assumptions C08_repaired_arms.

(* T5  regression witness for the repaired closure arm: bare parameter names, the printed form parses back *)
Theorem C08_closure_fixed : exists e, parse_expr 100 (print_expr e) = POk (e, []) /\ (exists p ps b, e = EClosure (p :: ps) b).
Proof. destruct closure_fixed as (_ & P & _). exists w_closure. split; [exact P | eexists _, _, _; reflexivity]. Qed.
Print Assumptions C08_closure_fixed.

(* T6  regression witness for the repaired Expr::If arm: the bodies are printed (different bodies, different output) *)
Theorem C08_if_expr_fixed : exists c t e1 e2, print_if_expr c t (Some e1) <> print_if_expr c t (Some e2).
Proof. destruct if_expr_fixed as (A & _). eexists _, _, _, _. exact A. Qed.
Print Assumptions C08_if_expr_fixed.

(* T7  still open: parser_output_wf is FALSE for statements: the parser's desugaring of `t op= rhs` produces an
       AST outside ladder_wf, and formatting it changes the meaning *)
Theorem C08_parser_output_wf_refuted : exists ts s,
  parse_stmt 100 ts = POk (s, []) /\ forallb wfb (stmt_exprs s) = false /\
  exists s', parse_stmt 100 (print_stmt s) = POk (s', []) /\ s' <> s.
Proof. destruct compound_desugar_refuted as (A & B & C). eexists _, _. repeat split; eassumption. Qed.
Print Assumptions C08_parser_output_wf_refuted.

(* T8  byte-string literals at character level: scanning what the printer writes between the double quotes gives back
       exactly the bytes, for EVERY list of bytes (0..255), with explicit fuel; and the reason an escape table that
       also escapes the apostrophe is wrong: in a double-quoted literal a backslash-apostrophe is kept as two bytes *)
Theorem C08_bytes_escape_roundtrip : forall bs rest fuel, Forall is_byte bs -> length bs < fuel ->
  scan fuel 34%Z (escape bs ++ 34%Z :: rest) = Some (bs, rest).
Proof. exact scan_escape. Qed.
Print Assumptions C08_bytes_escape_roundtrip.

Theorem C08_apostrophe_not_unescaped : forall rest, scan_step 34%Z (92 :: 39 :: rest)%Z = Some (inr ([92; 39]%Z, rest)).
Proof. exact apostrophe_kept. Qed.
Print Assumptions C08_apostrophe_not_unescaped.

(* T10  f-string literal parts at character level (repair: escape_string + brace doubling): scanning what the printer
        writes gives back exactly the characters, for EVERY list of characters; and the verbatim printing it replaces is
        refuted (a brace starts an expression part, a quote ends the literal) *)
Theorem C08_fstring_literal_roundtrip : forall s rest fuel, length s < fuel ->
  fscan fuel 34%Z (escape_text s ++ 34%Z :: rest) = Some (s, rest).
Proof. exact fscan_escape. Qed.
Print Assumptions C08_fstring_literal_roundtrip.

Theorem C08_fstring_verbatim_refuted :
  fscan_step 34%Z [123; 120; 125; 34]%Z = FExpr [120; 125; 34]%Z /\ fscan 10 34%Z [97; 34; 98; 34]%Z = Some ([97]%Z, [98; 34]%Z).
Proof. exact verbatim_refuted. Qed.
Print Assumptions C08_fstring_verbatim_refuted.
