(* C08/Proofs.v — witnesses (by computation): regression witnesses for the repaired printer arms, refutations
   for the arms that still lose or change meaning. *)
From Coq Require Import ZArith NArith List Bool Lia.
From Verif Require Import Fmt.Ast Fmt.Print Fmt.Parse Fmt.Wf Fmt.Roundtrip C08.Model.
Import ListNotations.
Open Scope Z_scope.

(* repaired (fmt-float): 1.0 is printed as a float token again and round-trips *)
Definition w_float : expr := EBinary (EIdent 5%N) Add (ELit (LFloat 7%N (Some 1))).
Lemma float_fixed :
  wfb w_float = true /\ float_integral w_float /\
  print_expr w_float = [TId 5%N; TOp OPlus; TFloat 7%N (Some 1)] /\
  parse_expr 100 (print_expr w_float) = POk (w_float, []).
Proof. repeat split; reflexivity. Qed.

(* repaired in the parser (974c053): x[1: :2] is printed with the single token `::` and parses *)
Definition w_cc : expr := ESlice (EIdent 5%N) (Some (ELit (LInt 1))) None (Some (ELit (LInt 2))).
Lemma colon_colon_roundtrips :
  wfb w_cc = true /\ slice_colon_colon w_cc /\
  print_expr w_cc = [TId 5%N; TPu PLBracket; TInt 1; TPu PColonColon; TInt 2; TPu PRBracket] /\
  parse_expr 100 (print_expr w_cc ++ [TNewline]) = POk (w_cc, [TNewline]).
Proof. repeat split; reflexivity. Qed.

(* repaired (fmt-closure): (x, y) => x is printed with bare parameter names and parses back *)
Definition w_closure : expr := EClosure [5%N; 6%N] (EBinary (EIdent 5%N) Add (EIdent 6%N)).
Lemma closure_fixed :
  print_expr w_closure = [TPu PLParen; TId 5%N; TPu PComma; TId 6%N; TPu PRParen; TPu PFatArrow; TId 5%N; TOp OPlus; TId 6%N] /\
  parse_expr 100 (print_expr w_closure) = POk (w_closure, []) /\
  parse_expr 100 (print_expr (EClosure [] (EIdent 5%N))) = POk (EClosure [] (EIdent 5%N), []).
Proof. repeat split; reflexivity. Qed.

(* repaired (fmt-if-expr): both bodies reach the output *)
Lemma if_expr_fixed :
  print_if_expr (EIdent 1%N) [SExpr (ELit (LInt 1))] (Some [SExpr (ELit (LInt 2))]) <>
  print_if_expr (EIdent 1%N) [SExpr (ELit (LInt 1))] (Some [SExpr (ELit (LInt 3))]) /\
  print_if_expr (EIdent 1%N) [SExpr (ELit (LInt 1))] None <> print_if_expr (EIdent 1%N) [SExpr (ELit (LInt 2))] None /\
  print_if_expr (EIdent 1%N) [SPass] None =
    [TKw KIf; TId 1%N; TPu PColon; TNewline; TOther 5; TKw KPass; TNewline; TOther 6].
Proof. repeat split; try reflexivity; intros H; discriminate H. Qed.

(* repaired (fmt-mut-param, fmt-type-params, fmt-tuple-type, fmt-unit-type): the arms are injective again on
   the information they used to drop *)
Lemma mut_param_fixed : forall n t d, print_param {| p_mut := true; p_name := n; p_ty := t; p_default := d |}
                                   <> print_param {| p_mut := false; p_name := n; p_ty := t; p_default := d |}.
Proof. intros n t d H. discriminate H. Qed.

Lemma type_params_fixed : forall n tp tps ps r, print_fn_header n (tp :: tps) ps r <> print_fn_header n [] ps r.
Proof. intros n tp tps ps r H. cbn in H. inversion H. Qed.

Lemma tuple_type_fixed : forall ts, print_ty (TyTuple ts) <> print_ty (TyGeneric id_Tuple ts) /\
  print_ty (TyTuple [TySimple 9%N]) = [TPu PLParen; TId 9%N; TPu PComma; TPu PRParen].
Proof. intros ts; split; [intros H; discriminate H | reflexivity]. Qed.

Lemma unit_type_fixed : print_ty TyUnit = [TPu PLParen; TPu PRParen].
Proof. reflexivity. Qed.

(* still open (fmt-compound-desugar): `a.b *= 1 + 2`: the parser's desugaring yields an AST that is NOT
   ladder-well-formed and whose printed form re-parses differently *)
Definition toks_compound : list tok := [TId 1%N; TPu PDot; TId 2%N; TOp OStarEq; TInt 1; TOp OPlus; TInt 2].
Definition s_compound : stmt :=
  SFieldAssign (EIdent 1%N) (FName 2%N)
    (EBinary (EField (EIdent 1%N) (FName 2%N)) Mul (EBinary (ELit (LInt 1)) Add (ELit (LInt 2)))).
Lemma compound_desugar_refuted :
  parse_stmt 100 toks_compound = POk (s_compound, []) /\
  forallb wfb (stmt_exprs s_compound) = false /\
  exists s', parse_stmt 100 (print_stmt s_compound) = POk (s', []) /\ s' <> s_compound.
Proof.
  split; [reflexivity|]. split; [reflexivity|].
  eexists. split; [vm_compute; reflexivity|]. discriminate.
Qed.

(* non-vacuity: a deep well-formed expression using every proved constructor, a `::` slice, an integral float *)
Definition w_big : expr :=
  EBinary (EUnary Not (EBinary (EIdent 1%N) NotIn (EList [ELit (LInt 1); ELit (LStr 3%N); ELit (LFloat 8%N (Some 2))])))
    Or (EBinary (ECall (EIdent 2%N) [(None, EParen (EBinary (EIdent 1%N) Add (EIdent 2%N))); (Some 4%N, ETuple [ESelf])])
          Lt (EBinary (EUnary Neg (EMethod (EField (EIdent 1%N) (FIdx 0)) 5%N []))
                Mul (EBinary (ETry (EIndex (EIdent 1%N) (ERange (ELit (LInt 0)) (EIdent 2%N) true)))
                       Pow (EAwait (ESlice (ESlice (EIdent 3%N) None None (Some (EIdent 2%N))) None (Some (EIdent 1%N)) (Some (ELit (LFloat 9%N None)))))))).
Lemma big_ok : wfb w_big = true /\
  parse_expr (need w_big) (print_expr w_big ++ [TNewline]) = POk (w_big, [TNewline]).
Proof. vm_compute. split; reflexivity. Qed.
