(* C08/Model.v — definitions only: the Known_C08 classes for the core of Fmt/, and the renderers used by
   the correspondence run (model parser / printer evaluated by vm_compute on the real lexer's tokens). *)
From Coq Require Import ZArith NArith List Bool.
From Verif Require Import Fmt.Ast Fmt.Print Fmt.Parse Fmt.Wf.
Import ListNotations.
Open Scope Z_scope.

(* ---- classes ----
   No finding class is left inside the proved expression core: the float class (Display dropped ".0") and the
   `::` slice class are both repaired in /repo; the two predicates remain as shapes for regression witnesses. *)
Definition float_integral (e : expr) : Prop := has_intfloat e = true.
Definition slice_colon_colon (e : expr) : Prop := has_cc e = true.

(* ---- rendering to integers ---- *)
Definition kw_code (k : kw) : Z :=
  match k with KTrue => 1 | KFalse => 2 | KNone => 3 | KSelf => 4 | KAnd => 5 | KOr => 6 | KNot => 7 | KIn => 8 | KIs => 9
  | KAwait => 10 | KIf => 11 | KReturn => 12 | KPass => 13 | KBreak => 14 | KContinue => 15 | KLet => 16 | KMut => 17
  | KMatch => 18 | KYield => 19 | KFor => 20 end.
Definition op_code (o : op) : Z :=
  match o with OPlus => 1 | OMinus => 2 | OStar => 3 | OSlash => 4 | OSlashSlash => 5 | OPercent => 6 | OStarStar => 7
  | OEqEq => 8 | ONotEq => 9 | OLt => 10 | OGt => 11 | OLtEq => 12 | OGtEq => 13 | ODotDot => 14 | ODotDotEq => 15 | OEq => 16
  | OPlusEq => 17 | OMinusEq => 18 | OStarEq => 19 | OSlashEq => 20 | OSlashSlashEq => 21 | OPercentEq => 22 end.
Definition pu_code (p : pu) : Z :=
  match p with PDot => 1 | PComma => 2 | PColon => 3 | PColonColon => 4 | PLParen => 5 | PRParen => 6 | PLBracket => 7
  | PRBracket => 8 | PLBrace => 9 | PRBrace => 10 | PQuestion => 11 | PFatArrow => 12 | PArrow => 13 end.

Definition render_tok (t : tok) : list Z :=
  match t with
  | TId n => [1; Z.of_N n] | TInt z => [2; z]
  | TFloat id (Some k) => [3; Z.of_N id; 1; k] | TFloat id None => [3; Z.of_N id; 0; 0]
  | TStr id => [4; Z.of_N id] | TBytes id => [5; Z.of_N id]
  | TKw k => [6; kw_code k] | TOp o => [7; op_code o] | TPu p => [8; pu_code p]
  | TNewline => [9; 0] | TOther z => [10; z]
  end.
Definition render_toks (ts : list tok) : list Z := flat_map render_tok ts.

Definition binop_code (o : binop) : Z :=
  match o with Add => 1 | Sub => 2 | Mul => 3 | Div => 4 | FloorDiv => 5 | Mod => 6 | Pow => 7 | Eq => 8 | NotEq => 9 | Lt => 10
  | Gt => 11 | LtEq => 12 | GtEq => 13 | And => 14 | Or => 15 | In => 16 | NotIn => 17 | Is => 18 end.

Definition render_lit (l : lit) : list Z :=
  match l with
  | LInt z => [1; z] | LFloat id (Some k) => [2; Z.of_N id; 1; k] | LFloat id None => [2; Z.of_N id; 0; 0]
  | LStr id => [3; Z.of_N id] | LBytes id => [4; Z.of_N id] | LBool b => [5; if b then 1 else 0] | LNone => [6]
  end.

Definition len {X} (l : list X) : Z := Z.of_nat (length l).

Fixpoint render_expr (e : expr) : list Z :=
  let opt := fun (o : option expr) => match o with Some x => 1 :: render_expr x | None => [0] end in
  let args := fun (a : list (option N * expr)) =>
     len a :: flat_map (fun p => match fst p with Some n => 1 :: Z.of_N n :: render_expr (snd p) | None => 0 :: render_expr (snd p) end) a in
  match e with
  | EIdent n => [1; Z.of_N n]
  | ELit l => 2 :: render_lit l
  | ESelf => [3]
  | EBinary l o r => 4 :: binop_code o :: render_expr l ++ render_expr r
  | EUnary o x => 5 :: (match o with Neg => 1 | Not => 2 end) :: render_expr x
  | ECall f a => 6 :: render_expr f ++ args a
  | EIndex b i => 7 :: render_expr b ++ render_expr i
  | ESlice b s x st => 8 :: render_expr b ++ opt s ++ opt x ++ opt st
  | EField b (FName n) => 9 :: render_expr b ++ [0; Z.of_N n]
  | EField b (FIdx z) => 9 :: render_expr b ++ [1; z]
  | EMethod b m a => 10 :: render_expr b ++ Z.of_N m :: args a
  | EAwait x => 11 :: render_expr x
  | ETry x => 12 :: render_expr x
  | ETuple es => 13 :: len es :: flat_map render_expr es
  | EList es => 14 :: len es :: flat_map render_expr es
  | EDict kvs => 15 :: len kvs :: flat_map (fun kv => render_expr (fst kv) ++ render_expr (snd kv)) kvs
  | ESet es => 16 :: len es :: flat_map render_expr es
  | EParen x => 17 :: render_expr x
  | ERange s x i => 18 :: render_expr s ++ render_expr x ++ [if i then 1 else 0]
  | EClosure ps b => 19 :: len ps :: map Z.of_N ps ++ render_expr b
  end.

Definition render_stmt (s : stmt) : list Z :=
  match s with
  | SExpr e => 1 :: render_expr e
  | SAssign b n v => 2 :: (match b with BInferred => 0 | BLet => 1 | BMutable => 2 | BReassign => 3 end) :: Z.of_N n :: render_expr v
  | SFieldAssign o (FName n) v => 3 :: render_expr o ++ 0 :: Z.of_N n :: render_expr v
  | SFieldAssign o (FIdx z) v => 3 :: render_expr o ++ 1 :: z :: render_expr v
  | SIndexAssign o i v => 4 :: render_expr o ++ render_expr i ++ render_expr v
  | SCompound n c v => 5 :: Z.of_N n :: (match c with CAdd => 1 | CSub => 2 | CMul => 3 | CDiv => 4 | CFloorDiv => 5 | CMod => 6 end) :: render_expr v
  | SReturn None => [6; 0]
  | SReturn (Some e) => 6 :: 1 :: render_expr e
  | SPass => [7] | SBreak => [8] | SContinue => [9]
  end.

Definition stmt_exprs (s : stmt) : list expr :=
  match s with
  | SExpr e | SAssign _ _ e | SCompound _ _ e | SReturn (Some e) => [e]
  | SFieldAssign o _ v => [o; v] | SIndexAssign o i v => [o; i; v]
  | _ => []
  end.

(* one correspondence case: the model parser on the real lexer's tokens of one statement line
   (terminated by TNewline), then the model printer on the AST it produced.
   result: [1; #rest] ++ ast ++ [-1] ++ printed tokens ++ [-2; all sub-expressions ladder_wf?] | [0] error | [2] fuel *)
Definition tie_stmt (fuel : nat) (ts : list tok) : list Z :=
  match parse_stmt fuel ts with
  | POk (s, rest) =>
      1 :: len rest :: render_stmt s ++ (-1) :: render_toks (print_stmt s) ++
        [-2; if forallb wfb (stmt_exprs s) then 1 else 0]
  | PErr => [0]
  | PFuel => [2]
  end.
