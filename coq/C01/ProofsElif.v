(* C01/ProofsElif.v — the ORDER in which the conditions of an if/elif ladder are evaluated:
   (a) documented semantics: conditions are evaluated top to bottom; the first that holds selects its branch, the first that
       stops (ZeroDivisionError, ...) stops the statement, later conditions are never evaluated;
   (b) lowering: the nested `else { if .. }` chain tests the lowered conditions in the same (source) order.
   Together with the simulation theorem (compile_correct) the generated Rust selects the same branch. *)
From Verif Require Import Base.I64 C04.Model Core.Syntax Core.Dynamic Core.Rust Core.Lower C01.Model.
From Coq Require Import ZArith List Bool Lia.
Import ListNotations.
Open Scope Z_scope.

Definition cond_false (E : env) (cb : expr * block) : Prop := eval E (fst cb) = EV (VB false).

Lemma exec_els_elif P f E c b rest :
  exec_els P (S f) E (EElif c b rest) =
  match eval E c with
  | EV (VB true) => in_scope (length E) (exec_block P f E b)
  | EV (VB false) => exec_els P f E rest
  | r => ([], E, Halt (stop_of r))
  end.
Proof. reflexivity. Qed.

(* all conditions false: the ladder falls through to its tail, one unit of fuel per condition *)
Lemma ladder_all_false P E tail : forall br f,
  Forall (cond_false E) br ->
  exec_els P (length br + f) E (ladder br tail) = exec_els P f E tail.
Proof.
  induction br as [|[c b] r IH]; intros f H; [reflexivity|].
  pose proof (Forall_inv H) as Hc; pose proof (Forall_inv_tail H) as Hr. unfold cond_false in Hc. cbn [fst] in Hc.
  cbn [ladder length Nat.add]. rewrite exec_els_elif, Hc. apply IH, Hr.
Qed.

(* the first condition that holds selects its branch; what comes after it is irrelevant (never evaluated) *)
Lemma ladder_first_true P E c b post tail : forall pre f,
  Forall (cond_false E) pre ->
  eval E c = EV (VB true) ->
  exec_els P (length pre + S f) E (ladder (pre ++ (c, b) :: post) tail) = in_scope (length E) (exec_block P f E b).
Proof.
  induction pre as [|[c1 b1] r IH]; intros f H Hc.
  - cbn [app ladder length Nat.add]. now rewrite exec_els_elif, Hc.
  - pose proof (Forall_inv H) as Hc1; pose proof (Forall_inv_tail H) as Hr. unfold cond_false in Hc1. cbn [fst] in Hc1.
    cbn [app ladder length Nat.add]. rewrite exec_els_elif, Hc1. apply IH; assumption.
Qed.

(* the first condition that does not produce a boolean stops the statement with that stop *)
Lemma ladder_first_stop P E c b post tail r : forall pre f,
  Forall (cond_false E) pre ->
  eval E c = r -> (forall v, r <> EV (VB v)) ->
  exec_els P (length pre + S f) E (ladder (pre ++ (c, b) :: post) tail) = ([], E, Halt (stop_of r)).
Proof.
  induction pre as [|[c1 b1] r1 IH]; intros f H Hc Hn.
  - cbn [app ladder length Nat.add]. rewrite exec_els_elif, Hc.
    destruct r as [[z|[|]]| | |]; try reflexivity; exfalso; [apply (Hn true)|apply (Hn false)]; reflexivity.
  - pose proof (Forall_inv H) as Hc1; pose proof (Forall_inv_tail H) as Hr. unfold cond_false in Hc1. cbn [fst] in Hc1.
    cbn [app ladder length Nat.add]. rewrite exec_els_elif, Hc1. apply IH; assumption.
Qed.

Lemma exec_if P f E c th el :
  exec_stmt P (S f) E (SIf c th el) =
  match eval E c with
  | EV (VB true) => in_scope (length E) (exec_block P f E th)
  | EV (VB false) => exec_els P f E el
  | r => ([], E, Halt (stop_of r))
  end.
Proof. reflexivity. Qed.

Lemma if_ladder_first_true P E c0 th c b post tail pre f :
  eval E c0 = EV (VB false) ->
  Forall (cond_false E) pre ->
  eval E c = EV (VB true) ->
  exec_stmt P (S (length pre + S f)) E (SIf c0 th (ladder (pre ++ (c, b) :: post) tail))
  = in_scope (length E) (exec_block P f E b).
Proof. intros H0 H Hc. rewrite exec_if, H0. now apply ladder_first_true. Qed.

Lemma if_ladder_first_stop P E c0 th c b post tail pre f :
  eval E c0 = EV (VB false) ->
  Forall (cond_false E) pre ->
  eval E c = EZeroDiv ->
  exec_stmt P (S (length pre + S f)) E (SIf c0 th (ladder (pre ++ (c, b) :: post) tail)) = ([], E, Halt ZeroDiv).
Proof.
  intros H0 H Hc. rewrite exec_if, H0.
  rewrite (ladder_first_stop P E c b post tail EZeroDiv pre f H Hc); [reflexivity|discriminate].
Qed.

(* every `els` is a ladder over its own conditions *)
Lemma els_conds_ladder br : forall tail,
  (match tail with EElif _ _ _ => False | _ => True end) -> els_conds (ladder br tail) = map fst br.
Proof.
  induction br as [|[c b] r IH]; intros tail Ht; cbn [ladder els_conds map fst].
  - destruct tail; [reflexivity|reflexivity|contradiction].
  - f_equal. now apply IH.
Qed.

(* lowering keeps the order: walking the lowered chain from the outside in meets the lowered elif conditions in source order *)
Lemma lower_els_order P sc : forall el mv el' mv',
  lower_els P sc mv el = LOk (el', mv') ->
  firstn (length (els_conds el)) (chain_conds el') = map (lower_expr sc) (els_conds el).
Proof.
  induction el as [|b|c b rest IH]; intros mv el' mv' H; cbn [els_conds length firstn map]; try reflexivity.
  cbn [lower_els] in H.
  destruct (lower_els P sc mv rest) as [[rest' mv1]|] eqn:Hr; [|discriminate].
  destruct (lower_block P ([] :: sc) mv1 b) as [[[b' sc2] mv2]|] eqn:Hb; [|discriminate].
  injection H as <- <-. cbn [chain_conds firstn]. f_equal. eapply IH. exact Hr.
Qed.
