(* C01/ProofsStmt.v — statement / function level simulation.
   The lowering's scope bookkeeping (scopes, mutable_vars) decides `let` / `let mut` / assignment;
   the invariant [dom_ok] says the names the lowering believes are in scope are exactly the names
   bound at run time, so plain `x = e` is emitted as an assignment exactly when the documented
   semantics reassign.  The Rust side is reached with SOME fuel and every larger fuel ([reach_*]). *)
From Verif Require Import Base.I64 C04.Model Core.Syntax Core.Dynamic Core.Rust Core.Lower C01.Model C01.Proofs.
From Coq Require Import ZArith List Bool Lia.
Import ListNotations.
Open Scope Z_scope.

(* ---------------------------------------------------------------- equality of parsed bodies *)

Lemma rexpr_eqb_eq a b : rexpr_eqb a b = true -> a = b.
Proof. unfold rexpr_eqb. destruct (rexpr_eq_dec a b); [auto|discriminate]. Qed.

Lemma rstmt_eqb_sound :
  (forall a b : rstmt, rstmt_eqb a b = true -> a = b) /\
  (forall a b : rblock, rblock_eqb a b = true -> a = b) /\
  (forall a b : rels, rels_eqb a b = true -> a = b).
Proof.
  apply (gstmt_gblock_gels_ind rexpr
    (fun a => forall b, rstmt_eqb a b = true -> a = b)
    (fun a => forall b, rblock_eqb a b = true -> a = b)
    (fun a => forall b, rels_eqb a b = true -> a = b));
  intros; match goal with |- _ = ?bb => destruct bb end; cbn [rstmt_eqb rblock_eqb rels_eqb] in *; try discriminate; try reflexivity;
  repeat match goal with
  | H : _ && _ = true |- _ => apply andb_prop in H; destruct H
  | H : (_ =? _) = true |- _ => apply Z.eqb_eq in H; subst
  | H : Bool.eqb _ _ = true |- _ => apply Bool.eqb_prop in H; subst
  | H : rexpr_eqb _ _ = true |- _ => apply rexpr_eqb_eq in H; subst
  | IH : forall b, rblock_eqb ?a b = true -> _, H : rblock_eqb ?a _ = true |- _ => apply IH in H; subst
  | IH : forall b, rstmt_eqb ?a b = true -> _, H : rstmt_eqb ?a _ = true |- _ => apply IH in H; subst
  | IH : forall b, rels_eqb ?a b = true -> _, H : rels_eqb ?a _ = true |- _ => apply IH in H; subst
  end; reflexivity.
Qed.

Lemma reparses_true ib : reparses ib = true -> parse_block (emit_block ib) = Some (tree_of_block ib).
Proof.
  unfold reparses. destruct (parse_block (emit_block ib)) as [b|]; [|discriminate].
  intros H. apply (proj1 (proj2 rstmt_eqb_sound)) in H. now subst.
Qed.

(* ---------------------------------------------------------------- environments *)

Definition names (sc : scopes) : list ident := map fst (concat sc).
Definition dom_ok (sc : scopes) (E : env) : Prop := names sc = map fst E.
(* E' was obtained from E by binding new names in front and updating existing ones *)
Definition ext (E E' : env) : Prop := exists pre, map fst E' = pre ++ map fst E.

Fixpoint inb (x : ident) (l : list ident) : bool :=
  match l with [] => false | y :: r => (x =? y) || inb x r end.

Lemma sclookup_inb x s : (match sclookup x s with Some _ => true | None => false end) = inb x (map fst s).
Proof. induction s as [|[y t] r IH]; cbn; [reflexivity|]. destruct (x =? y); [reflexivity|exact IH]. Qed.

Lemma inb_app x a b : inb x (a ++ b) = inb x a || inb x b.
Proof. induction a as [|y r IH]; cbn; [reflexivity|]. rewrite IH. now rewrite orb_assoc. Qed.

Lemma sexists_inb x sc : sexists x sc = inb x (names sc).
Proof.
  unfold sexists, names. induction sc as [|s r IH]; cbn; [reflexivity|].
  rewrite map_app, inb_app. rewrite <- sclookup_inb.
  destruct (sclookup x s); [reflexivity|]. cbn. exact IH.
Qed.

Lemma bound_inb x E : bound x E = inb x (map fst E).
Proof.
  unfold bound. induction E as [|[y v] r IH]; cbn; [reflexivity|].
  destruct (x =? y); [reflexivity|exact IH].
Qed.

Lemma dom_exists sc E x : dom_ok sc E -> sexists x sc = bound x E.
Proof. intros H. rewrite sexists_inb, bound_inb. now rewrite H. Qed.

Lemma dom_insert sc E x t v : dom_ok sc E -> dom_ok (sinsert x t sc) (ebind x v E).
Proof.
  unfold dom_ok, names, sinsert, ebind. intros H. destruct sc as [|s r]; cbn in *; now rewrite <- H.
Qed.

Lemma eupdate_names x v E : map fst (eupdate x v E) = map fst E.
Proof. induction E as [|[y w] r IH]; cbn; [reflexivity|]. destruct (x =? y); cbn; [reflexivity|now rewrite IH]. Qed.

Lemma dom_update sc E x v : dom_ok sc E -> dom_ok sc (eupdate x v E).
Proof. unfold dom_ok. intros H. now rewrite eupdate_names. Qed.

Lemma dom_push sc E : dom_ok sc E -> dom_ok ([] :: sc) E.
Proof. unfold dom_ok, names. now cbn. Qed.

Lemma dom_push_var sc E x v : dom_ok sc E -> dom_ok ([(x, TyInt)] :: sc) ((x, v) :: E).
Proof. unfold dom_ok, names. cbn. now intros ->. Qed.

Lemma ext_refl E : ext E E.
Proof. now exists []. Qed.

Lemma ext_trans A B C : ext A B -> ext B C -> ext A C.
Proof. intros [p Hp] [q Hq]. exists (q ++ p). rewrite Hq, Hp. now rewrite app_assoc. Qed.

Lemma ext_bind E x v : ext E (ebind x v E).
Proof. now exists [x]. Qed.

Lemma ext_update E x v : ext E (eupdate x v E).
Proof. exists []. now rewrite eupdate_names. Qed.

Lemma ext_cons_inv E x v E' : ext ((x, v) :: E) E' -> ext E E'.
Proof. intros [p Hp]. exists (p ++ [x]). rewrite Hp. cbn. now rewrite <- app_assoc. Qed.

Lemma restore_names E E' : ext E E' -> map fst (restore (length E) E') = map fst E.
Proof.
  intros [p Hp]. unfold restore.
  assert (HL : length E' = (length p + length E)%nat).
  { rewrite <- (map_length fst E'), Hp, app_length, map_length. reflexivity. }
  replace (length E' - length E)%nat with (length p) by lia.
  rewrite <- skipn_map, Hp. rewrite skipn_app, skipn_all, Nat.sub_diag. reflexivity.
Qed.

Lemma ext_restore E E' : ext E E' -> ext E (restore (length E) E').
Proof. intros H. exists []. now rewrite restore_names. Qed.

Lemma dom_restore sc E E' : dom_ok sc E -> ext E E' -> dom_ok sc (restore (length E) E').
Proof. unfold dom_ok. intros H X. now rewrite restore_names. Qed.

Lemma restore_idem n E : restore n (restore n E) = restore n E.
Proof.
  unfold restore at 1.
  assert (H : (length (restore n E) - n = 0)%nat).
  { unfold restore. rewrite skipn_length. lia. }
  now rewrite H.
Qed.

(* ---------------------------------------------------------------- reaching a result on the Rust side *)

Definition reach_s (E : env) (s : rstmt) (r : xres) : Prop :=
  exists F, forall F', (F <= F')%nat -> rexec_stmt F' E s = r.
Definition reach_b (E : env) (b : rblock) (r : xres) : Prop :=
  exists F, forall F', (F <= F')%nat -> rexec_block F' E b = r.
Definition reach_r (E : env) (x : ident) (cur stp step : Z) (b : rblock) (r : xres) : Prop :=
  exists F, forall F', (F <= F')%nat -> rexec_range F' E x cur stp step b = r.

(* the else part of an `if` whose condition was false *)
Definition relse (F : nat) (E : env) (el : rels) : xres :=
  match el with
  | GNoElse => ([], E, Go)
  | GElse b => in_scope (length E) (rexec_block F E b)
  end.
Definition reach_e (E : env) (el : rels) (r : xres) : Prop :=
  exists F, forall F', (F <= F')%nat -> relse F' E el = r.

Definition tels (el : iels) : rels :=
  match el with GNoElse => GNoElse | GElse b => GElse (tree_of_block b) end.

Ltac fuelS F' := destruct F' as [|F']; [lia|].

Lemma reach_nil E : reach_b E GNil ([], E, Go).
Proof. exists 1%nat. intros F' H. fuelS F'. reflexivity. Qed.

Lemma reach_cons_go E s r o1 E1 o2 E2 g2 :
  reach_s E s (o1, E1, Go) -> reach_b E1 r (o2, E2, g2) -> reach_b E (GCons s r) (o1 ++ o2, E2, g2).
Proof.
  intros [F1 H1] [F2 H2]. exists (S (Nat.max F1 F2)). intros F' H. fuelS F'.
  cbn [rexec_block]. rewrite H1 by lia. cbn [xseq]. rewrite H2 by lia. reflexivity.
Qed.

Lemma reach_cons_stop E s r o1 E1 g1 :
  g1 <> Go -> reach_s E s (o1, E1, g1) -> reach_b E (GCons s r) (o1, E1, g1).
Proof.
  intros Hg [F1 H1]. exists (S F1). intros F' H. fuelS F'.
  cbn [rexec_block]. rewrite H1 by lia. cbn [xseq]. destruct g1; congruence.
Qed.

(* ---------------------------------------------------------------- expressions inside statements *)

Definition okg (g : sig) : Prop := g <> Halt OutOfFuel /\ g <> Halt Unspec /\ g <> Halt Stuck.

Lemma okg_halt r : okg (Halt (stop_of r)) -> defined r /\ (forall v, r <> EV v).
Proof.
  intros (H1 & H2 & H3). destruct r; cbn in *; try congruence.
  split; [split; congruence | intros; congruence].
Qed.

(* what the source evaluation of an expression implies for the denoted Rust term *)
Lemma sem_val sc E e v : eval E e = EV v -> reval E (tree_of (lower_expr sc e)) = RV v.
Proof. intros H. rewrite tree_sem; rewrite H; [reflexivity|split; congruence]. Qed.

Lemma true_lit_eval sc c E : is_true_lit (lower_expr sc c) = true -> eval E c = EV (VB true).
Proof.
  induction c; cbn; intros H; try discriminate H.
  - destruct b; [reflexivity|discriminate H].
  - now apply IHc.
Qed.

Lemma not_true_lit_tree e : is_true_lit e = false ->
  forall b', tree_of_stmt (GWhile e b') = GWhile (tree_of e) (tree_of_block b').
Proof. intros H b'. cbn [tree_of_stmt]. now rewrite H. Qed.

(* ---------------------------------------------------------------- the simulation *)

Definition SimS (f : nat) : Prop := forall E s sc mv s' sc' mv' o E' g,
  exec_stmt f E s = (o, E', g) -> okg g -> lower_stmt sc mv s = LOk (s', sc', mv') -> dom_ok sc E ->
  reach_s E (tree_of_stmt s') (o, E', g) /\ ext E E' /\ (g = Go -> dom_ok sc' E').

Definition SimB (f : nat) : Prop := forall E b sc mv b' sc' mv' o E' g,
  exec_block f E b = (o, E', g) -> okg g -> lower_block sc mv b = LOk (b', sc', mv') -> dom_ok sc E ->
  reach_b E (tree_of_block b') (o, E', g) /\ ext E E' /\ (g = Go -> dom_ok sc' E').

Definition SimE (f : nat) : Prop := forall E el sc mv el' mv' o E' g,
  exec_els f E el = (o, E', g) -> okg g -> lower_els sc mv el = LOk (el', mv') -> dom_ok sc E ->
  reach_e E (tels el') (o, E', g) /\ ext E E' /\ dom_ok sc E'.

Definition SimR (f : nat) : Prop := forall E x cur stp step b sc mv b' sc' mv' o E' g,
  exec_range f E x cur stp step b = (o, E', g) -> okg g ->
  lower_block ([(x, TyInt)] :: sc) mv b = LOk (b', sc', mv') -> dom_ok sc E ->
  reach_r E x cur stp step (tree_of_block b') (o, E', g) /\ ext E E' /\ dom_ok sc E'.

Lemma range_done_refl z s : range_done z z s = true.
Proof. unfold range_done. destruct (0 <? s); apply Z.leb_refl. Qed.

Lemma okg_go : okg Go. Proof. repeat split; discriminate. Qed.
Lemma okg_brk : okg Brk. Proof. repeat split; discriminate. Qed.

(* a block run in its own scope, on both sides *)
Lemma scoped_block f E b sc0 mv b' sc' mv' o E' g :
  SimB f -> in_scope (length E) (exec_block f E b) = (o, E', g) -> okg g ->
  lower_block sc0 mv b = LOk (b', sc', mv') -> dom_ok sc0 E ->
  (exists F, forall F', (F <= F')%nat -> in_scope (length E) (rexec_block F' E (tree_of_block b')) = (o, E', g)) /\
  ext E E' /\ (forall sc, dom_ok sc E -> dom_ok sc E').
Proof.
  intros IH Hx Hk Hl Hd.
  destruct (exec_block f E b) as [[o1 E1] g1] eqn:Hb. cbn [in_scope] in Hx. injection Hx as <- <- <-.
  destruct (IH _ _ _ _ _ _ _ _ _ _ Hb Hk Hl Hd) as ([F HF] & Hext & _).
  split; [|split].
  - exists F. intros F' HF'. rewrite HF by lia. reflexivity.
  - now apply ext_restore.
  - intros sc Hsc. now apply dom_restore.
Qed.

Lemma sim_step f : SimS f /\ SimB f /\ SimE f /\ SimR f -> SimS (S f) /\ SimB (S f) /\ SimE (S f) /\ SimR (S f).
Proof.
  intros (IHS & IHB & IHE & IHR). split; [|split; [|split]].
  - (* statements *)
    unfold SimS. intros E s sc mv s' sc' mv' o E' g Hx Hk Hl Hd.
    destruct s as [k x ann e|co x e|c th el|c b|x r b|e| | |]; cbn [exec_stmt] in Hx; cbn [lower_stmt] in Hl.
    + (* assignment *)
      destruct (eval E e) as [v| | |] eqn:Ev.
      * assert (Hrv := sem_val sc E e v Ev).
        destruct k.
        -- (* inferred *)
           rewrite (dom_exists sc E x Hd) in Hl.
           destruct (bound x E) eqn:Hb.
           ++ destruct (mem x mv); [|discriminate]. injection Hl as <- <- <-. injection Hx as <- <- <-.
              split; [|split; [apply ext_update | intros _; now apply dom_update]].
              exists 1%nat. intros F' HF. fuelS F'. cbn [tree_of_stmt rexec_stmt]. rewrite Hrv, Hb. reflexivity.
           ++ injection Hl as <- <- <-. injection Hx as <- <- <-.
              split; [|split; [apply ext_bind | intros _; now apply dom_insert]].
              exists 1%nat. intros F' HF. fuelS F'. cbn [tree_of_stmt rexec_stmt]. rewrite Hrv. reflexivity.
        -- injection Hl as <- <- <-. injection Hx as <- <- <-.
           split; [|split; [apply ext_bind | intros _; now apply dom_insert]].
           exists 1%nat. intros F' HF. fuelS F'. cbn [tree_of_stmt rexec_stmt]. rewrite Hrv. reflexivity.
        -- injection Hl as <- <- <-. injection Hx as <- <- <-.
           split; [|split; [apply ext_bind | intros _; now apply dom_insert]].
           exists 1%nat. intros F' HF. fuelS F'. cbn [tree_of_stmt rexec_stmt]. rewrite Hrv. reflexivity.
      * (* ZeroDivisionError while evaluating *)
        injection Hx as <- <- <-.
        assert (Hr : reval E (tree_of (lower_expr sc e)) = RZeroDiv).
        { rewrite tree_sem; rewrite Ev; [reflexivity|split; congruence]. }
        split; [|split; [apply ext_refl | discriminate]].
        exists 1%nat. intros F' HF. fuelS F'.
        destruct k; [destruct (sexists x sc); [destruct (mem x mv); [|discriminate]|]|..];
        injection Hl as <- <- <-; cbn [tree_of_stmt rexec_stmt]; rewrite Hr; reflexivity.
      * injection Hx as <- <- <-. destruct Hk as (_ & H & _). cbn in H. congruence.
      * injection Hx as <- <- <-. destruct Hk as (_ & _ & H). cbn in H. congruence.
    + (* compound assignment *)
      injection Hl as <- <- <-.
      change (IBin (binop_of_cop co) (var_ty x sc) (cty sc e) (IVar x) (lower_expr sc e))
        with (lower_expr sc (EBin (binop_of_cop co) (EVar x) e)).
      set (ee := EBin (binop_of_cop co) (EVar x) e) in *.
      destruct (eval E ee) as [v| | |] eqn:Ev.
      * injection Hx as <- <- <-.
        assert (Hb : bound x E = true).
        { unfold bound. subst ee. cbn [eval] in Ev.
          destruct (lookup x E); [reflexivity|]. destruct (binop_of_cop co); discriminate. }
        split; [|split; [apply ext_update | intros _; now apply dom_update]].
        exists 1%nat. intros F' HF. fuelS F'. cbn [tree_of_stmt rexec_stmt].
        rewrite (sem_val sc E ee v Ev), Hb. reflexivity.
      * injection Hx as <- <- <-.
        assert (Hr : reval E (tree_of (lower_expr sc ee)) = RZeroDiv).
        { rewrite tree_sem; rewrite Ev; [reflexivity|split; congruence]. }
        split; [|split; [apply ext_refl | discriminate]].
        exists 1%nat. intros F' HF. fuelS F'. cbn [tree_of_stmt rexec_stmt]. rewrite Hr. reflexivity.
      * injection Hx as <- <- <-. destruct Hk as (_ & H & _). cbn in H. congruence.
      * injection Hx as <- <- <-. destruct Hk as (_ & _ & H). cbn in H. congruence.
    + (* if *)
      destruct (lower_els sc mv el) as [[el' mv1]|] eqn:Hle; [|discriminate].
      destruct (lower_block ([] :: sc) mv1 th) as [[[th' sct] mv2]|] eqn:Hlt; [|discriminate].
      injection Hl as <- <- <-.
      destruct (eval E c) as [[z|[|]]| | |] eqn:Ec.
      * injection Hx as <- <- <-. destruct Hk as (_ & _ & H). cbn in H. congruence.
      * (* true *)
        destruct (scoped_block f E th ([] :: sc) mv1 th' sct mv2 o E' g IHB Hx Hk Hlt (dom_push _ _ Hd))
          as ([F HF] & Hext & Hdom).
        split; [|split; [exact Hext | intros _; now apply Hdom]].
        exists (S F). intros F' HF'. fuelS F'. cbn [tree_of_stmt rexec_stmt].
        rewrite (sem_val sc E c _ Ec). rewrite HF by lia. reflexivity.
      * (* false *)
        destruct (IHE _ _ _ _ _ _ _ _ _ Hx Hk Hle Hd) as ([F HF] & Hext & Hdom).
        split; [|split; [exact Hext | intros _; exact Hdom]].
        exists (S F). intros F' HF'. fuelS F'. cbn [tree_of_stmt rexec_stmt].
        rewrite (sem_val sc E c _ Ec). specialize (HF F' ltac:(lia)).
        destruct el'; cbn [tels relse] in HF; exact HF.
      * injection Hx as <- <- <-.
        assert (Hr : reval E (tree_of (lower_expr sc c)) = RZeroDiv).
        { rewrite tree_sem; rewrite Ec; [reflexivity|split; congruence]. }
        split; [|split; [apply ext_refl | discriminate]].
        exists 1%nat. intros F' HF. fuelS F'. cbn [tree_of_stmt rexec_stmt]. rewrite Hr. reflexivity.
      * injection Hx as <- <- <-. destruct Hk as (_ & H & _). cbn in H. congruence.
      * injection Hx as <- <- <-. destruct Hk as (_ & _ & H). cbn in H. congruence.
    + (* while *)
      destruct (lower_block ([] :: sc) mv b) as [[[b' scb] mv1]|] eqn:Hlb; [|discriminate].
      injection Hl as <- <- <-.
      assert (Hlw : lower_stmt sc mv (SWhile c b) = LOk (GWhile (lower_expr ([] :: sc) c) b', sc, mv1)).
      { cbn [lower_stmt]. now rewrite Hlb. }
      destruct (eval E c) as [[z|[|]]| | |] eqn:Ec.
      * injection Hx as <- <- <-. destruct Hk as (_ & _ & H). cbn in H. congruence.
      * (* condition true: run the body, then maybe again *)
        destruct (in_scope (length E) (exec_block f E b)) as [[o1 E1] g1] eqn:Hb.
        assert (Hk1 : okg g1).
        { destruct g1 as [| | |k1]; try (repeat split; discriminate).
          injection Hx as <- <- <-. exact Hk. }
        destruct (scoped_block f E b ([] :: sc) mv b' scb mv1 o1 E1 g1 IHB Hb Hk1 Hlb (dom_push _ _ Hd))
          as ([F HF] & Hext & Hdom).
        assert (Hcont : forall o2 E2 g2, exec_stmt f E1 (SWhile c b) = (o2, E2, g2) -> okg g2 ->
                  reach_s E1 (tree_of_stmt (GWhile (lower_expr ([] :: sc) c) b')) (o2, E2, g2) /\ ext E1 E2 /\ (g2 = Go -> dom_ok sc E2)).
        { intros o2 E2 g2 H2 Hk2. exact (IHS _ _ _ _ _ _ _ _ _ _ H2 Hk2 Hlw (Hdom _ Hd)). }
        destruct (is_true_lit (lower_expr ([] :: sc) c)) eqn:Htl.
        -- (* `while true` is emitted as `loop` *)
           destruct g1 as [| | |k1].
           ++ destruct (exec_stmt f E1 (SWhile c b)) as [[o2 E2] g2] eqn:H2. injection Hx as <- <- <-.
              destruct (Hcont _ _ _ eq_refl Hk) as ([F2 HF2] & Hext2 & Hdom2).
              split; [|split; [eapply ext_trans; eauto | exact Hdom2]].
              exists (S (Nat.max F F2)). intros F' HF'. fuelS F'.
              cbn [tree_of_stmt] in *. rewrite Htl in *. cbn [rexec_stmt]. rewrite HF by lia. rewrite HF2 by lia. reflexivity.
           ++ injection Hx as <- <- <-.
              split; [|split; [exact Hext | intros _; now apply Hdom]].
              exists (S F). intros F' HF'. fuelS F'.
              cbn [tree_of_stmt]. rewrite Htl. cbn [rexec_stmt]. rewrite HF by lia. reflexivity.
           ++ destruct (exec_stmt f E1 (SWhile c b)) as [[o2 E2] g2] eqn:H2. injection Hx as <- <- <-.
              destruct (Hcont _ _ _ eq_refl Hk) as ([F2 HF2] & Hext2 & Hdom2).
              split; [|split; [eapply ext_trans; eauto | exact Hdom2]].
              exists (S (Nat.max F F2)). intros F' HF'. fuelS F'.
              cbn [tree_of_stmt] in *. rewrite Htl in *. cbn [rexec_stmt]. rewrite HF by lia. rewrite HF2 by lia. reflexivity.
           ++ injection Hx as <- <- <-.
              split; [|split; [exact Hext | discriminate]].
              exists (S F). intros F' HF'. fuelS F'.
              cbn [tree_of_stmt]. rewrite Htl. cbn [rexec_stmt]. rewrite HF by lia. reflexivity.
        -- assert (Hc : reval E (tree_of (lower_expr ([] :: sc) c)) = RV (VB true)) by (now apply sem_val).
           destruct g1 as [| | |k1].
           ++ destruct (exec_stmt f E1 (SWhile c b)) as [[o2 E2] g2] eqn:H2. injection Hx as <- <- <-.
              destruct (Hcont _ _ _ eq_refl Hk) as ([F2 HF2] & Hext2 & Hdom2).
              split; [|split; [eapply ext_trans; eauto | exact Hdom2]].
              exists (S (Nat.max F F2)). intros F' HF'. fuelS F'.
              cbn [tree_of_stmt] in *. rewrite Htl in *. cbn [rexec_stmt]. rewrite Hc. rewrite HF by lia. rewrite HF2 by lia. reflexivity.
           ++ injection Hx as <- <- <-.
              split; [|split; [exact Hext | intros _; now apply Hdom]].
              exists (S F). intros F' HF'. fuelS F'.
              cbn [tree_of_stmt]. rewrite Htl. cbn [rexec_stmt]. rewrite Hc. rewrite HF by lia. reflexivity.
           ++ destruct (exec_stmt f E1 (SWhile c b)) as [[o2 E2] g2] eqn:H2. injection Hx as <- <- <-.
              destruct (Hcont _ _ _ eq_refl Hk) as ([F2 HF2] & Hext2 & Hdom2).
              split; [|split; [eapply ext_trans; eauto | exact Hdom2]].
              exists (S (Nat.max F F2)). intros F' HF'. fuelS F'.
              cbn [tree_of_stmt] in *. rewrite Htl in *. cbn [rexec_stmt]. rewrite Hc. rewrite HF by lia. rewrite HF2 by lia. reflexivity.
           ++ injection Hx as <- <- <-.
              split; [|split; [exact Hext | discriminate]].
              exists (S F). intros F' HF'. fuelS F'.
              cbn [tree_of_stmt]. rewrite Htl. cbn [rexec_stmt]. rewrite Hc. rewrite HF by lia. reflexivity.
      * (* condition false *)
        injection Hx as <- <- <-.
        destruct (is_true_lit (lower_expr ([] :: sc) c)) eqn:Htl.
        { rewrite (true_lit_eval _ _ E Htl) in Ec. discriminate. }
        split; [|split; [apply ext_refl | intros _; exact Hd]].
        exists 1%nat. intros F' HF'. fuelS F'. cbn [tree_of_stmt]. rewrite Htl. cbn [rexec_stmt].
        rewrite (sem_val _ E c _ Ec). reflexivity.
      * injection Hx as <- <- <-.
        destruct (is_true_lit (lower_expr ([] :: sc) c)) eqn:Htl.
        { rewrite (true_lit_eval _ _ E Htl) in Ec. discriminate. }
        assert (Hr : reval E (tree_of (lower_expr ([] :: sc) c)) = RZeroDiv).
        { rewrite tree_sem; rewrite Ec; [reflexivity|split; congruence]. }
        split; [|split; [apply ext_refl | discriminate]].
        exists 1%nat. intros F' HF. fuelS F'. cbn [tree_of_stmt]. rewrite Htl. cbn [rexec_stmt]. rewrite Hr. reflexivity.
      * injection Hx as <- <- <-. destruct Hk as (_ & H & _). cbn in H. congruence.
      * injection Hx as <- <- <-. destruct Hk as (_ & _ & H). cbn in H. congruence.
    + (* for x in range(...) *)
      destruct (lower_rargs sc r) as [[ia iz] ist] eqn:Hlr.
      destruct (lower_block ([(x, TyInt)] :: sc) mv b) as [[[b' scb] mv1]|] eqn:Hlb; [|discriminate].
      injection Hl as <- <- <-.
      (* the three arguments, evaluated left to right on both sides *)
      assert (Hargs : exists ea ez es,
                eval_rargs E r = (eval E ea, eval E ez, eval E es) /\
                tree_of ia = tree_of (lower_expr sc ea) /\ tree_of iz = tree_of (lower_expr sc ez) /\
                (tree_of ist = tree_of (lower_expr sc es) \/ tree_of ist = RCast (tree_of (lower_expr sc es)))).
      { destruct r as [e1|e1 e2|e1 e2 e3]; cbn [lower_rargs] in Hlr; injection Hlr as <- <- <-; cbn [eval_rargs].
        - exists (EInt 0), e1, (EInt 1). repeat split; auto.
        - exists e1, e2, (EInt 1). repeat split; auto.
        - exists e1, e2, e3. repeat split; auto. }
      destruct Hargs as (ea & ez & es & Hev & Ha & Hz & Hs). rewrite Hev in Hx.
      assert (Hcast : forall v, eval E es = EV (VI v) -> reval E (tree_of ist) = RV (VI v)).
      { intros v Hv. destruct Hs as [-> | ->]; [now apply sem_val|]. cbn [reval]. now rewrite (sem_val sc E es _ Hv). }
      assert (Hcasth : forall r0, reval E (tree_of (lower_expr sc es)) = r0 -> (forall v, r0 <> RV v) -> reval E (tree_of ist) = r0).
      { intros r0 Hr0 Hn. destruct Hs as [-> | ->]; [exact Hr0|]. cbn [reval]. rewrite Hr0.
        destruct r0 as [v| | |]; [exfalso; eapply Hn; eauto|reflexivity..]. }
      destruct (eval E ea) as [[va|?]| | |] eqn:Ea.
      * destruct (eval E ez) as [[vz|?]| | |] eqn:Ez.
        -- destruct (eval E es) as [[vs|?]| | |] eqn:Es.
           ++ destruct (vs =? 0) eqn:Hz0.
              ** injection Hx as <- <- <-.
                 split; [|split; [apply ext_refl | discriminate]].
                 exists 1%nat. intros F' HF. fuelS F'. cbn [tree_of_stmt rexec_stmt].
                 rewrite Ha, Hz, (sem_val sc E ea _ Ea), (sem_val sc E ez _ Ez), (Hcast _ eq_refl), Hz0. reflexivity.
              ** destruct (IHR _ _ _ _ _ _ _ _ _ _ _ _ _ _ Hx Hk Hlb Hd) as ([F HF] & Hext & Hdom).
                 split; [|split; [exact Hext | intros _; exact Hdom]].
                 exists (S F). intros F' HF'. fuelS F'. cbn [tree_of_stmt rexec_stmt].
                 rewrite Ha, Hz, (sem_val sc E ea _ Ea), (sem_val sc E ez _ Ez), (Hcast _ eq_refl), Hz0.
                 now apply HF; lia.
           ++ injection Hx as <- <- <-. destruct Hk as (_ & _ & H). cbn in H. congruence.
           ++ injection Hx as <- <- <-.
              split; [|split; [apply ext_refl | discriminate]].
              exists 1%nat. intros F' HF. fuelS F'. cbn [tree_of_stmt rexec_stmt].
              rewrite Ha, Hz, (sem_val sc E ea _ Ea), (sem_val sc E ez _ Ez).
              rewrite (Hcasth RZeroDiv); [reflexivity| |discriminate].
              rewrite tree_sem; rewrite Es; [reflexivity|split; congruence].
           ++ injection Hx as <- <- <-. destruct Hk as (_ & H & _). cbn in H. congruence.
           ++ injection Hx as <- <- <-. destruct Hk as (_ & _ & H). cbn in H. congruence.
        -- injection Hx as <- <- <-. destruct Hk as (_ & _ & H). cbn in H. congruence.
        -- injection Hx as <- <- <-.
           split; [|split; [apply ext_refl | discriminate]].
           exists 1%nat. intros F' HF. fuelS F'. cbn [tree_of_stmt rexec_stmt].
           rewrite Ha, Hz, (sem_val sc E ea _ Ea).
           replace (reval E (tree_of (lower_expr sc ez))) with RZeroDiv; [reflexivity|].
           rewrite tree_sem; rewrite Ez; [reflexivity|split; congruence].
        -- injection Hx as <- <- <-. destruct Hk as (_ & H & _). cbn in H. congruence.
        -- injection Hx as <- <- <-. destruct Hk as (_ & _ & H). cbn in H. congruence.
      * injection Hx as <- <- <-. destruct Hk as (_ & _ & H). cbn in H. congruence.
      * injection Hx as <- <- <-.
        split; [|split; [apply ext_refl | discriminate]].
        exists 1%nat. intros F' HF. fuelS F'. cbn [tree_of_stmt rexec_stmt].
        rewrite Ha. replace (reval E (tree_of (lower_expr sc ea))) with RZeroDiv; [reflexivity|].
        rewrite tree_sem; rewrite Ea; [reflexivity|split; congruence].
      * injection Hx as <- <- <-. destruct Hk as (_ & H & _). cbn in H. congruence.
      * injection Hx as <- <- <-. destruct Hk as (_ & _ & H). cbn in H. congruence.
    + (* println *)
      injection Hl as <- <- <-.
      destruct (eval E e) as [v| | |] eqn:Ev; injection Hx as <- <- <-.
      * split; [|split; [apply ext_refl | intros _; exact Hd]].
        exists 1%nat. intros F' HF. fuelS F'. cbn [tree_of_stmt rexec_stmt]. rewrite (sem_val sc E e v Ev). reflexivity.
      * split; [|split; [apply ext_refl | discriminate]].
        exists 1%nat. intros F' HF. fuelS F'. cbn [tree_of_stmt rexec_stmt].
        replace (reval E (tree_of (lower_expr sc e))) with RZeroDiv; [reflexivity|].
        rewrite tree_sem; rewrite Ev; [reflexivity|split; congruence].
      * destruct Hk as (_ & H & _). cbn in H. congruence.
      * destruct Hk as (_ & _ & H). cbn in H. congruence.
    + injection Hl as <- <- <-. injection Hx as <- <- <-.
      split; [|split; [apply ext_refl | intros _; exact Hd]].
      exists 1%nat. intros F' HF. fuelS F'. reflexivity.
    + injection Hl as <- <- <-. injection Hx as <- <- <-.
      split; [|split; [apply ext_refl | discriminate]].
      exists 1%nat. intros F' HF. fuelS F'. reflexivity.
    + injection Hl as <- <- <-. injection Hx as <- <- <-.
      split; [|split; [apply ext_refl | discriminate]].
      exists 1%nat. intros F' HF. fuelS F'. reflexivity.
  - (* blocks *)
    unfold SimB. intros E b sc mv b' sc' mv' o E' g Hx Hk Hl Hd.
    destruct b as [|s r]; cbn [exec_block] in Hx; cbn [lower_block] in Hl.
    + injection Hl as <- <- <-. injection Hx as <- <- <-.
      split; [apply reach_nil | split; [apply ext_refl | intros _; exact Hd]].
    + destruct (lower_stmt sc mv s) as [[[s1 sc1] mv1]|] eqn:Hls; [|discriminate].
      destruct (lower_block sc1 mv1 r) as [[[r1 sc2] mv2]|] eqn:Hlr; [|discriminate].
      injection Hl as <- <- <-.
      destruct (exec_stmt f E s) as [[o1 E1] g1] eqn:Hs. cbn [xseq] in Hx.
      destruct g1 as [| | |k1].
      * destruct (exec_block f E1 r) as [[o2 E2] g2] eqn:Hr. injection Hx as <- <- <-.
        destruct (IHS _ _ _ _ _ _ _ _ _ _ Hs okg_go Hls Hd) as (R1 & X1 & D1).
        destruct (IHB _ _ _ _ _ _ _ _ _ _ Hr Hk Hlr (D1 eq_refl)) as (R2 & X2 & D2).
        split; [|split; [eapply ext_trans; eauto | exact D2]].
        cbn [tree_of_block]. eapply reach_cons_go; eauto.
      * injection Hx as <- <- <-.
        destruct (IHS _ _ _ _ _ _ _ _ _ _ Hs Hk Hls Hd) as (R1 & X1 & D1).
        split; [|split; [exact X1 | discriminate]].
        cbn [tree_of_block]. apply reach_cons_stop; [discriminate|exact R1].
      * injection Hx as <- <- <-.
        destruct (IHS _ _ _ _ _ _ _ _ _ _ Hs Hk Hls Hd) as (R1 & X1 & D1).
        split; [|split; [exact X1 | discriminate]].
        cbn [tree_of_block]. apply reach_cons_stop; [discriminate|exact R1].
      * injection Hx as <- <- <-.
        destruct (IHS _ _ _ _ _ _ _ _ _ _ Hs Hk Hls Hd) as (R1 & X1 & D1).
        split; [|split; [exact X1 | discriminate]].
        cbn [tree_of_block]. apply reach_cons_stop; [discriminate|exact R1].
  - (* else / elif chains *)
    unfold SimE. intros E el sc mv el' mv' o E' g Hx Hk Hl Hd.
    destruct el as [|b|c b rest]; cbn [exec_els] in Hx; cbn [lower_els] in Hl.
    + injection Hl as <- <-. injection Hx as <- <- <-.
      split; [|split; [apply ext_refl | exact Hd]].
      exists O. intros F' _. reflexivity.
    + destruct (lower_block ([] :: sc) mv b) as [[[b' scb] mv1]|] eqn:Hlb; [|discriminate].
      injection Hl as <- <-.
      destruct (scoped_block f E b ([] :: sc) mv b' scb mv1 o E' g IHB Hx Hk Hlb (dom_push _ _ Hd))
        as ([F HF] & Hext & Hdom).
      split; [|split; [exact Hext | now apply Hdom]].
      exists F. intros F' HF'. cbn [tels relse]. now apply HF.
    + destruct (lower_els sc mv rest) as [[rest' mv1]|] eqn:Hlr; [|discriminate].
      destruct (lower_block ([] :: sc) mv1 b) as [[[b' scb] mv2]|] eqn:Hlb; [|discriminate].
      injection Hl as <- <-.
      (* on the Rust side: else { if c { b } else rest } *)
      destruct (eval E c) as [[z|[|]]| | |] eqn:Ec.
      * injection Hx as <- <- <-. destruct Hk as (_ & _ & H). cbn in H. congruence.
      * assert (Hid : restore (length E) E' = E').
        { destruct (exec_block f E b) as [[o0 E0] g0]. cbn [in_scope] in Hx. injection Hx as _ <- _. apply restore_idem. }
        destruct (scoped_block f E b ([] :: sc) mv1 b' scb mv2 o E' g IHB Hx Hk Hlb (dom_push _ _ Hd))
          as ([F HF] & Hext & Hdom).
        split; [|split; [exact Hext | now apply Hdom]].
        exists (S (S F)). intros F' HF'. fuelS F'. cbn [tels relse tree_of_block tree_of_stmt rexec_block]. fuelS F'. cbn [rexec_stmt].
        rewrite (sem_val sc E c _ Ec). rewrite HF by lia. cbn [xseq].
        destruct g; cbn [rexec_block in_scope]; rewrite ?app_nil_r, Hid; reflexivity.
      * destruct (IHE _ _ _ _ _ _ _ _ _ Hx Hk Hlr Hd) as ([F HF] & Hext & Hdom).
        assert (Hlen : restore (length E) E' = E').
        { unfold restore.
          assert (length E' = length E).
          { rewrite <- (map_length fst E'), <- (map_length fst E). unfold dom_ok in *. congruence. }
          replace (length E' - length E)%nat with O by lia. reflexivity. }
        split; [|split; [exact Hext | exact Hdom]].
        exists (S (S F)). intros F' HF'. fuelS F'. cbn [tels relse tree_of_block tree_of_stmt rexec_block]. fuelS F'. cbn [rexec_stmt].
        rewrite (sem_val sc E c _ Ec). specialize (HF F' ltac:(lia)).
        destruct rest' as [|rb]; cbn [tels relse] in HF.
        -- injection HF as <- <- <-. cbn [xseq rexec_block in_scope app]. rewrite Hlen. reflexivity.
        -- rewrite HF. cbn [xseq]. destruct g; cbn [rexec_block in_scope]; rewrite ?app_nil_r, Hlen; reflexivity.
      * injection Hx as <- <- <-.
        split; [|split; [apply ext_refl | exact Hd]].
        exists 2%nat. intros F' HF. fuelS F'. cbn [tels relse tree_of_block tree_of_stmt rexec_block]. fuelS F'. cbn [rexec_stmt].
        replace (reval E (tree_of (lower_expr sc c))) with RZeroDiv.
        2:{ rewrite tree_sem; rewrite Ec; [reflexivity|split; congruence]. }
        cbn [rstop_of xseq in_scope]. unfold restore. rewrite Nat.sub_diag. reflexivity.
      * injection Hx as <- <- <-. destruct Hk as (_ & H & _). cbn in H. congruence.
      * injection Hx as <- <- <-. destruct Hk as (_ & _ & H). cbn in H. congruence.
  - (* range iteration *)
    unfold SimR. intros E x cur stp step b sc mv b' sc' mv' o E' g Hx Hk Hl Hd.
    cbn [exec_range] in Hx.
    destruct (range_done cur stp step) eqn:Hdone.
    + injection Hx as <- <- <-.
      split; [|split; [apply ext_refl | exact Hd]].
      exists 1%nat. intros F' HF. fuelS F'. cbn [rexec_range]. rewrite Hdone. reflexivity.
    + destruct (in_scope (length E) (exec_block f ((x, VI cur) :: E) b)) as [[o1 E1] g1] eqn:Hb.
      assert (Hk1 : okg g1).
      { destruct g1 as [| | |k1]; try (repeat split; discriminate).
        injection Hx as <- <- <-. exact Hk. }
      (* the body, in a scope that also holds the loop variable *)
      assert (Hbody : (exists F, forall F', (F <= F')%nat ->
                         in_scope (length E) (rexec_block F' ((x, VI cur) :: E) (tree_of_block b')) = (o1, E1, g1)) /\
                      ext E E1 /\ dom_ok sc E1).
      { destruct (exec_block f ((x, VI cur) :: E) b) as [[o0 E0] g0] eqn:Hb0.
        cbn [in_scope] in Hb. injection Hb as <- <- <-.
        destruct (IHB _ _ _ _ _ _ _ _ _ _ Hb0 Hk1 Hl (dom_push_var _ _ _ _ Hd)) as ([F HF] & Hext & _).
        apply ext_cons_inv in Hext.
        split; [|split; [now apply ext_restore | now apply dom_restore]].
        exists F. intros F' HF'. rewrite HF by lia. reflexivity. }
      destruct Hbody as ([F HF] & Hext & Hdom).
      destruct g1 as [| | |k1].
      * destruct (in_i64b (cur + step)) eqn:Hin.
        -- destruct (exec_range f E1 x (cur + step) stp step b) as [[o2 E2] g2] eqn:H2. injection Hx as <- <- <-.
           destruct (IHR _ _ _ _ _ _ _ _ _ _ _ _ _ _ H2 Hk Hl Hdom) as ([F2 HF2] & Hext2 & Hdom2).
           split; [|split; [eapply ext_trans; eauto | exact Hdom2]].
           exists (S (Nat.max F F2)). intros F' HF'. fuelS F'. cbn [rexec_range]. rewrite Hdone.
           rewrite HF by lia. cbv zeta. rewrite Hin. rewrite HF2 by lia. reflexivity.
        -- injection Hx as <- <- <-.
           split; [|split; [exact Hext | exact Hdom]].
           exists (S (S F)). intros F' HF'. fuelS F'. cbn [rexec_range]. rewrite Hdone.
           rewrite HF by lia. cbv zeta. rewrite Hin. fuelS F'. cbn [rexec_range]. rewrite range_done_refl.
           now rewrite app_nil_r.
      * injection Hx as <- <- <-.
        split; [|split; [exact Hext | exact Hdom]].
        exists (S F). intros F' HF'. fuelS F'. cbn [rexec_range]. rewrite Hdone. rewrite HF by lia. reflexivity.
      * destruct (in_i64b (cur + step)) eqn:Hin.
        -- destruct (exec_range f E1 x (cur + step) stp step b) as [[o2 E2] g2] eqn:H2. injection Hx as <- <- <-.
           destruct (IHR _ _ _ _ _ _ _ _ _ _ _ _ _ _ H2 Hk Hl Hdom) as ([F2 HF2] & Hext2 & Hdom2).
           split; [|split; [eapply ext_trans; eauto | exact Hdom2]].
           exists (S (Nat.max F F2)). intros F' HF'. fuelS F'. cbn [rexec_range]. rewrite Hdone.
           rewrite HF by lia. cbv zeta. rewrite Hin. rewrite HF2 by lia. reflexivity.
        -- injection Hx as <- <- <-.
           split; [|split; [exact Hext | exact Hdom]].
           exists (S (S F)). intros F' HF'. fuelS F'. cbn [rexec_range]. rewrite Hdone.
           rewrite HF by lia. cbv zeta. rewrite Hin. fuelS F'. cbn [rexec_range]. rewrite range_done_refl.
           now rewrite app_nil_r.
      * injection Hx as <- <- <-.
        split; [|split; [exact Hext | exact Hdom]].
        exists (S F). intros F' HF'. fuelS F'. cbn [rexec_range]. rewrite Hdone. rewrite HF by lia. reflexivity.
Qed.

Lemma sim_all f : SimS f /\ SimB f /\ SimE f /\ SimR f.
Proof.
  induction f as [|f IH]; [|now apply sim_step].
  split; [|split; [|split]]; red; intros; cbn in *;
  match goal with H : (_, _, Halt OutOfFuel) = (_, _, ?g), K : okg ?g |- _ =>
    injection H as <- <- <-; destruct K as (K & _); congruence end.
Qed.

(* ---------------------------------------------------------------- whole functions *)

Lemma init_dom ps av : length ps = length av -> dom_ok (init_scopes ps) (combine ps (map VI av)).
Proof.
  unfold dom_ok, names, init_scopes. cbn. rewrite app_nil_r, map_map. cbn.
  revert av. induction ps as [|p r IH]; intros [|a av] H; cbn in *; try discriminate; [reflexivity|].
  f_equal. apply IH. lia.
Qed.

Definition okstop (k : stop) : Prop := k <> OutOfFuel /\ k <> Unspec /\ k <> Stuck.

Lemma compile_correct c fuel out k :
  known_grouping c = false ->
  (exists ib, lower_fn c = LOk ib) ->
  run fuel c = (out, k) -> okstop k ->
  exists ts b, compile c = COk ts b /\
    exists F, forall F', (F <= F')%nat -> rrun F' (params c) (args c) b = (out, k).
Proof.
  intros Hg [ib Hl] Hr Hk.
  unfold known_grouping in Hg. rewrite Hl in Hg. apply negb_false_iff in Hg. apply reparses_true in Hg.
  exists (emit_block ib), (tree_of_block ib). split.
  { unfold compile. rewrite Hl, Hg. reflexivity. }
  unfold run in Hr. destruct (Nat.eqb (length (params c)) (length (args c))) eqn:Hlen; cbn [negb] in Hr.
  2:{ injection Hr as <- <-. destruct Hk as (_ & _ & H). congruence. }
  apply Nat.eqb_eq in Hlen.
  destruct (exec_block fuel (init_env c) (body c)) as [[o E'] g] eqn:Hx. injection Hr as <- <-.
  unfold lower_fn in Hl.
  destruct (lower_block (init_scopes (params c)) [] (body c)) as [[[b' sc'] mv']|] eqn:Hlb; [|discriminate].
  injection Hl as <-.
  assert (Hkg : okg g).
  { destruct Hk as (H1 & H2 & H3). destruct g; cbn [final] in *; repeat split; try discriminate; congruence. }
  destruct (proj1 (proj2 (sim_all fuel)) _ _ _ _ _ _ _ _ _ _ Hx Hkg Hlb (init_dom _ _ Hlen)) as ([F HF] & _ & _).
  exists F. intros F' HF'. unfold rrun. rewrite (proj2 (Nat.eqb_eq _ _) Hlen). cbn [negb].
  unfold init_env in HF. rewrite HF by lia. reflexivity.
Qed.
