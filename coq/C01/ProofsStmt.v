(* C01/ProofsStmt.v — statement / function level simulation.
   The lowering's scope bookkeeping (scopes, mutable_vars) decides `let` / `let mut` / assignment;
   the invariant [dom_ok] says the names the lowering believes are in scope are exactly the names
   bound at run time, so plain `x = e` is emitted as an assignment exactly when the documented
   semantics reassign.  The Rust side is reached with SOME fuel and every larger fuel ([reach_*]). *)
From Verif Require Import Base.I64 C04.Model Core.Syntax Core.Dynamic Core.Rust Core.Lower C01.Model C01.Proofs.
From Coq Require Import ZArith List Bool Lia.
Import ListNotations.
Open Scope Z_scope.

(* ---------------------------------------------------------------- equality of parsed bodies *)

Lemma rexpr_eqb_eq a b : rexpr_eqb a b = true -> a = b.
Proof. unfold rexpr_eqb. destruct (rexpr_eq_dec a b); [auto|discriminate]. Qed.

Lemma rexprs_eqb_eq a : forall b, rexprs_eqb a b = true -> a = b.
Proof.
  induction a as [|x r IH]; intros [|y t] H; cbn in H; try discriminate; [reflexivity|].
  apply andb_prop in H. destruct H as [H1 H2]. apply rexpr_eqb_eq in H1. apply IH in H2. now subst.
Qed.

Lemma rcexpr_eqb_eq a b : rcexpr_eqb a b = true -> a = b.
Proof.
  destruct a, b; cbn; intros H; try discriminate.
  - apply rexpr_eqb_eq in H. now subst.
  - apply andb_prop in H. destruct H as [H1 H2]. apply Z.eqb_eq in H1. apply rexprs_eqb_eq in H2. now subst.
Qed.

Lemma orc_eqb_eq a b : orc_eqb a b = true -> a = b.
Proof.
  destruct a, b; cbn; intros H; try discriminate; [|reflexivity].
  apply rcexpr_eqb_eq in H. now subst.
Qed.

Lemma rstmt_eqb_sound :
  (forall a b : rstmt, rstmt_eqb a b = true -> a = b) /\
  (forall a b : rblock, rblock_eqb a b = true -> a = b) /\
  (forall a b : rels, rels_eqb a b = true -> a = b).
Proof.
  apply (gstmt_gblock_gels_ind rexpr rcexpr
    (fun a => forall b, rstmt_eqb a b = true -> a = b)
    (fun a => forall b, rblock_eqb a b = true -> a = b)
    (fun a => forall b, rels_eqb a b = true -> a = b));
  intros; match goal with |- _ = ?bb => destruct bb end; cbn [rstmt_eqb rblock_eqb rels_eqb] in *; try discriminate; try reflexivity;
  repeat match goal with
  | H : _ && _ = true |- _ => apply andb_prop in H; destruct H
  | H : (_ =? _) = true |- _ => apply Z.eqb_eq in H; subst
  | H : Bool.eqb _ _ = true |- _ => apply Bool.eqb_prop in H; subst
  | H : rexpr_eqb _ _ = true |- _ => apply rexpr_eqb_eq in H; subst
  | H : rcexpr_eqb _ _ = true |- _ => apply rcexpr_eqb_eq in H; subst
  | H : orc_eqb _ _ = true |- _ => apply orc_eqb_eq in H; subst
  | IH : forall b, rblock_eqb ?a b = true -> _, H : rblock_eqb ?a _ = true |- _ => apply IH in H; subst
  | IH : forall b, rstmt_eqb ?a b = true -> _, H : rstmt_eqb ?a _ = true |- _ => apply IH in H; subst
  | IH : forall b, rels_eqb ?a b = true -> _, H : rels_eqb ?a _ = true |- _ => apply IH in H; subst
  end; reflexivity.
Qed.

Lemma idents_eqb_eq a : forall b, idents_eqb a b = true -> a = b.
Proof.
  induction a as [|x r IH]; intros [|y t] H; cbn in H; try discriminate; [reflexivity|].
  apply andb_prop in H. destruct H as [H1 H2]. apply Z.eqb_eq in H1. apply IH in H2. now subst.
Qed.

Lemma rprog_eqb_eq a : forall b, rprog_eqb a b = true -> a = b.
Proof.
  induction a as [|x r IH]; intros [|y t] H; cbn in H; try discriminate; [reflexivity|].
  apply andb_prop in H. destruct H as [H1 H2]. apply IH in H2. subst. f_equal.
  unfold rfn_eqb in H1. destruct x, y; cbn in *.
  apply andb_prop in H1; destruct H1 as [H1 Hb]. apply andb_prop in H1; destruct H1 as [H1 Hr].
  apply andb_prop in H1; destruct H1 as [Hn Hp].
  apply Z.eqb_eq in Hn. apply idents_eqb_eq in Hp. apply Bool.eqb_prop in Hr.
  apply (proj1 (proj2 rstmt_eqb_sound)) in Hb. now subst.
Qed.

Lemma reparses_true fs : reparses fs = true -> parse_items (emit_fns fs) = Some (tree_of_fns fs).
Proof.
  unfold reparses. destruct (parse_items (emit_fns fs)) as [p|]; [|discriminate].
  intros H. apply rprog_eqb_eq in H. now subst.
Qed.

(* ---------------------------------------------------------------- environments *)

Definition names (sc : scopes) : list ident := map fst (concat sc).
Definition dom_ok (sc : scopes) (E : env) : Prop := names sc = map fst E.
(* E' was obtained from E by binding new names in front and updating existing ones *)
Definition ext (E E' : env) : Prop := exists pre, map fst E' = pre ++ map fst E.

Fixpoint inb (x : ident) (l : list ident) : bool :=
  match l with [] => false | y :: r => (x =? y) || inb x r end.

Lemma sclookup_inb x s : (match sclookup x s with Some _ => true | None => false end) = inb x (map fst s).
Proof. induction s as [|[y t] r IH]; cbn; [reflexivity|]. destruct (x =? y); [reflexivity|exact IH]. Qed.

Lemma inb_app x a b : inb x (a ++ b) = inb x a || inb x b.
Proof. induction a as [|y r IH]; cbn; [reflexivity|]. rewrite IH. now rewrite orb_assoc. Qed.

Lemma sexists_inb x sc : sexists x sc = inb x (names sc).
Proof.
  unfold sexists, names. induction sc as [|s r IH]; cbn; [reflexivity|].
  rewrite map_app, inb_app. rewrite <- sclookup_inb.
  destruct (sclookup x s); [reflexivity|]. cbn. exact IH.
Qed.

Lemma bound_inb x E : bound x E = inb x (map fst E).
Proof.
  unfold bound. induction E as [|[y v] r IH]; cbn; [reflexivity|].
  destruct (x =? y); [reflexivity|exact IH].
Qed.

Lemma dom_exists sc E x : dom_ok sc E -> sexists x sc = bound x E.
Proof. intros H. rewrite sexists_inb, bound_inb. now rewrite H. Qed.

Lemma dom_insert sc E x t v : dom_ok sc E -> dom_ok (sinsert x t sc) (ebind x v E).
Proof.
  unfold dom_ok, names, sinsert, ebind. intros H. destruct sc as [|s r]; cbn in *; now rewrite <- H.
Qed.

Lemma eupdate_names x v E : map fst (eupdate x v E) = map fst E.
Proof. induction E as [|[y w] r IH]; cbn; [reflexivity|]. destruct (x =? y); cbn; [reflexivity|now rewrite IH]. Qed.

Lemma dom_update sc E x v : dom_ok sc E -> dom_ok sc (eupdate x v E).
Proof. unfold dom_ok. intros H. now rewrite eupdate_names. Qed.

Lemma dom_push sc E : dom_ok sc E -> dom_ok ([] :: sc) E.
Proof. unfold dom_ok, names. now cbn. Qed.

Lemma dom_push_var sc E x v : dom_ok sc E -> dom_ok ([(x, TyInt)] :: sc) ((x, v) :: E).
Proof. unfold dom_ok, names. cbn. now intros ->. Qed.

Lemma ext_refl E : ext E E.
Proof. now exists []. Qed.

Lemma ext_trans A B C : ext A B -> ext B C -> ext A C.
Proof. intros [p Hp] [q Hq]. exists (q ++ p). rewrite Hq, Hp. now rewrite app_assoc. Qed.

Lemma ext_bind E x v : ext E (ebind x v E).
Proof. now exists [x]. Qed.

Lemma ext_update E x v : ext E (eupdate x v E).
Proof. exists []. now rewrite eupdate_names. Qed.

Lemma ext_cons_inv E x v E' : ext ((x, v) :: E) E' -> ext E E'.
Proof. intros [p Hp]. exists (p ++ [x]). rewrite Hp. cbn. now rewrite <- app_assoc. Qed.

Lemma restore_names E E' : ext E E' -> map fst (restore (length E) E') = map fst E.
Proof.
  intros [p Hp]. unfold restore.
  assert (HL : length E' = (length p + length E)%nat).
  { rewrite <- (map_length fst E'), Hp, app_length, map_length. reflexivity. }
  replace (length E' - length E)%nat with (length p) by lia.
  rewrite <- skipn_map, Hp. rewrite skipn_app, skipn_all, Nat.sub_diag. reflexivity.
Qed.

Lemma ext_restore E E' : ext E E' -> ext E (restore (length E) E').
Proof. intros H. exists []. now rewrite restore_names. Qed.

Lemma dom_restore sc E E' : dom_ok sc E -> ext E E' -> dom_ok sc (restore (length E) E').
Proof. unfold dom_ok. intros H X. now rewrite restore_names. Qed.

Lemma restore_idem n E : restore n (restore n E) = restore n E.
Proof.
  unfold restore at 1.
  assert (H : (length (restore n E) - n = 0)%nat).
  { unfold restore. rewrite skipn_length. lia. }
  now rewrite H.
Qed.

(* ---------------------------------------------------------------- argument lists *)

Lemma pick_map {A B} (h : A -> B) l sel : pick (map h l) sel = option_map (map h) (pick l sel).
Proof.
  induction sel as [|i r IH]; cbn; [reflexivity|].
  rewrite nth_error_map, IH. destruct (nth_error l i); cbn; [|reflexivity].
  destruct (pick l r); reflexivity.
Qed.

Lemma pick_length {A} (l : list A) sel l' : pick l sel = Some l' -> length l' = length sel.
Proof.
  revert l'. induction sel as [|i r IH]; cbn; intros l' H; [now injection H as <-|].
  destruct (nth_error l i); [|discriminate]. destruct (pick l r) as [t|]; [|discriminate].
  injection H as <-. cbn. f_equal. now apply IH.
Qed.

Lemma pick_seq_gen {A} (l pre : list A) : pick (pre ++ l) (seq (length pre) (length l)) = Some l.
Proof.
  revert pre. induction l as [|x r IH]; intros pre; cbn; [reflexivity|].
  rewrite nth_error_app2 by lia. rewrite Nat.sub_diag. cbn.
  replace (pre ++ x :: r) with ((pre ++ [x]) ++ r) by (rewrite <- app_assoc; reflexivity).
  specialize (IH (pre ++ [x])). rewrite app_length in IH. cbn in IH. rewrite Nat.add_1_r in IH.
  now rewrite IH.
Qed.

Lemma pick_seq {A} (l : list A) : pick l (seq 0 (length l)) = Some l.
Proof. exact (pick_seq_gen l []). Qed.

Lemma is_seq_spec l i : is_seq l i = true -> l = seq i (length l).
Proof.
  revert i. induction l as [|x r IH]; intros i H; cbn in *; [reflexivity|].
  apply andb_prop in H. destruct H as [H1 H2]. apply Nat.eqb_eq in H1. subst. f_equal. now apply IH.
Qed.

Lemma select_length ps npos nx kws sel : select ps npos nx kws = Some sel -> length sel = length ps.
Proof.
  revert nx sel. induction ps as [|p r IH]; intros nx sel H; cbn [select] in H; [now injection H as <-|].
  destruct (kw_index p kws npos).
  - destruct (select r npos nx kws) eqn:E; [|discriminate]. injection H as <-. cbn. f_equal. eauto.
  - destruct (nx <? npos)%nat; [|discriminate].
    destruct (select r npos (S nx) kws) eqn:E; [|discriminate]. injection H as <-. cbn. f_equal. eauto.
Qed.

Lemma eval_args_length E l vs : eval_args E l = inl vs -> length vs = length l.
Proof.
  revert vs. induction l as [|e r IH]; cbn; intros vs H; [now injection H as <-|].
  destruct (eval E e); try discriminate. destruct (eval_args E r); [|discriminate].
  injection H as <-. cbn. f_equal. now apply IH.
Qed.

(* pointwise relation between written arguments and their values *)
Lemma eval_args_forall2 E l vs : eval_args E l = inl vs -> Forall2 (fun e v => eval E e = EV v) l vs.
Proof.
  revert vs. induction l as [|e r IH]; cbn; intros vs H; [injection H as <-; constructor|].
  destruct (eval E e) eqn:Ee; try discriminate. destruct (eval_args E r); [|discriminate].
  injection H as <-. constructor; auto.
Qed.

Lemma forall2_nth {A B} (R : A -> B -> Prop) l m i a b :
  Forall2 R l m -> nth_error l i = Some a -> nth_error m i = Some b -> R a b.
Proof.
  intros H. revert i. induction H; intros [|i] Ha Hb; cbn in *; try discriminate.
  - injection Ha as <-. injection Hb as <-. assumption.
  - eauto.
Qed.

Lemma forall2_pick {A B} (R : A -> B -> Prop) l m sel l' m' :
  Forall2 R l m -> pick l sel = Some l' -> pick m sel = Some m' -> Forall2 R l' m'.
Proof.
  intros H. revert l' m'. induction sel as [|i r IH]; cbn; intros l' m' Hl Hm.
  - injection Hl as <-. injection Hm as <-. constructor.
  - destruct (nth_error l i) eqn:E1; [|discriminate]. destruct (pick l r); [|discriminate].
    destruct (nth_error m i) eqn:E2; [|discriminate]. destruct (pick m r); [|discriminate].
    injection Hl as <-. injection Hm as <-. constructor; [eapply forall2_nth; eauto|auto].
Qed.

Lemma pick_some_of_length {A B} (l : list A) (m : list B) sel l' :
  length l = length m -> pick l sel = Some l' -> exists m', pick m sel = Some m'.
Proof.
  intros HL. revert l'. induction sel as [|i r IH]; cbn; intros l' H; [eauto|].
  destruct (nth_error l i) eqn:E1; [|discriminate]. destruct (pick l r) eqn:E2; [|discriminate].
  destruct (IH _ eq_refl) as [m' Hm']. rewrite Hm'.
  assert (i < length m)%nat by (rewrite <- HL; apply nth_error_Some; congruence).
  destruct (nth_error m i) eqn:E3; [eauto|]. apply nth_error_None in E3. lia.
Qed.

(* ---------------------------------------------------------------- reaching a result on the Rust side *)

Definition okg (g : sig) : Prop := g <> Halt OutOfFuel /\ g <> Halt Unspec /\ g <> Halt Stuck.
Definition okc (r : cres) : Prop := r <> CHalt OutOfFuel /\ r <> CHalt Unspec /\ r <> CHalt Stuck.

Lemma okg_halt r : okg (Halt (stop_of r)) -> defined r /\ (forall v, r <> EV v).
Proof.
  intros (H1 & H2 & H3). destruct r; cbn in *; try congruence.
  split; [split; congruence | intros; congruence].
Qed.

(* what the source evaluation of an expression implies for the denoted Rust term *)
Lemma sem_val sc E e v : eval E e = EV v -> reval E (tree_of (lower_expr sc e)) = RV v.
Proof. intros H. rewrite tree_sem; rewrite H; [reflexivity|split; congruence]. Qed.

Lemma sem_zd sc E e : eval E e = EZeroDiv -> reval E (tree_of (lower_expr sc e)) = RZeroDiv.
Proof. intros H. rewrite tree_sem; rewrite H; [reflexivity|split; congruence]. Qed.

Lemma true_lit_eval sc c E : is_true_lit (lower_expr sc c) = true -> eval E c = EV (VB true).
Proof.
  induction c; cbn; intros H; try discriminate H.
  - destruct b; [reflexivity|discriminate H].
  - now apply IHc.
Qed.

Lemma range_done_refl z s : range_done z z s = true.
Proof. unfold range_done. destruct (0 <? s); apply Z.leb_refl. Qed.

Lemma okg_go : okg Go. Proof. repeat split; discriminate. Qed.

(* written arguments in written order: same values, or the same ZeroDivisionError *)
Lemma args_same_order sc E l :
  match eval_args E l with
  | inl vs => reval_args E (map (fun e => tree_of (lower_expr sc e)) l) = inl vs
  | inr EZeroDiv => reval_args E (map (fun e => tree_of (lower_expr sc e)) l) = inr RZeroDiv
  | inr _ => True
  end.
Proof.
  induction l as [|e r IH]; cbn; [reflexivity|].
  destruct (eval E e) as [v| | |] eqn:Ee; try exact I.
  - rewrite (sem_val sc E e v Ee). destruct (eval_args E r) as [vs|[| | |]]; try exact I; now rewrite IH.
  - now rewrite (sem_zd sc E e Ee).
Qed.

Lemma args_values sc E l vs :
  Forall2 (fun e v => eval E e = EV v) l vs ->
  reval_args E (map (fun e => tree_of (lower_expr sc e)) l) = inl vs.
Proof.
  induction 1; cbn; [reflexivity|]. rewrite (sem_val sc E x y H). now rewrite IHForall2.
Qed.

Lemma atoms_no_zd E l : forallb atom l = true -> eval_args E l <> inr EZeroDiv.
Proof.
  induction l as [|e r IH]; cbn; intros H; [discriminate|].
  apply andb_prop in H. destruct H as [Ha Hr].
  destruct e; try discriminate Ha; cbn [eval].
  - unfold chk. destruct (in_i64b n); [|discriminate].
    destruct (eval_args E r) as [|x] eqn:Er; [discriminate|]. intros [= ->]. now apply IH.
  - destruct (eval_args E r) as [|x] eqn:Er; [discriminate|]. intros [= ->]. now apply IH.
  - destruct (lookup x E) as [[z|b]|]; [| |discriminate].
    + unfold chk. destruct (in_i64b z); [|discriminate].
      destruct (eval_args E r) as [|y] eqn:Er; [discriminate|]. intros [= ->]. now apply IH.
    + destruct (eval_args E r) as [|y] eqn:Er; [discriminate|]. intros [= ->]. now apply IH.
Qed.

Lemma combine_names (ps : list ident) (vs : list val) : length ps = length vs -> map fst (combine ps vs) = ps.
Proof.
  revert vs. induction ps as [|p r IH]; intros [|v vs] H; cbn in *; try discriminate; [reflexivity|].
  f_equal. apply IH. lia.
Qed.

Lemma init_dom ps vs : length ps = length vs -> dom_ok (init_scopes ps) (combine ps vs).
Proof.
  intros H. unfold dom_ok, names, init_scopes. cbn. rewrite app_nil_r, map_map. cbn.
  rewrite map_id. symmetry. now apply combine_names.
Qed.

Section Sim.
Variable P : prog.
Variable RP : rprog.
(* every source function was lowered (with some state of mutable_vars) and its denoted item is in
   the Rust program under the same name *)
Hypothesis Htab : forall f d, find_fn f P = Some d ->
  exists ib mv sc' mv',
    lower_block P (init_scopes (fparams d)) mv (fbody d) = LOk (ib, sc', mv') /\
    find_rfn f RP = Some {| rname := fname d; rparams := fparams d; rret := fret d; rbody := tree_of_block ib |} /\
    calls_wf_block P (fbody d) = true.

Definition reach_s (E : env) (s : rstmt) (r : xres) : Prop :=
  exists F, forall F', (F <= F')%nat -> rexec_stmt RP F' E s = r.
Definition reach_b (E : env) (b : rblock) (r : xres) : Prop :=
  exists F, forall F', (F <= F')%nat -> rexec_block RP F' E b = r.
Definition reach_r (E : env) (x : ident) (cur stp step : Z) (b : rblock) (r : xres) : Prop :=
  exists F, forall F', (F <= F')%nat -> rexec_range RP F' E x cur stp step b = r.
Definition reach_c (E : env) (c : rcexpr) (r : list line * cres) : Prop :=
  exists F, forall F', (F <= F')%nat -> rcev_with (rcall RP F' E) E c = r.

(* the else part of an `if` whose condition was false *)
Definition relse (F : nat) (E : env) (el : rels) : xres :=
  match el with
  | GNoElse => ([], E, Go)
  | GElse b => in_scope (length E) (rexec_block RP F E b)
  end.
Definition reach_e (E : env) (el : rels) (r : xres) : Prop :=
  exists F, forall F', (F <= F')%nat -> relse F' E el = r.

Definition tels (el : iels) : rels :=
  match el with GNoElse => GNoElse | GElse b => GElse (tree_of_block b) end.

Ltac fuelS F' := destruct F' as [|F']; [lia|].

(* unfolding equations (cbn would expose the partially applied mutual fixpoints) *)
Lemma exec_assign f E k x a c : exec_stmt P (S f) E (SAssign k x a c) =
  match cev_with (call P f E) E c with
  | (o, CV (Some v)) =>
      match k with
      | BInferred => if bound x E then (o, eupdate x v E, Go) else (o, ebind x v E, Go)
      | _ => (o, ebind x v E, Go)
      end
  | (o, CV None) => (o, E, Halt Stuck)
  | (o, CHalt k0) => (o, E, Halt k0)
  end.
Proof. reflexivity. Qed.
Lemma exec_print f E c : exec_stmt P (S f) E (SPrint c) =
  match cev_with (call P f E) E c with
  | (o, CV (Some v)) => (o ++ [line_of v], E, Go)
  | (o, CV None) => (o, E, Halt Stuck)
  | (o, CHalt k0) => (o, E, Halt k0)
  end.
Proof. reflexivity. Qed.
Lemma exec_sexpr f E c : exec_stmt P (S f) E (SExpr c) =
  match cev_with (call P f E) E c with
  | (o, CV _) => (o, E, Go)
  | (o, CHalt k0) => (o, E, Halt k0)
  end.
Proof. reflexivity. Qed.
Lemma exec_ret f E c : exec_stmt P (S f) E (SReturn (Some c)) =
  match cev_with (call P f E) E c with
  | (o, CV (Some v)) => (o, E, Ret (Some v))
  | (o, CV None) => (o, E, Halt Stuck)
  | (o, CHalt k0) => (o, E, Halt k0)
  end.
Proof. reflexivity. Qed.
Lemma rexec_let F E x m c : rexec_stmt RP (S F) E (GLet x m c) =
  match rcev_with (rcall RP F E) E c with
  | (o, CV (Some v)) => (o, ebind x v E, Go)
  | (o, CV None) => (o, E, Halt Stuck)
  | (o, CHalt k) => (o, E, Halt k)
  end.
Proof. reflexivity. Qed.
Lemma rexec_assign F E x c : rexec_stmt RP (S F) E (GAssign x c) =
  match rcev_with (rcall RP F E) E c with
  | (o, CV (Some v)) => if bound x E then (o, eupdate x v E, Go) else (o, E, Halt Stuck)
  | (o, CV None) => (o, E, Halt Stuck)
  | (o, CHalt k) => (o, E, Halt k)
  end.
Proof. reflexivity. Qed.
Lemma rexec_print F E c : rexec_stmt RP (S F) E (GPrint c) =
  match rcev_with (rcall RP F E) E c with
  | (o, CV (Some v)) => (o ++ [line_of v], E, Go)
  | (o, CV None) => (o, E, Halt Stuck)
  | (o, CHalt k) => (o, E, Halt k)
  end.
Proof. reflexivity. Qed.
Lemma rexec_expr F E c : rexec_stmt RP (S F) E (GExpr c) =
  match rcev_with (rcall RP F E) E c with
  | (o, CV _) => (o, E, Go)
  | (o, CHalt k) => (o, E, Halt k)
  end.
Proof. reflexivity. Qed.
Lemma rexec_ret F E c : rexec_stmt RP (S F) E (GReturn (Some c)) =
  match rcev_with (rcall RP F E) E c with
  | (o, CV (Some v)) => (o, E, Ret (Some v))
  | (o, CV None) => (o, E, Halt Stuck)
  | (o, CHalt k) => (o, E, Halt k)
  end.
Proof. reflexivity. Qed.
Ltac runf := cbn [tree_of_stmt];
  first [rewrite rexec_let | rewrite rexec_assign | rewrite rexec_print | rewrite rexec_expr | rewrite rexec_ret].

Lemma reach_nil E : reach_b E GNil ([], E, Go).
Proof. exists 1%nat. intros F' H. fuelS F'. reflexivity. Qed.

Lemma reach_cons_go E s r o1 E1 o2 E2 g2 :
  reach_s E s (o1, E1, Go) -> reach_b E1 r (o2, E2, g2) -> reach_b E (GCons s r) (o1 ++ o2, E2, g2).
Proof.
  intros [F1 H1] [F2 H2]. exists (S (Nat.max F1 F2)). intros F' H. fuelS F'.
  cbn [rexec_block]. rewrite H1 by lia. cbn [xseq]. rewrite H2 by lia. reflexivity.
Qed.

Lemma reach_cons_stop E s r o1 E1 g1 :
  g1 <> Go -> reach_s E s (o1, E1, g1) -> reach_b E (GCons s r) (o1, E1, g1).
Proof.
  intros Hg [F1 H1]. exists (S F1). intros F' H. fuelS F'.
  cbn [rexec_block]. rewrite H1 by lia. cbn [xseq]. destruct g1; congruence.
Qed.

(* ---------------------------------------------------------------- the simulation *)

Definition SimS (f : nat) : Prop := forall E s sc mv s' sc' mv' o E' g,
  exec_stmt P f E s = (o, E', g) -> okg g -> lower_stmt P sc mv s = LOk (s', sc', mv') -> dom_ok sc E ->
  calls_wf_stmt P s = true ->
  reach_s E (tree_of_stmt s') (o, E', g) /\ ext E E' /\ (g = Go -> dom_ok sc' E').

Definition SimB (f : nat) : Prop := forall E b sc mv b' sc' mv' o E' g,
  exec_block P f E b = (o, E', g) -> okg g -> lower_block P sc mv b = LOk (b', sc', mv') -> dom_ok sc E ->
  calls_wf_block P b = true ->
  reach_b E (tree_of_block b') (o, E', g) /\ ext E E' /\ (g = Go -> dom_ok sc' E').

Definition SimE (f : nat) : Prop := forall E el sc mv el' mv' o E' g,
  exec_els P f E el = (o, E', g) -> okg g -> lower_els P sc mv el = LOk (el', mv') -> dom_ok sc E ->
  calls_wf_els P el = true ->
  reach_e E (tels el') (o, E', g) /\ ext E E' /\ dom_ok sc E'.

Definition SimR (f : nat) : Prop := forall E x cur stp step b sc mv b' sc' mv' o E' g,
  exec_range P f E x cur stp step b = (o, E', g) -> okg g ->
  lower_block P ([(x, TyInt)] :: sc) mv b = LOk (b', sc', mv') -> dom_ok sc E ->
  calls_wf_block P b = true ->
  reach_r E x cur stp step (tree_of_block b') (o, E', g) /\ ext E E' /\ dom_ok sc E'.

(* calls: the emitted call (arguments in declaration order) reaches the result of the source call
   (arguments evaluated in written order, bound by name) *)
Definition SimC (f : nat) : Prop := forall E sc fn pos kw o r,
  call P f E fn pos kw = (o, r) -> okc r -> call_wf P (CCall fn pos kw) = true ->
  reach_c E (tree_of_c (lower_c P sc (CCall fn pos kw))) (o, r).

(* a call-level expression at a statement position *)
Lemma cev_sim f E sc c o r :
  SimC f -> cev_with (call P f E) E c = (o, r) -> okc r -> call_wf P c = true ->
  reach_c E (tree_of_c (lower_c P sc c)) (o, r).
Proof.
  intros IH Hx Hk Hw. destruct c as [e|fn pos kw].
  - cbn [cev_with] in Hx. exists O. intros F' _. cbn [lower_c tree_of_c rcev_with].
    destruct (eval E e) as [v| | |] eqn:Ee; injection Hx as <- <-.
    + now rewrite (sem_val sc E e v Ee).
    + now rewrite (sem_zd sc E e Ee).
    + destruct Hk as (_ & H & _). cbn in H. congruence.
    + destruct Hk as (_ & _ & H). cbn in H. congruence.
  - cbn [cev_with] in Hx. eapply IH; eauto.
Qed.

(* a block run in its own scope, on both sides *)
Lemma scoped_block f E b sc0 mv b' sc' mv' o E' g :
  SimB f -> in_scope (length E) (exec_block P f E b) = (o, E', g) -> okg g ->
  lower_block P sc0 mv b = LOk (b', sc', mv') -> dom_ok sc0 E -> calls_wf_block P b = true ->
  (exists F, forall F', (F <= F')%nat -> in_scope (length E) (rexec_block RP F' E (tree_of_block b')) = (o, E', g)) /\
  ext E E' /\ (forall sc, dom_ok sc E -> dom_ok sc E').
Proof.
  intros IH Hx Hk Hl Hd Hw.
  destruct (exec_block P f E b) as [[o1 E1] g1] eqn:Hb. cbn [in_scope] in Hx. injection Hx as <- <- <-.
  destruct (IH _ _ _ _ _ _ _ _ _ _ Hb Hk Hl Hd Hw) as ([F HF] & Hext & _).
  split; [|split].
  - exists F. intros F' HF'. rewrite HF by lia. reflexivity.
  - now apply ext_restore.
  - intros sc Hsc. now apply dom_restore.
Qed.

Ltac bad_halt Hx Hk :=
  injection Hx as <- <- <-;
  first [ destruct Hk as (_ & H & _); cbn in H; congruence | destruct Hk as (_ & _ & H); cbn in H; congruence ].

Lemma sim_step f :
  SimS f /\ SimB f /\ SimE f /\ SimR f /\ SimC f ->
  SimS (S f) /\ SimB (S f) /\ SimE (S f) /\ SimR (S f) /\ SimC (S f).
Proof.
  intros (IHS & IHB & IHE & IHR & IHC). split; [|split; [|split; [|split]]].
  - (* statements *)
    unfold SimS. intros E s sc mv s' sc' mv' o E' g Hx Hk Hl Hd Hw.
    destruct s as [k x ann c|co x e|c th el|c b|x r b|c|c|[c|]| | |];
      first [rewrite exec_assign in Hx | rewrite exec_print in Hx | rewrite exec_sexpr in Hx | rewrite exec_ret in Hx
            | cbn [exec_stmt] in Hx];
      cbn [lower_stmt] in Hl; cbn [calls_wf_stmt] in Hw.
    + (* assignment *)
      destruct (cev_with (call P f E) E c) as [oc rc] eqn:Hc. cbv beta iota in Hx.
      assert (Hkc : okc rc).
      { destruct rc as [[v|]|k0]; cbv beta iota in Hx; try (repeat split; discriminate).
        destruct k; injection Hx as <- <- <-; destruct Hk as (H1 & H2 & H3); repeat split; congruence. }
      destruct (cev_sim f E sc c oc rc IHC Hc Hkc Hw) as [F HF].
      destruct rc as [[v|]|k0]; cbv beta iota in Hx.
      * destruct k.
        -- rewrite (dom_exists sc E x Hd) in Hl.
           destruct (bound x E) eqn:Hb.
           ++ destruct (mem x mv); [|discriminate]. injection Hl as <- <- <-. injection Hx as <- <- <-.
              split; [|split; [apply ext_update | intros _; now apply dom_update]].
              exists (S F). intros F' HF'. fuelS F'. runf. rewrite HF by lia. now rewrite Hb.
           ++ injection Hl as <- <- <-. injection Hx as <- <- <-.
              split; [|split; [apply ext_bind | intros _; now apply dom_insert]].
              exists (S F). intros F' HF'. fuelS F'. runf. now rewrite HF by lia.
        -- injection Hl as <- <- <-. injection Hx as <- <- <-.
           split; [|split; [apply ext_bind | intros _; now apply dom_insert]].
           exists (S F). intros F' HF'. fuelS F'. runf. now rewrite HF by lia.
        -- injection Hl as <- <- <-. injection Hx as <- <- <-.
           split; [|split; [apply ext_bind | intros _; now apply dom_insert]].
           exists (S F). intros F' HF'. fuelS F'. runf. now rewrite HF by lia.
      * injection Hx as <- <- <-. destruct Hk as (_ & _ & H). congruence.
      * injection Hx as <- <- <-.
        split; [|split; [apply ext_refl | discriminate]].
        exists (S F). intros F' HF'. fuelS F'.
        destruct k; [destruct (sexists x sc); [destruct (mem x mv); [|discriminate]|]|..];
        injection Hl as <- <- <-; runf; now rewrite HF by lia.
    + (* compound assignment *)
      injection Hl as <- <- <-.
      change (IBin (binop_of_cop co) (var_ty x sc) (cty sc e) (IVar x) (lower_expr sc e))
        with (lower_expr sc (EBin (binop_of_cop co) (EVar x) e)).
      set (ee := EBin (binop_of_cop co) (EVar x) e) in *.
      destruct (eval E ee) as [v| | |] eqn:Ev.
      * injection Hx as <- <- <-.
        assert (Hb : bound x E = true).
        { unfold bound. subst ee. cbn [eval] in Ev.
          destruct (lookup x E); [reflexivity|]. destruct (binop_of_cop co); discriminate. }
        split; [|split; [apply ext_update | intros _; now apply dom_update]].
        exists 1%nat. intros F' HF. fuelS F'. runf. cbn [tree_of_c rcev_with].
        rewrite (sem_val sc E ee v Ev), Hb. reflexivity.
      * injection Hx as <- <- <-.
        split; [|split; [apply ext_refl | discriminate]].
        exists 1%nat. intros F' HF. fuelS F'. runf. cbn [tree_of_c rcev_with].
        rewrite (sem_zd sc E ee Ev). reflexivity.
      * bad_halt Hx Hk.
      * bad_halt Hx Hk.
    + (* if *)
      apply andb_prop in Hw. destruct Hw as [Hwt Hwe].
      destruct (lower_els P sc mv el) as [[el' mv1]|] eqn:Hle; [|discriminate].
      destruct (lower_block P ([] :: sc) mv1 th) as [[[th' sct] mv2]|] eqn:Hlt; [|discriminate].
      injection Hl as <- <- <-.
      destruct (eval E c) as [[z|[|]]| | |] eqn:Ec.
      * bad_halt Hx Hk.
      * destruct (scoped_block f E th ([] :: sc) mv1 th' sct mv2 o E' g IHB Hx Hk Hlt (dom_push _ _ Hd) Hwt)
          as ([F HF] & Hext & Hdom).
        split; [|split; [exact Hext | intros _; now apply Hdom]].
        exists (S F). intros F' HF'. fuelS F'. cbn [tree_of_stmt rexec_stmt].
        rewrite (sem_val sc E c _ Ec). rewrite HF by lia. reflexivity.
      * destruct (IHE _ _ _ _ _ _ _ _ _ Hx Hk Hle Hd Hwe) as ([F HF] & Hext & Hdom).
        split; [|split; [exact Hext | intros _; exact Hdom]].
        exists (S F). intros F' HF'. fuelS F'. cbn [tree_of_stmt rexec_stmt].
        rewrite (sem_val sc E c _ Ec). specialize (HF F' ltac:(lia)).
        destruct el'; cbn [tels relse] in HF; exact HF.
      * injection Hx as <- <- <-.
        split; [|split; [apply ext_refl | discriminate]].
        exists 1%nat. intros F' HF. fuelS F'. cbn [tree_of_stmt rexec_stmt]. rewrite (sem_zd sc E c Ec). reflexivity.
      * bad_halt Hx Hk.
      * bad_halt Hx Hk.
    + (* while *)
      destruct (lower_block P ([] :: sc) mv b) as [[[b' scb] mv1]|] eqn:Hlb; [|discriminate].
      injection Hl as <- <- <-.
      assert (Hlw : lower_stmt P sc mv (SWhile c b) = LOk (GWhile (lower_expr ([] :: sc) c) b', sc, mv1)).
      { cbn [lower_stmt]. now rewrite Hlb. }
      destruct (eval E c) as [[z|[|]]| | |] eqn:Ec.
      * bad_halt Hx Hk.
      * (* condition true: run the body, then maybe again *)
        destruct (in_scope (length E) (exec_block P f E b)) as [[o1 E1] g1] eqn:Hb.
        assert (Hk1 : okg g1).
        { destruct g1 as [| | |rv|k1]; try (repeat split; discriminate).
          injection Hx as <- <- <-. exact Hk. }
        destruct (scoped_block f E b ([] :: sc) mv b' scb mv1 o1 E1 g1 IHB Hb Hk1 Hlb (dom_push _ _ Hd) Hw)
          as ([F HF] & Hext & Hdom).
        assert (Hcont : forall o2 E2 g2, exec_stmt P f E1 (SWhile c b) = (o2, E2, g2) -> okg g2 ->
                  reach_s E1 (tree_of_stmt (GWhile (lower_expr ([] :: sc) c) b')) (o2, E2, g2) /\ ext E1 E2 /\ (g2 = Go -> dom_ok sc E2)).
        { intros o2 E2 g2 H2 Hk2. exact (IHS _ _ _ _ _ _ _ _ _ _ H2 Hk2 Hlw (Hdom _ Hd) Hw). }
        assert (Hc : is_true_lit (lower_expr ([] :: sc) c) = false ->
                     reval E (tree_of (lower_expr ([] :: sc) c)) = RV (VB true)) by (intros _; now apply sem_val).
        destruct g1 as [| | |rv|k1].
        -- destruct (exec_stmt P f E1 (SWhile c b)) as [[o2 E2] g2] eqn:H2. injection Hx as <- <- <-.
           destruct (Hcont _ _ _ eq_refl Hk) as ([F2 HF2] & Hext2 & Hdom2).
           split; [|split; [eapply ext_trans; eauto | exact Hdom2]].
           exists (S (Nat.max F F2)). intros F' HF'. fuelS F'.
           cbn [tree_of_stmt] in *. destruct (is_true_lit (lower_expr ([] :: sc) c)) eqn:Htl;
           cbn [rexec_stmt]; rewrite ?Hc by reflexivity; rewrite HF by lia; rewrite HF2 by lia; reflexivity.
        -- injection Hx as <- <- <-.
           split; [|split; [exact Hext | intros _; now apply Hdom]].
           exists (S F). intros F' HF'. fuelS F'.
           cbn [tree_of_stmt]. destruct (is_true_lit (lower_expr ([] :: sc) c)) eqn:Htl;
           cbn [rexec_stmt]; rewrite ?Hc by reflexivity; rewrite HF by lia; reflexivity.
        -- destruct (exec_stmt P f E1 (SWhile c b)) as [[o2 E2] g2] eqn:H2. injection Hx as <- <- <-.
           destruct (Hcont _ _ _ eq_refl Hk) as ([F2 HF2] & Hext2 & Hdom2).
           split; [|split; [eapply ext_trans; eauto | exact Hdom2]].
           exists (S (Nat.max F F2)). intros F' HF'. fuelS F'.
           cbn [tree_of_stmt] in *. destruct (is_true_lit (lower_expr ([] :: sc) c)) eqn:Htl;
           cbn [rexec_stmt]; rewrite ?Hc by reflexivity; rewrite HF by lia; rewrite HF2 by lia; reflexivity.
        -- injection Hx as <- <- <-.
           split; [|split; [exact Hext | discriminate]].
           exists (S F). intros F' HF'. fuelS F'.
           cbn [tree_of_stmt]. destruct (is_true_lit (lower_expr ([] :: sc) c)) eqn:Htl;
           cbn [rexec_stmt]; rewrite ?Hc by reflexivity; rewrite HF by lia; reflexivity.
        -- injection Hx as <- <- <-.
           split; [|split; [exact Hext | discriminate]].
           exists (S F). intros F' HF'. fuelS F'.
           cbn [tree_of_stmt]. destruct (is_true_lit (lower_expr ([] :: sc) c)) eqn:Htl;
           cbn [rexec_stmt]; rewrite ?Hc by reflexivity; rewrite HF by lia; reflexivity.
      * (* condition false *)
        injection Hx as <- <- <-.
        destruct (is_true_lit (lower_expr ([] :: sc) c)) eqn:Htl.
        { rewrite (true_lit_eval _ _ E Htl) in Ec. discriminate. }
        split; [|split; [apply ext_refl | intros _; exact Hd]].
        exists 1%nat. intros F' HF'. fuelS F'. cbn [tree_of_stmt]. rewrite Htl. cbn [rexec_stmt].
        rewrite (sem_val _ E c _ Ec). reflexivity.
      * injection Hx as <- <- <-.
        destruct (is_true_lit (lower_expr ([] :: sc) c)) eqn:Htl.
        { rewrite (true_lit_eval _ _ E Htl) in Ec. discriminate. }
        split; [|split; [apply ext_refl | discriminate]].
        exists 1%nat. intros F' HF. fuelS F'. cbn [tree_of_stmt]. rewrite Htl. cbn [rexec_stmt].
        rewrite (sem_zd _ E c Ec). reflexivity.
      * bad_halt Hx Hk.
      * bad_halt Hx Hk.
    + (* for x in range(...) *)
      destruct (lower_rargs sc r) as [[ia iz] ist] eqn:Hlr.
      destruct (lower_block P ([(x, TyInt)] :: sc) mv b) as [[[b' scb] mv1]|] eqn:Hlb; [|discriminate].
      injection Hl as <- <- <-.
      assert (Hargs : exists ea ez es,
                eval_rargs E r = (eval E ea, eval E ez, eval E es) /\
                tree_of ia = tree_of (lower_expr sc ea) /\ tree_of iz = tree_of (lower_expr sc ez) /\
                (tree_of ist = tree_of (lower_expr sc es) \/ tree_of ist = RCast (tree_of (lower_expr sc es)))).
      { destruct r as [e1|e1 e2|e1 e2 e3]; cbn [lower_rargs] in Hlr; injection Hlr as <- <- <-; cbn [eval_rargs].
        - exists (EInt 0), e1, (EInt 1). repeat split; auto.
        - exists e1, e2, (EInt 1). repeat split; auto.
        - exists e1, e2, e3. repeat split; auto. }
      destruct Hargs as (ea & ez & es & Hev & Ha & Hz & Hs). rewrite Hev in Hx.
      assert (Hcast : forall v, eval E es = EV (VI v) -> reval E (tree_of ist) = RV (VI v)).
      { intros v Hv. destruct Hs as [-> | ->]; [now apply sem_val|]. cbn [reval]. now rewrite (sem_val sc E es _ Hv). }
      assert (Hcasth : forall r0, reval E (tree_of (lower_expr sc es)) = r0 -> (forall v, r0 <> RV v) -> reval E (tree_of ist) = r0).
      { intros r0 Hr0 Hn. destruct Hs as [-> | ->]; [exact Hr0|]. cbn [reval]. rewrite Hr0.
        destruct r0 as [v| | |]; [exfalso; eapply Hn; eauto|reflexivity..]. }
      destruct (eval E ea) as [[va|?]| | |] eqn:Ea.
      * destruct (eval E ez) as [[vz|?]| | |] eqn:Ez.
        -- destruct (eval E es) as [[vs|?]| | |] eqn:Es.
           ++ destruct (vs =? 0) eqn:Hz0.
              ** injection Hx as <- <- <-.
                 split; [|split; [apply ext_refl | discriminate]].
                 exists 1%nat. intros F' HF. fuelS F'. cbn [tree_of_stmt rexec_stmt].
                 rewrite Ha, Hz, (sem_val sc E ea _ Ea), (sem_val sc E ez _ Ez), (Hcast _ eq_refl), Hz0. reflexivity.
              ** destruct (IHR _ _ _ _ _ _ _ _ _ _ _ _ _ _ Hx Hk Hlb Hd Hw) as ([F HF] & Hext & Hdom).
                 split; [|split; [exact Hext | intros _; exact Hdom]].
                 exists (S F). intros F' HF'. fuelS F'. cbn [tree_of_stmt rexec_stmt].
                 rewrite Ha, Hz, (sem_val sc E ea _ Ea), (sem_val sc E ez _ Ez), (Hcast _ eq_refl), Hz0.
                 now apply HF; lia.
           ++ bad_halt Hx Hk.
           ++ injection Hx as <- <- <-.
              split; [|split; [apply ext_refl | discriminate]].
              exists 1%nat. intros F' HF. fuelS F'. cbn [tree_of_stmt rexec_stmt].
              rewrite Ha, Hz, (sem_val sc E ea _ Ea), (sem_val sc E ez _ Ez).
              rewrite (Hcasth RZeroDiv); [reflexivity| |discriminate]. now apply sem_zd.
           ++ bad_halt Hx Hk.
           ++ bad_halt Hx Hk.
        -- bad_halt Hx Hk.
        -- injection Hx as <- <- <-.
           split; [|split; [apply ext_refl | discriminate]].
           exists 1%nat. intros F' HF. fuelS F'. cbn [tree_of_stmt rexec_stmt].
           rewrite Ha, Hz, (sem_val sc E ea _ Ea), (sem_zd sc E ez Ez). reflexivity.
        -- bad_halt Hx Hk.
        -- bad_halt Hx Hk.
      * bad_halt Hx Hk.
      * injection Hx as <- <- <-.
        split; [|split; [apply ext_refl | discriminate]].
        exists 1%nat. intros F' HF. fuelS F'. cbn [tree_of_stmt rexec_stmt].
        rewrite Ha, (sem_zd sc E ea Ea). reflexivity.
      * bad_halt Hx Hk.
      * bad_halt Hx Hk.
    + (* println *)
      injection Hl as <- <- <-.
      destruct (cev_with (call P f E) E c) as [oc rc] eqn:Hc. cbv beta iota in Hx.
      assert (Hkc : okc rc).
      { destruct rc as [[v|]|k0]; cbv beta iota in Hx; try (repeat split; discriminate).
        injection Hx as <- <- <-; destruct Hk as (H1 & H2 & H3); repeat split; congruence. }
      destruct (cev_sim f E sc c oc rc IHC Hc Hkc Hw) as [F HF].
      destruct rc as [[v|]|k0]; cbv beta iota in Hx; injection Hx as <- <- <-.
      * split; [|split; [apply ext_refl | intros _; exact Hd]].
        exists (S F). intros F' HF'. fuelS F'. runf. now rewrite HF by lia.
      * destruct Hk as (_ & _ & H). congruence.
      * split; [|split; [apply ext_refl | discriminate]].
        exists (S F). intros F' HF'. fuelS F'. runf. now rewrite HF by lia.
    + (* expression statement *)
      injection Hl as <- <- <-.
      destruct (cev_with (call P f E) E c) as [oc rc] eqn:Hc. cbv beta iota in Hx.
      assert (Hkc : okc rc).
      { destruct rc as [v|k0]; cbv beta iota in Hx; try (repeat split; discriminate).
        injection Hx as <- <- <-; destruct Hk as (H1 & H2 & H3); repeat split; congruence. }
      destruct (cev_sim f E sc c oc rc IHC Hc Hkc Hw) as [F HF].
      destruct rc as [v|k0]; cbv beta iota in Hx; injection Hx as <- <- <-.
      * split; [|split; [apply ext_refl | intros _; exact Hd]].
        exists (S F). intros F' HF'. fuelS F'. runf. now rewrite HF by lia.
      * split; [|split; [apply ext_refl | discriminate]].
        exists (S F). intros F' HF'. fuelS F'. runf. now rewrite HF by lia.
    + (* return e *)
      injection Hl as <- <- <-.
      destruct (cev_with (call P f E) E c) as [oc rc] eqn:Hc. cbv beta iota in Hx.
      assert (Hkc : okc rc).
      { destruct rc as [[v|]|k0]; cbv beta iota in Hx; try (repeat split; discriminate).
        injection Hx as <- <- <-; destruct Hk as (H1 & H2 & H3); repeat split; congruence. }
      destruct (cev_sim f E sc c oc rc IHC Hc Hkc Hw) as [F HF].
      destruct rc as [[v|]|k0]; cbv beta iota in Hx; injection Hx as <- <- <-.
      * split; [|split; [apply ext_refl | discriminate]].
        exists (S F). intros F' HF'. fuelS F'. runf. now rewrite HF by lia.
      * destruct Hk as (_ & _ & H). congruence.
      * split; [|split; [apply ext_refl | discriminate]].
        exists (S F). intros F' HF'. fuelS F'. runf. now rewrite HF by lia.
    + (* return *)
      injection Hl as <- <- <-. injection Hx as <- <- <-.
      split; [|split; [apply ext_refl | discriminate]].
      exists 1%nat. intros F' HF. fuelS F'. reflexivity.
    + injection Hl as <- <- <-. injection Hx as <- <- <-.
      split; [|split; [apply ext_refl | intros _; exact Hd]].
      exists 1%nat. intros F' HF. fuelS F'. reflexivity.
    + injection Hl as <- <- <-. injection Hx as <- <- <-.
      split; [|split; [apply ext_refl | discriminate]].
      exists 1%nat. intros F' HF. fuelS F'. reflexivity.
    + injection Hl as <- <- <-. injection Hx as <- <- <-.
      split; [|split; [apply ext_refl | discriminate]].
      exists 1%nat. intros F' HF. fuelS F'. reflexivity.
  - (* blocks *)
    unfold SimB. intros E b sc mv b' sc' mv' o E' g Hx Hk Hl Hd Hw.
    destruct b as [|s r]; cbn [exec_block] in Hx; cbn [lower_block] in Hl.
    + injection Hl as <- <- <-. injection Hx as <- <- <-.
      split; [apply reach_nil | split; [apply ext_refl | intros _; exact Hd]].
    + cbn [calls_wf_block] in Hw. apply andb_prop in Hw. destruct Hw as [Hws Hwr].
      destruct (lower_stmt P sc mv s) as [[[s1 sc1] mv1]|] eqn:Hls; [|discriminate].
      destruct (lower_block P sc1 mv1 r) as [[[r1 sc2] mv2]|] eqn:Hlr; [|discriminate].
      injection Hl as <- <- <-.
      destruct (exec_stmt P f E s) as [[o1 E1] g1] eqn:Hs. cbn [xseq] in Hx.
      destruct g1 as [| | |rv|k1].
      * destruct (exec_block P f E1 r) as [[o2 E2] g2] eqn:Hr. injection Hx as <- <- <-.
        destruct (IHS _ _ _ _ _ _ _ _ _ _ Hs okg_go Hls Hd Hws) as (R1 & X1 & D1).
        destruct (IHB _ _ _ _ _ _ _ _ _ _ Hr Hk Hlr (D1 eq_refl) Hwr) as (R2 & X2 & D2).
        split; [|split; [eapply ext_trans; eauto | exact D2]].
        cbn [tree_of_block]. eapply reach_cons_go; eauto.
      * injection Hx as <- <- <-.
        destruct (IHS _ _ _ _ _ _ _ _ _ _ Hs Hk Hls Hd Hws) as (R1 & X1 & D1).
        split; [|split; [exact X1 | discriminate]].
        cbn [tree_of_block]. apply reach_cons_stop; [discriminate|exact R1].
      * injection Hx as <- <- <-.
        destruct (IHS _ _ _ _ _ _ _ _ _ _ Hs Hk Hls Hd Hws) as (R1 & X1 & D1).
        split; [|split; [exact X1 | discriminate]].
        cbn [tree_of_block]. apply reach_cons_stop; [discriminate|exact R1].
      * injection Hx as <- <- <-.
        destruct (IHS _ _ _ _ _ _ _ _ _ _ Hs Hk Hls Hd Hws) as (R1 & X1 & D1).
        split; [|split; [exact X1 | discriminate]].
        cbn [tree_of_block]. apply reach_cons_stop; [discriminate|exact R1].
      * injection Hx as <- <- <-.
        destruct (IHS _ _ _ _ _ _ _ _ _ _ Hs Hk Hls Hd Hws) as (R1 & X1 & D1).
        split; [|split; [exact X1 | discriminate]].
        cbn [tree_of_block]. apply reach_cons_stop; [discriminate|exact R1].
  - (* else / elif chains *)
    unfold SimE. intros E el sc mv el' mv' o E' g Hx Hk Hl Hd Hw.
    destruct el as [|b|c b rest]; cbn [exec_els] in Hx; cbn [lower_els] in Hl; cbn [calls_wf_els] in Hw.
    + injection Hl as <- <-. injection Hx as <- <- <-.
      split; [|split; [apply ext_refl | exact Hd]].
      exists O. intros F' _. reflexivity.
    + destruct (lower_block P ([] :: sc) mv b) as [[[b' scb] mv1]|] eqn:Hlb; [|discriminate].
      injection Hl as <- <-.
      destruct (scoped_block f E b ([] :: sc) mv b' scb mv1 o E' g IHB Hx Hk Hlb (dom_push _ _ Hd) Hw)
        as ([F HF] & Hext & Hdom).
      split; [|split; [exact Hext | now apply Hdom]].
      exists F. intros F' HF'. cbn [tels relse]. now apply HF.
    + apply andb_prop in Hw. destruct Hw as [Hwb Hwr].
      destruct (lower_els P sc mv rest) as [[rest' mv1]|] eqn:Hlr; [|discriminate].
      destruct (lower_block P ([] :: sc) mv1 b) as [[[b' scb] mv2]|] eqn:Hlb; [|discriminate].
      injection Hl as <- <-.
      (* on the Rust side: else { if c { b } else rest } *)
      destruct (eval E c) as [[z|[|]]| | |] eqn:Ec.
      * bad_halt Hx Hk.
      * assert (Hid : restore (length E) E' = E').
        { destruct (exec_block P f E b) as [[o0 E0] g0]. cbn [in_scope] in Hx. injection Hx as _ <- _. apply restore_idem. }
        destruct (scoped_block f E b ([] :: sc) mv1 b' scb mv2 o E' g IHB Hx Hk Hlb (dom_push _ _ Hd) Hwb)
          as ([F HF] & Hext & Hdom).
        split; [|split; [exact Hext | now apply Hdom]].
        exists (S (S F)). intros F' HF'. fuelS F'. cbn [tels relse tree_of_block tree_of_stmt rexec_block]. fuelS F'. cbn [rexec_stmt].
        rewrite (sem_val sc E c _ Ec). rewrite HF by lia. cbn [xseq].
        destruct g; cbn [rexec_block in_scope]; rewrite ?app_nil_r, Hid; reflexivity.
      * destruct (IHE _ _ _ _ _ _ _ _ _ Hx Hk Hlr Hd Hwr) as ([F HF] & Hext & Hdom).
        assert (Hlen : restore (length E) E' = E').
        { unfold restore.
          assert (length E' = length E).
          { rewrite <- (map_length fst E'), <- (map_length fst E). unfold dom_ok in *. congruence. }
          replace (length E' - length E)%nat with O by lia. reflexivity. }
        split; [|split; [exact Hext | exact Hdom]].
        exists (S (S F)). intros F' HF'. fuelS F'. cbn [tels relse tree_of_block tree_of_stmt rexec_block]. fuelS F'. cbn [rexec_stmt].
        rewrite (sem_val sc E c _ Ec). specialize (HF F' ltac:(lia)).
        destruct rest' as [|rb]; cbn [tels relse] in HF.
        -- injection HF as <- <- <-. cbn [xseq rexec_block in_scope app]. rewrite Hlen. reflexivity.
        -- rewrite HF. cbn [xseq]. destruct g; cbn [rexec_block in_scope]; rewrite ?app_nil_r, Hlen; reflexivity.
      * injection Hx as <- <- <-.
        split; [|split; [apply ext_refl | exact Hd]].
        exists 2%nat. intros F' HF. fuelS F'. cbn [tels relse tree_of_block tree_of_stmt rexec_block]. fuelS F'. cbn [rexec_stmt].
        rewrite (sem_zd sc E c Ec).
        cbn [rstop_of xseq in_scope]. unfold restore. rewrite Nat.sub_diag. reflexivity.
      * bad_halt Hx Hk.
      * bad_halt Hx Hk.
  - (* range iteration *)
    unfold SimR. intros E x cur stp step b sc mv b' sc' mv' o E' g Hx Hk Hl Hd Hw.
    cbn [exec_range] in Hx.
    destruct (range_done cur stp step) eqn:Hdone.
    + injection Hx as <- <- <-.
      split; [|split; [apply ext_refl | exact Hd]].
      exists 1%nat. intros F' HF. fuelS F'. cbn [rexec_range]. rewrite Hdone. reflexivity.
    + destruct (in_scope (length E) (exec_block P f ((x, VI cur) :: E) b)) as [[o1 E1] g1] eqn:Hb.
      assert (Hk1 : okg g1).
      { destruct g1 as [| | |rv|k1]; try (repeat split; discriminate).
        injection Hx as <- <- <-. exact Hk. }
      assert (Hbody : (exists F, forall F', (F <= F')%nat ->
                         in_scope (length E) (rexec_block RP F' ((x, VI cur) :: E) (tree_of_block b')) = (o1, E1, g1)) /\
                      ext E E1 /\ dom_ok sc E1).
      { destruct (exec_block P f ((x, VI cur) :: E) b) as [[o0 E0] g0] eqn:Hb0.
        cbn [in_scope] in Hb. injection Hb as <- <- <-.
        destruct (IHB _ _ _ _ _ _ _ _ _ _ Hb0 Hk1 Hl (dom_push_var _ _ _ _ Hd) Hw) as ([F HF] & Hext & _).
        apply ext_cons_inv in Hext.
        split; [|split; [now apply ext_restore | now apply dom_restore]].
        exists F. intros F' HF'. rewrite HF by lia. reflexivity. }
      destruct Hbody as ([F HF] & Hext & Hdom).
      destruct g1 as [| | |rv|k1].
      * destruct (in_i64b (cur + step)) eqn:Hin.
        -- destruct (exec_range P f E1 x (cur + step) stp step b) as [[o2 E2] g2] eqn:H2. injection Hx as <- <- <-.
           destruct (IHR _ _ _ _ _ _ _ _ _ _ _ _ _ _ H2 Hk Hl Hdom Hw) as ([F2 HF2] & Hext2 & Hdom2).
           split; [|split; [eapply ext_trans; eauto | exact Hdom2]].
           exists (S (Nat.max F F2)). intros F' HF'. fuelS F'. cbn [rexec_range]. rewrite Hdone.
           rewrite HF by lia. cbv zeta. rewrite Hin. rewrite HF2 by lia. reflexivity.
        -- injection Hx as <- <- <-.
           split; [|split; [exact Hext | exact Hdom]].
           exists (S (S F)). intros F' HF'. fuelS F'. cbn [rexec_range]. rewrite Hdone.
           rewrite HF by lia. cbv zeta. rewrite Hin. fuelS F'. cbn [rexec_range]. rewrite range_done_refl.
           now rewrite app_nil_r.
      * injection Hx as <- <- <-.
        split; [|split; [exact Hext | exact Hdom]].
        exists (S F). intros F' HF'. fuelS F'. cbn [rexec_range]. rewrite Hdone. rewrite HF by lia. reflexivity.
      * destruct (in_i64b (cur + step)) eqn:Hin.
        -- destruct (exec_range P f E1 x (cur + step) stp step b) as [[o2 E2] g2] eqn:H2. injection Hx as <- <- <-.
           destruct (IHR _ _ _ _ _ _ _ _ _ _ _ _ _ _ H2 Hk Hl Hdom Hw) as ([F2 HF2] & Hext2 & Hdom2).
           split; [|split; [eapply ext_trans; eauto | exact Hdom2]].
           exists (S (Nat.max F F2)). intros F' HF'. fuelS F'. cbn [rexec_range]. rewrite Hdone.
           rewrite HF by lia. cbv zeta. rewrite Hin. rewrite HF2 by lia. reflexivity.
        -- injection Hx as <- <- <-.
           split; [|split; [exact Hext | exact Hdom]].
           exists (S (S F)). intros F' HF'. fuelS F'. cbn [rexec_range]. rewrite Hdone.
           rewrite HF by lia. cbv zeta. rewrite Hin. fuelS F'. cbn [rexec_range]. rewrite range_done_refl.
           now rewrite app_nil_r.
      * injection Hx as <- <- <-.
        split; [|split; [exact Hext | exact Hdom]].
        exists (S F). intros F' HF'. fuelS F'. cbn [rexec_range]. rewrite Hdone. rewrite HF by lia. reflexivity.
      * injection Hx as <- <- <-.
        split; [|split; [exact Hext | exact Hdom]].
        exists (S F). intros F' HF'. fuelS F'. cbn [rexec_range]. rewrite Hdone. rewrite HF by lia. reflexivity.
  - (* calls *)
    unfold SimC. intros E sc fn pos kw o r Hx Hk Hw.
    cbn [call] in Hx. cbn [call_wf] in Hw.
    destruct (find_fn fn P) as [d|] eqn:Hf; [|injection Hx as <- <-; destruct Hk as (_ & _ & H); congruence].
    destruct (Htab fn d Hf) as (ib & mv0 & sc0 & mv1 & Hlb & Hrf & Hwb).
    set (ws := pos ++ map snd kw) in *.
    assert (Hlc : forall l, tree_of_c (ICallU fn l) = RUCall fn (map tree_of l)) by reflexivity.
    destruct (select (fparams d) (length pos) 0 (map fst kw)) as [sel|] eqn:Hsel.
    2:{ destruct (eval_args E ws) as [vs|r0] eqn:Ea.
        - injection Hx as <- <-. destruct Hk as (_ & _ & H). congruence.
        - injection Hx as <- <-.
          assert (r0 = EZeroDiv) by (destruct Hk as (H1 & H2 & H3); destruct r0; cbn in *; congruence). subst r0.
          (* without a usable signature the written order is emitted as is *)
          exists 1%nat. intros F' HF. fuelS F'. cbn [lower_c]. fold ws. rewrite Hf, Hsel. rewrite Hlc.
          cbn [rcev_with rcall]. rewrite Hrf, map_map.
          pose proof (args_same_order sc E ws) as Ha. rewrite Ea in Ha. rewrite Ha. reflexivity. }
    destruct (eval_args E ws) as [vs|r0] eqn:Ea.
    + destruct (pick vs sel) as [bv|] eqn:Hbv; [|injection Hx as <- <-; destruct Hk as (_ & _ & H); congruence].
      (* the emitted argument list *)
      assert (Hlen : length (map (lower_expr sc) ws) = length vs).
      { rewrite map_length. symmetry. eapply eval_args_length; eauto. }
      destruct (pick_some_of_length vs (map (lower_expr sc) ws) sel bv (eq_sym Hlen) Hbv) as [l Hl].
      assert (Hargs : reval_args E (map tree_of l) = inl bv).
      { rewrite pick_map in Hl. destruct (pick ws sel) as [ws'|] eqn:Hws; [|discriminate].
        injection Hl as <-. rewrite map_map.
        apply args_values. eapply forall2_pick; [eapply eval_args_forall2; eauto|eauto|eauto]. }
      assert (Hlb' : length (fparams d) = length bv).
      { rewrite (pick_length _ _ _ Hbv). symmetry. eapply select_length; eauto. }
      destruct (exec_block P f (combine (fparams d) bv) (fbody d)) as [[ob Eb] gb] eqn:Hb.
      assert (Hkb : okg gb).
      { destruct gb as [| | |rv|k1]; try (repeat split; discriminate).
        injection Hx as <- <-. destruct Hk as (H1 & H2 & H3). repeat split; congruence. }
      destruct (IHB _ _ _ _ _ _ _ _ _ _ Hb Hkb Hlb (init_dom _ _ Hlb') Hwb) as ([F HF] & _ & _).
      exists (S F). intros F' HF'. fuelS F'. cbn [lower_c]. fold ws. rewrite Hf, Hsel, Hl. rewrite Hlc.
      cbn [rcev_with rcall]. rewrite Hrf, Hargs. cbn [rparams rret rbody].
      rewrite Hlb', Nat.eqb_refl. cbn [negb]. rewrite HF by lia. exact Hx.
    + (* an argument did not evaluate: only ZeroDivisionError is a defined outcome *)
      injection Hx as <- <-.
      assert (r0 = EZeroDiv) by (destruct Hk as (H1 & H2 & H3); destruct r0; cbn in *; congruence). subst r0.
      apply orb_prop in Hw. destruct Hw as [Hid | Hat].
      2:{ exfalso. eapply atoms_no_zd; eauto. }
      apply andb_prop in Hid. destruct Hid as [Hn Hs]. apply Nat.eqb_eq in Hn. apply is_seq_spec in Hs.
      assert (Hsel' : sel = seq 0 (length (map (lower_expr sc) ws))).
      { rewrite Hs, Hn, map_length. unfold ws. now rewrite app_length, map_length. }
      exists 1%nat. intros F' HF. fuelS F'. cbn [lower_c]. fold ws. rewrite Hf, Hsel, Hsel', pick_seq. rewrite Hlc.
      cbn [rcev_with rcall]. rewrite Hrf, map_map.
      pose proof (args_same_order sc E ws) as Ha. rewrite Ea in Ha. rewrite Ha. reflexivity.
Qed.

Lemma sim_all f : SimS f /\ SimB f /\ SimE f /\ SimR f /\ SimC f.
Proof.
  induction f as [|f IH]; [|now apply sim_step].
  split; [|split; [|split; [|split]]]; red; intros; cbn in *;
  match goal with
  | H : (_, _, Halt OutOfFuel) = (_, _, ?g), K : okg ?g |- _ =>
      injection H as <- <- <-; destruct K as (K & _); congruence
  | H : (_, CHalt OutOfFuel) = (_, ?r), K : okc ?r |- _ =>
      injection H as <- <-; destruct K as (K & _); congruence
  end.
Qed.

End Sim.

(* ---------------------------------------------------------------- whole programs *)

Lemma find_fn_in f l d : find_fn f l = Some d -> In d l.
Proof.
  induction l as [|x r IH]; cbn; [discriminate|]. destruct (f =? fname x); [intros [= <-]; now left|]. intros H. right. auto.
Qed.

Lemma table_of_lowering P : forall l mv fs,
  lower_fns P mv l = LOk fs -> (forall d, In d l -> calls_wf_block P (fbody d) = true) ->
  forall f d, find_fn f l = Some d ->
  exists ib mv0 sc' mv',
    lower_block P (init_scopes (fparams d)) mv0 (fbody d) = LOk (ib, sc', mv') /\
    find_rfn f (tree_of_fns fs) = Some {| rname := fname d; rparams := fparams d; rret := fret d; rbody := tree_of_block ib |} /\
    calls_wf_block P (fbody d) = true.
Proof.
  induction l as [|x r IH]; intros mv fs Hl Hw f d Hf; cbn in Hf; [discriminate|].
  cbn [lower_fns] in Hl.
  destruct (lower_block P (init_scopes (fparams x)) mv (fbody x)) as [[[b sc1] mv1]|] eqn:Hb; [|discriminate].
  destruct (lower_fns P mv1 r) as [rest|] eqn:Hr; [|discriminate]. injection Hl as <-.
  cbn [tree_of_fns map find_rfn tree_of_fn rname iname].
  destruct (f =? fname x) eqn:Hx.
  - injection Hf as <-. exists b, mv, sc1, mv1. split; [exact Hb|]. split; [reflexivity|]. apply Hw. now left.
  - eapply IH; eauto. intros d0 Hd0. apply Hw. now right.
Qed.

Definition okstop (k : stop) : Prop := k <> OutOfFuel /\ k <> Unspec /\ k <> Stuck.

Lemma atoms_of_ints l : forallb atom (map EInt l) = true.
Proof. induction l; cbn; auto. Qed.

Lemma entry_call_wf P f l : call_wf P (CCall f (map EInt l) []) = true.
Proof.
  cbn [call_wf]. destruct (find_fn f P); [|reflexivity].
  destruct (select _ _ _ _); [|reflexivity]. cbn [map]. rewrite app_nil_r, atoms_of_ints. apply orb_true_r.
Qed.

Lemma lower_c_call P sc f pos kw : exists l, lower_c P sc (CCall f pos kw) = ICallU f l.
Proof.
  cbn [lower_c]. destruct (find_fn f P); [|eauto]. destruct (select _ _ _ _); [|eauto].
  destruct (pick _ _); eauto.
Qed.

Lemma compile_correct c fuel out k :
  known_grouping c = false ->
  (exists fs, lower_prog (cprog c) = LOk fs) ->
  calls_wf (cprog c) = true ->
  run fuel c = (out, k) -> okstop k ->
  exists ts p, compile c = COk ts p /\
    exists F, forall F', (F <= F')%nat -> rrun F' p (centry c) (entry_args c) = (out, k).
Proof.
  intros Hg [fs Hl] Hw Hr Hk.
  unfold known_grouping in Hg. rewrite Hl in Hg. apply negb_false_iff in Hg. apply reparses_true in Hg.
  exists (emit_fns fs), (tree_of_fns fs). split.
  { unfold compile. rewrite Hl, Hg. reflexivity. }
  set (P := cprog c) in *.
  assert (Htab : forall f d, find_fn f P = Some d ->
    exists ib mv sc' mv',
      lower_block P (init_scopes (fparams d)) mv (fbody d) = LOk (ib, sc', mv') /\
      find_rfn f (tree_of_fns fs) = Some {| rname := fname d; rparams := fparams d; rret := fret d; rbody := tree_of_block ib |} /\
      calls_wf_block P (fbody d) = true).
  { intros f d Hf. eapply (table_of_lowering P P [] fs Hl); eauto.
    intros d0 Hd0. unfold calls_wf in Hw. rewrite forallb_forall in Hw. now apply Hw. }
  unfold run in Hr. fold P in Hr.
  destruct (call P fuel [] (centry c) (map EInt (args c)) []) as [o r] eqn:Hc.
  assert (Hkc : okc r).
  { destruct Hk as (H1 & H2 & H3). destruct r as [v|k0]; injection Hr as <- <-; repeat split; congruence. }
  destruct (proj2 (proj2 (proj2 (proj2 (sim_all P (tree_of_fns fs) Htab fuel)))) [] [] _ _ _ _ _ Hc Hkc (entry_call_wf _ _ _))
    as [F HF].
  exists F. intros F' HF'. specialize (HF F' HF').
  unfold rrun, entry_args. fold P.
  destruct (lower_c_call P [] (centry c) (map EInt (args c)) []) as [l Hlc]. rewrite Hlc in *.
  cbn [tree_of_c rcev_with] in HF. rewrite HF.
  destruct r; injection Hr as <- <-; reflexivity.
Qed.
