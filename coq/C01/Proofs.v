(* C01/Proofs.v — expression level: the term an IR node denotes has the value the documented
   semantics give the source expression (arithmetic helpers through the C04 theorems). *)
From Verif Require Import Base.I64 C04.Model C04.Props Core.Syntax Core.Dynamic Core.Rust Core.Lower C01.Model.
From Coq Require Import ZArith List Bool Lia.
Import ListNotations.
Open Scope Z_scope.

Definition to_rres (r : eres) : rres :=
  match r with EV v => RV v | EZeroDiv => RZeroDiv | EUnspec => RPanic | EStuck => RStuck end.

(* the documented semantics define the result (a value or ZeroDivisionError) *)
Definition defined (r : eres) : Prop := r <> EUnspec /\ r <> EStuck.

Lemma chk_ev z v : chk z = EV v -> v = VI z /\ in_i64 z.
Proof.
  unfold chk. destruct (in_i64b z) eqn:H; [|discriminate].
  intros [= <-]. split; [reflexivity|now apply in_i64b_spec].
Qed.

Lemma chk_in z : in_i64 z -> chk z = EV (VI z).
Proof. intros H. unfold chk. apply in_i64b_spec in H. now rewrite H. Qed.

Lemma chk_cases z : (chk z = EV (VI z) /\ in_i64 z) \/ chk z = EUnspec.
Proof.
  unfold chk. destruct (in_i64b z) eqn:H; [left|right; reflexivity].
  split; [reflexivity|now apply in_i64b_spec].
Qed.

Lemma binop_val_range o a b z : binop_val o a b = EV (VI z) -> in_i64 z.
Proof.
  destruct a as [x|x], b as [y|y], o; cbn [binop_val]; intros H; try discriminate;
  repeat (match type of H with context [if ?c then _ else _] => destruct c end); try discriminate;
  apply chk_ev in H; destruct H as [H1 H2]; injection H1 as ->; exact H2.
Qed.

Lemma eval_int_range E e : forall z, eval E e = EV (VI z) -> in_i64 z.
Proof.
  induction e as [n|b|x|e IH|o e IH|o l IHl r IHr]; intros z H; cbn [eval] in H.
  - apply chk_ev in H. destruct H as [H1 H2]. injection H1 as ->. exact H2.
  - discriminate.
  - destruct (lookup x E) as [[z'|b]|]; try discriminate.
    apply chk_ev in H. destruct H as [H1 H2]. injection H1 as ->. exact H2.
  - now apply IH.
  - destruct o; destruct (eval E e) as [[z'|b]| | |]; try discriminate.
    apply chk_ev in H. destruct H as [H1 H2]. injection H1 as ->. exact H2.
  - destruct o;
    try (destruct (eval E l) as [a| | |]; try discriminate;
         destruct (eval E r) as [b| | |]; try discriminate;
         now apply binop_val_range in H).
    + destruct (eval E l) as [[?|[|]]| | |]; try discriminate.
      destruct (eval E r) as [[?|?]| | |]; discriminate.
    + destruct (eval E l) as [[?|[|]]| | |]; try discriminate.
      destruct (eval E r) as [[?|?]| | |]; discriminate.
Qed.

Lemma wrap_in z : in_i64 z -> wrapv z = RV (VI z).
Proof. intros H. unfold wrapv. now rewrite wrap64_id. Qed.

Lemma f64_zero_is_zero : Base.F64.f64_eqb Base.F64.f64_zero Base.F64.f64_zero = true.
Proof. vm_compute. reflexivity. Qed.

(* the four helpers compute Python's // and % on in-range operands, ZeroDivisionError on 0 *)
Lemma helper_floor h x y :
  (h = HFloorI64 \/ h = HFloor) -> in_i64 x -> in_i64 y ->
  call_helper h (VI x) (VI y) =
    if y =? 0 then RZeroDiv
    else if (x =? MIN64) && (y =? -1) then call_helper h (VI x) (VI y)
    else RV (VI (x / y)).
Proof.
  intros Hh Hx Hy. destruct (y =? 0) eqn:E0.
  - apply Z.eqb_eq in E0. subst y. destruct Hh as [-> | ->]; cbn [call_helper].
    + destruct (C04_zero_divisor_suffixed Wrap x Base.F64.f64_zero Base.F64.f64_zero f64_zero_is_zero) as (H & _).
      now rewrite H.
    + destruct (C04_zero_divisor Wrap (NI x) (NI 0) eq_refl) as (_ & _ & H). now rewrite H.
  - destruct ((x =? MIN64) && (y =? -1)) eqn:E1; [reflexivity|].
    assert (Hy0 : y <> 0) by (apply Z.eqb_neq; exact E0).
    assert (Hex : ~ (x = MIN64 /\ y = -1)).
    { intros [-> ->]. cbn in E1. discriminate. }
    destruct (C04_floor_div_spec Wrap x y Hx Hy Hy0 Hex) as [H1 H2].
    destruct Hh as [-> | ->]; cbn [call_helper]; [now rewrite H2 | now rewrite H1].
Qed.

Lemma helper_mod h x y :
  (h = HModI64 \/ h = HMod) -> in_i64 x -> in_i64 y ->
  call_helper h (VI x) (VI y) = if y =? 0 then RZeroDiv else RV (VI (x mod y)).
Proof.
  intros Hh Hx Hy. destruct (y =? 0) eqn:E0.
  - apply Z.eqb_eq in E0. subst y. destruct Hh as [-> | ->]; cbn [call_helper].
    + destruct (C04_zero_divisor_suffixed Wrap x Base.F64.f64_zero Base.F64.f64_zero f64_zero_is_zero) as (_ & H & _).
      now rewrite H.
    + destruct (C04_zero_divisor Wrap (NI x) (NI 0) eq_refl) as (_ & H & _). now rewrite H.
  - assert (Hy0 : y <> 0) by (apply Z.eqb_neq; exact E0).
    destruct (C04_mod_spec Wrap x y Hx Hy Hy0) as [H1 H2].
    destruct Hh as [-> | ->]; cbn [call_helper]; [now rewrite H2 | now rewrite H1].
Qed.

Lemma infix_sem o a b t rb lt :
  binop_plan o lt = PInfix t rb -> defined (binop_val o a b) ->
  rbin_val rb a b = to_rres (binop_val o a b).
Proof.
  intros Hp [Hu Hs].
  destruct o; cbn [binop_plan] in Hp; try discriminate; injection Hp as <- <-;
  destruct a as [x|x], b as [y|y]; cbn [binop_val rbin_val to_rres] in *; try congruence;
  match goal with
  | |- wrapv ?z = _ => destruct (chk_cases z) as [[Hc Hr]|Hc]; rewrite Hc in *; [cbn [to_rres]; now apply wrap_in | congruence]
  end.
Qed.

Lemma helper_sem o a b lt h :
  binop_plan o lt = PHelper h -> defined (binop_val o a b) ->
  (forall z, a = VI z -> in_i64 z) -> (forall z, b = VI z -> in_i64 z) ->
  call_helper h a b = to_rres (binop_val o a b).
Proof.
  intros Hp [Hu Hs] Ha Hb.
  destruct o; cbn [binop_plan] in Hp; try discriminate; injection Hp as <-;
  destruct a as [x|x], b as [y|y]; cbn [binop_val] in *; try congruence;
  specialize (Ha x eq_refl); specialize (Hb y eq_refl).
  - (* // *)
    rewrite helper_floor; [| destruct lt; auto | assumption | assumption].
    destruct (y =? 0); [reflexivity|].
    destruct ((x =? MIN64) && (y =? -1)); [congruence|].
    unfold spec_floor_div in *.
    destruct (chk_cases (x / y)) as [[Hc Hr]|Hc]; rewrite Hc in *; [reflexivity|congruence].
  - (* % *)
    rewrite helper_mod; [| destruct lt; auto | assumption | assumption].
    destruct (y =? 0); [reflexivity|].
    unfold spec_mod in *.
    destruct (chk_cases (x mod y)) as [[Hc Hr]|Hc]; rewrite Hc in *; [reflexivity|congruence].
Qed.

Lemma defined_to_rres_stuck r : defined r -> to_rres r <> RStuck.
Proof. intros [H1 H2]. destruct r; cbn; congruence. Qed.

(* THE expression lemma's semantic half: the denoted Rust term computes the source value *)
Lemma tree_sem sc E e :
  defined (eval E e) -> reval E (tree_of (lower_expr sc e)) = to_rres (eval E e).
Proof.
  induction e as [n|b|x|e IH|o e IH|o l IHl r IHr]; intros Hd; cbn [lower_expr tree_of].
  - cbn [eval] in *. destruct (chk_cases n) as [[Hc Hr]|Hc]; rewrite Hc in *; [|destruct Hd; congruence].
    destruct (0 <=? n) eqn:Hn; cbn [reval to_rres]; [reflexivity|].
    replace (- - n) with n by lia. now apply wrap_in.
  - reflexivity.
  - cbn [eval reval] in *. destruct (lookup x E) as [[z|b]|]; cbn [to_rres].
    + destruct (chk_cases z) as [[Hc Hr]|Hc]; rewrite Hc in *; [reflexivity|destruct Hd; congruence].
    + reflexivity.
    + destruct Hd; congruence.
  - cbn [eval] in *. now apply IH.
  - destruct o; cbn [tree_of reval eval] in *.
    + destruct (eval E e) as [[z|b]| | |] eqn:Ee; try (destruct Hd; congruence).
      * rewrite IH by (split; congruence). cbn [to_rres].
        destruct (chk_cases (- z)) as [[Hc Hr]|Hc]; rewrite Hc in *; [now apply wrap_in | destruct Hd; congruence].
      * rewrite IH by (split; congruence). reflexivity.
    + destruct (eval E e) as [[z|b]| | |] eqn:Ee; try (destruct Hd; congruence).
      * rewrite IH by (split; congruence). reflexivity.
      * rewrite IH by (split; congruence). reflexivity.
  - set (lt := cty sc l). set (rt := cty sc r).
    destruct (binop_plan o lt) as [t rb|h] eqn:Hp.
    + (* infix *)
      assert (Hgen : o <> OpAnd -> o <> OpOr ->
                reval E (RBin rb (tree_of (lower_expr sc l)) (tree_of (lower_expr sc r))) = to_rres (eval E (EBin o l r))).
      { intros Hna Hno.
        assert (Hrb : rb <> RAnd /\ rb <> ROr).
        { destruct o; cbn in Hp; try discriminate; injection Hp as <- <-; split; congruence. }
        assert (Hev : eval E (EBin o l r) =
                      match eval E l with
                      | EV a => match eval E r with EV b => binop_val o a b | x => x end
                      | x => x end).
        { destruct o; try reflexivity; congruence. }
        rewrite Hev in *.
        assert (Hrv : forall l' r', reval E (RBin rb l' r') =
                      match reval E l' with
                      | RV a => match reval E r' with RV b => rbin_val rb a b | x => x end
                      | x => x end).
        { intros. destruct rb; try reflexivity; destruct Hrb; congruence. }
        rewrite Hrv.
        destruct (eval E l) as [a| | |] eqn:El; try (destruct Hd; congruence).
        - rewrite IHl by (split; congruence). cbn [to_rres].
          destruct (eval E r) as [b| | |] eqn:Er; try (destruct Hd; congruence).
          + rewrite IHr by (split; congruence). cbn [to_rres]. eapply infix_sem; eauto.
          + rewrite IHr by (split; congruence). reflexivity.
        - rewrite IHl by (split; congruence). reflexivity. }
      destruct o; try (apply Hgen; congruence); cbn [binop_plan] in Hp; injection Hp as <- <-;
      cbn [reval eval] in *.
      * (* and *)
        destruct (eval E l) as [[z|[|]]| | |] eqn:El; try (destruct Hd; congruence).
        -- rewrite IHl by (split; congruence). cbn [to_rres].
           destruct (eval E r) as [[z|b]| | |] eqn:Er; try (destruct Hd; congruence);
           rewrite IHr by (split; congruence); reflexivity.
        -- rewrite IHl by (split; congruence). reflexivity.
        -- rewrite IHl by (split; congruence). reflexivity.
      * (* or *)
        destruct (eval E l) as [[z|[|]]| | |] eqn:El; try (destruct Hd; congruence).
        -- rewrite IHl by (split; congruence). reflexivity.
        -- rewrite IHl by (split; congruence). cbn [to_rres].
           destruct (eval E r) as [[z|b]| | |] eqn:Er; try (destruct Hd; congruence);
           rewrite IHr by (split; congruence); reflexivity.
        -- rewrite IHl by (split; congruence). reflexivity.
    + (* helper call *)
      assert (Hev : eval E (EBin o l r) =
                    match eval E l with
                    | EV a => match eval E r with EV b => binop_val o a b | x => x end
                    | x => x end).
      { destruct o; try reflexivity; cbn in Hp; discriminate. }
      rewrite Hev in *. cbn [reval].
      destruct (eval E l) as [a| | |] eqn:El; try (destruct Hd; congruence).
      * rewrite IHl by (split; congruence). cbn [to_rres].
        destruct (eval E r) as [b| | |] eqn:Er; try (destruct Hd; congruence).
        -- rewrite IHr by (split; congruence). cbn [to_rres].
           eapply helper_sem; eauto.
           ++ intros z ->. eapply eval_int_range; eauto.
           ++ intros z ->. eapply eval_int_range; eauto.
        -- rewrite IHr by (split; congruence). reflexivity.
      * rewrite IHl by (split; congruence). reflexivity.
Qed.

(* the grouping class is defined by the re-parse: outside it the tokens read back as the denoted term *)
Lemma regroups_false e :
  regroups e = false -> parse_expr (emit_expr e) = Some (tree_of e).
Proof.
  unfold regroups. destruct (parse_expr (emit_expr e)) as [t|]; [|discriminate].
  destruct (rexpr_eq_dec t (tree_of e)) as [->|]; [reflexivity|discriminate].
Qed.

Lemma expr_correct sc E e :
  regroups (lower_expr sc e) = false -> defined (eval E e) ->
  exists t, parse_expr (emit_expr (lower_expr sc e)) = Some t /\ reval E t = to_rres (eval E e).
Proof.
  intros Hg Hd. exists (tree_of (lower_expr sc e)). split; [now apply regroups_false | now apply tree_sem].
Qed.

(* the faithful emitter refutes the unconditional lemma: (1 + 2) * (3 - 4) *)
Definition witness_paren : expr :=
  EBin OpMul (EParen (EBin OpAdd (EInt 1) (EInt 2))) (EParen (EBin OpSub (EInt 3) (EInt 4))).

Lemma paren_refuted :
  regroups (lower_expr [] witness_paren) = true /\
  eval [] witness_paren = EV (VI (-3)) /\
  exists t, parse_expr (emit_expr (lower_expr [] witness_paren)) = Some t /\ reval [] t = RV (VI 3).
Proof.
  split; [vm_compute; reflexivity|]. split; [vm_compute; reflexivity|].
  exists (RBin RSub (RBin RAdd (RInt 1) (RBin RMul (RInt 2) (RInt 3))) (RInt 4)).
  split; vm_compute; reflexivity.
Qed.

(* `not` binds looser than `==` in Incan and tighter in Rust: no parentheses involved *)
Definition witness_not : expr := EUn UNot (EBin OpEq (EInt 1) (EInt 2)).
Lemma not_refuted :
  regroups (lower_expr [] witness_not) = true /\
  eval [] witness_not = EV (VB true) /\
  exists t, parse_expr (emit_expr (lower_expr [] witness_not)) = Some t /\ reval [] t = RV (VB false).
Proof.
  split; [vm_compute; reflexivity|]. split; [vm_compute; reflexivity|].
  exists (RBin REq (RNot (RInt 1)) (RInt 2)).
  split; vm_compute; reflexivity.
Qed.
