(* C01/Props.v — the property theorems for C01 (MiniIncan fragment), and nothing else. *)
From Verif Require Import Base.I64 C04.Model Core.Syntax Core.Dynamic Core.Rust Core.Lower C01.Model C01.Proofs C01.ProofsStmt C01.ProofsElif.
From Coq Require Import ZArith List Bool.
Import ListNotations.
Open Scope Z_scope.

(* hypotheses are satisfiable by non-trivial values: an expression with parentheses that matter to
   Incan but not to Rust's reading (7 - 2 * 3 stays grouped), a ZeroDivisionError, and a whole program
   with two functions, a loop, a nested block and a call with keyword arguments out of order *)
Example C01_nonvacuous :
  let e := EBin OpSub (EInt 7) (EParen (EBin OpMul (EInt 2) (EInt 3))) in
  regroups (lower_expr [] e) = false /\ eval [] e = EV (VI 1) /\
  regroups (lower_expr [] (EBin OpMod (EInt 7) (EParen (EBin OpSub (EInt 2) (EInt 2))))) = false /\
  eval [] (EBin OpMod (EInt 7) (EParen (EBin OpSub (EInt 2) (EInt 2)))) = EZeroDiv /\
  known_grouping nonvacuous_case = false /\ calls_wf (cprog nonvacuous_case) = true /\
  (exists fs, lower_prog (cprog nonvacuous_case) = LOk fs) /\
  run default_fuel nonvacuous_case = ([LI 10; LI 11; LI 12; LI (-4); LI 17], Done).
Proof. vm_compute. repeat split; try reflexivity. eexists; reflexivity. Qed.

(* P1  expression lemma: outside the grouping class, the emitted tokens parse (Rust's grammar) to a
       term whose value is the value the documented semantics give the source expression — a value
       or the ZeroDivisionError *)
Theorem C01_expr_correct : forall sc E e,
  regroups (lower_expr sc e) = false ->
  eval E e <> EUnspec -> eval E e <> EStuck ->
  exists t, parse_expr (emit_expr (lower_expr sc e)) = Some t /\ reval E t = to_rres (eval E e).
Proof. intros sc E e Hg H1 H2. exact (expr_correct sc E e Hg (conj H1 H2)). Qed.
Print Assumptions C01_expr_correct.

(* P2  the lemma is false without the class: `(1 + 2) * (3 - 4)` is emitted as `1 + 2 * 3 - 4` *)
Theorem C01_paren_refuted :
  exists e t, regroups (lower_expr [] e) = true /\ eval [] e = EV (VI (-3)) /\
              parse_expr (emit_expr (lower_expr [] e)) = Some t /\ reval [] t = RV (VI 3).
Proof.
  exists witness_paren. destruct paren_refuted as (H1 & H2 & t & H3 & H4). exists t. repeat split; assumption.
Qed.
Print Assumptions C01_paren_refuted.

(* P3  ... and the class is not only about parentheses: `not 1 == 2` is emitted as `!1 == 2` *)
Theorem C01_not_refuted :
  exists e t, regroups (lower_expr [] e) = true /\ eval [] e = EV (VB true) /\
              parse_expr (emit_expr (lower_expr [] e)) = Some t /\ reval [] t = RV (VB false).
Proof.
  exists witness_not. destruct not_refuted as (H1 & H2 & t & H3 & H4). exists t. repeat split; assumption.
Qed.
Print Assumptions C01_not_refuted.

(* P4  program simulation.  For every program of the fragment (several functions with int parameters
       and an optional int result, calls with positional and keyword arguments, return), every entry
       function and argument list: if lowering succeeds, the program is outside the grouping class and
       keyword arguments written out of declaration order are atoms (calls_wf), then the emitted token
       tree parses (Rust's grammar) to function items which — run with release-build semantics: wrapping
       i64, the C04 helper models, arguments evaluated in EMITTED order and bound positionally — print
       the same lines in the same order and stop the same way (normally, ZeroDivisionError, ValueError
       for a zero range step) as the documented semantics (arguments evaluated in WRITTEN order, bound
       by name), whenever those define the run (enough fuel, no integer overflow, no ill-formed
       program).  The Rust side is reached with some fuel F and with every larger fuel. *)
Theorem C01_compile_correct : forall c fuel out k,
  ~ Known_C01_grouping c ->
  (exists fs, lower_prog (cprog c) = LOk fs) ->
  calls_wf (cprog c) = true ->
  run fuel c = (out, k) -> k <> OutOfFuel -> k <> Unspec -> k <> Stuck ->
  exists ts p, compile c = COk ts p /\
    exists F, forall F', (F <= F')%nat -> rrun F' p (centry c) (entry_args c) = (out, k).
Proof.
  intros c fuel out k Hg Hl Hw Hr H1 H2 H3.
  apply (compile_correct c fuel out k); [|exact Hl|exact Hw|exact Hr|repeat split; assumption].
  unfold Known_C01_grouping in Hg. destruct (known_grouping c); [exfalso; now apply Hg|reflexivity].
Qed.
Print Assumptions C01_compile_correct.

(* P5  the program-level class is real: the grouping witness as a one-line function prints 3, the
       documented semantics print -3 *)
Theorem C01_compile_refuted :
  exists c, Known_C01_grouping c /\ run default_fuel c = ([LI (-3)], Done) /\
            run_compiled default_fuel c = Some ([LI 3], Done).
Proof.
  exists {| cprog := [{| fname := 0; fparams := []; fret := false; fbody := blk [SPrint (CPure witness_paren)] |}];
            centry := 0; args := [] |}.
  unfold Known_C01_grouping. vm_compute. repeat split; reflexivity.
Qed.
Print Assumptions C01_compile_refuted.

(* P6  order of the elif conditions, documented semantics: in `if c0: .. elif c1: .. elif cn: .. [else ..]` the conditions are
       evaluated top to bottom.  If c0 and the elif conditions before `c` are false and `c` holds, the statement runs exactly
       the body of `c` in its own scope — whatever follows (`post`, `tail`) is never evaluated, even a later condition that
       holds as well or that would raise ZeroDivisionError.  Ladders of any length; fuel: one unit per condition tested. *)
Theorem C01_elif_first_true : forall P E c0 th pre c b post tail f,
  eval E c0 = EV (VB false) ->
  Forall (fun cb => eval E (fst cb) = EV (VB false)) pre ->
  eval E c = EV (VB true) ->
  exec_stmt P (S (length pre + S f)) E (SIf c0 th (ladder (pre ++ (c, b) :: post) tail))
  = in_scope (length E) (exec_block P f E b).
Proof. intros. now apply if_ladder_first_true. Qed.
Print Assumptions C01_elif_first_true.

(* P7  ... and a condition that raises ZeroDivisionError before any condition held stops the statement there: the order is
       observable even with side-effect-free conditions *)
Theorem C01_elif_first_stop : forall P E c0 th pre c b post tail f,
  eval E c0 = EV (VB false) ->
  Forall (fun cb => eval E (fst cb) = EV (VB false)) pre ->
  eval E c = EZeroDiv ->
  exec_stmt P (S (length pre + S f)) E (SIf c0 th (ladder (pre ++ (c, b) :: post) tail)) = ([], E, Halt ZeroDiv).
Proof. intros. now apply if_ladder_first_stop. Qed.
Print Assumptions C01_elif_first_stop.

(* P8  order of the elif conditions in the generated code: lowering builds the chain `else { if c1 {..} else { if c2 {..} .. } }`
       whose conditions, met from the outside in (the order the Rust program tests them), are the lowered elif conditions in
       SOURCE order — for ladders of any length.  (With C01_compile_correct the emitted tokens parse back to that chain and
       run like the source.)  Folding the branches in the other direction falsifies this statement for two or more elifs. *)
Theorem C01_elif_order_lowered : forall P sc mv el el' mv',
  lower_els P sc mv el = LOk (el', mv') ->
  firstn (length (els_conds el)) (chain_conds el') = map (lower_expr sc) (els_conds el).
Proof. intros P sc mv el el' mv' H. exact (lower_els_order P sc el mv el' mv' H). Qed.
Print Assumptions C01_elif_order_lowered.

(* the three statements are about ladders that exist: a 3-elif threshold ladder with overlapping conditions, input 75 *)
Example C01_elif_nonvacuous :
  let br := [(EBin OpGe (EVar 0) (EInt 80), blk [SPrint (CPure (EInt 2))]);
             (EBin OpGe (EVar 0) (EInt 70), blk [SPrint (CPure (EInt 3))]);
             (EBin OpGe (EVar 0) (EInt 60), blk [SPrint (CPure (EInt 4))])] in
  let s := SIf (EBin OpGe (EVar 0) (EInt 90)) (blk [SPrint (CPure (EInt 1))]) (ladder br (EElse (blk [SPrint (CPure (EInt 5))]))) in
  exec_stmt [] 10%nat [(0, VI 75)] s = ([LI 3], [(0, VI 75)], Go) /\
  els_conds (ladder br ENone) = map fst br /\
  (exists el' mv', lower_els [] [[(0, TyInt)]] [] (ladder br ENone) = LOk (el', mv') /\
                   chain_conds el' = map (lower_expr [[(0, TyInt)]]) (map fst br)).
Proof. vm_compute. repeat split. eexists; eexists; split; reflexivity. Qed.
