(* C01/Props.v — the property theorems for C01 (MiniIncan fragment), and nothing else. *)
From Verif Require Import Base.I64 C04.Model Core.Syntax Core.Dynamic Core.Rust Core.Lower C01.Model C01.Proofs C01.ProofsStmt.
From Coq Require Import ZArith List Bool.
Import ListNotations.
Open Scope Z_scope.

(* hypotheses are satisfiable by non-trivial values: an expression with parentheses that matter to
   Incan but not to Rust's reading (7 - 2 * 3 stays grouped), a ZeroDivisionError, and a whole function *)
Example C01_nonvacuous :
  let e := EBin OpSub (EInt 7) (EParen (EBin OpMul (EInt 2) (EInt 3))) in
  regroups (lower_expr [] e) = false /\ eval [] e = EV (VI 1) /\
  regroups (lower_expr [] (EBin OpMod (EInt 7) (EParen (EBin OpSub (EInt 2) (EInt 2))))) = false /\
  eval [] (EBin OpMod (EInt 7) (EParen (EBin OpSub (EInt 2) (EInt 2)))) = EZeroDiv /\
  known_grouping nonvacuous_case = false /\
  run default_fuel nonvacuous_case = ([LI 10; LI 11; LI 12; LI (-4)], Done).
Proof. vm_compute. repeat split; reflexivity. Qed.

(* P1  expression lemma: outside the grouping class, the emitted tokens parse (Rust's grammar) to a
       term whose value is the value the documented semantics give the source expression — a value
       or the ZeroDivisionError *)
Theorem C01_expr_correct : forall sc E e,
  regroups (lower_expr sc e) = false ->
  eval E e <> EUnspec -> eval E e <> EStuck ->
  exists t, parse_expr (emit_expr (lower_expr sc e)) = Some t /\ reval E t = to_rres (eval E e).
Proof. intros sc E e Hg H1 H2. exact (expr_correct sc E e Hg (conj H1 H2)). Qed.
Print Assumptions C01_expr_correct.

(* P2  the lemma is false without the class: `(1 + 2) * (3 - 4)` is emitted as `1 + 2 * 3 - 4` *)
Theorem C01_paren_refuted :
  exists e t, regroups (lower_expr [] e) = true /\ eval [] e = EV (VI (-3)) /\
              parse_expr (emit_expr (lower_expr [] e)) = Some t /\ reval [] t = RV (VI 3).
Proof.
  exists witness_paren. destruct paren_refuted as (H1 & H2 & t & H3 & H4). exists t. repeat split; assumption.
Qed.
Print Assumptions C01_paren_refuted.

(* P3  ... and the class is not only about parentheses: `not 1 == 2` is emitted as `!1 == 2` *)
Theorem C01_not_refuted :
  exists e t, regroups (lower_expr [] e) = true /\ eval [] e = EV (VB true) /\
              parse_expr (emit_expr (lower_expr [] e)) = Some t /\ reval [] t = RV (VB false).
Proof.
  exists witness_not. destruct not_refuted as (H1 & H2 & t & H3 & H4). exists t. repeat split; assumption.
Qed.
Print Assumptions C01_not_refuted.

(* P4  statement/program simulation.  For every function of the fragment and every argument list:
       if lowering succeeds and the function is outside the grouping class, then the emitted token
       tree parses (Rust's grammar) to a body which — run with release-build semantics: wrapping i64,
       the C04 helper models — prints the same lines in the same order and stops the same way
       (normally, ZeroDivisionError, ValueError for a zero range step) as the documented semantics
       say, whenever those define the run (enough fuel, no integer overflow, no ill-formed program).
       The Rust side is reached with some fuel F and with every larger fuel. *)
Theorem C01_compile_correct : forall c fuel out k,
  ~ Known_C01_grouping c ->
  (exists ib, lower_fn c = LOk ib) ->
  run fuel c = (out, k) -> k <> OutOfFuel -> k <> Unspec -> k <> Stuck ->
  exists ts b, compile c = COk ts b /\
    exists F, forall F', (F <= F')%nat -> rrun F' (params c) (args c) b = (out, k).
Proof.
  intros c fuel out k Hg Hl Hr H1 H2 H3.
  apply (compile_correct c fuel out k); [|exact Hl|exact Hr|repeat split; assumption].
  unfold Known_C01_grouping in Hg. destruct (known_grouping c); [exfalso; now apply Hg|reflexivity].
Qed.
Print Assumptions C01_compile_correct.

(* P5  the function-level class is real: the grouping witness as a one-line function prints 3, the
       documented semantics print -3 *)
Theorem C01_compile_refuted :
  exists c, Known_C01_grouping c /\ run default_fuel c = ([LI (-3)], Done) /\
            run_compiled default_fuel c = Some ([LI 3], Done).
Proof.
  exists {| params := []; args := []; body := blk [SPrint witness_paren] |}.
  unfold Known_C01_grouping. vm_compute. repeat split; reflexivity.
Qed.
Print Assumptions C01_compile_refuted.
