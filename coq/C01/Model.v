(* C01/Model.v — the compile pipeline on a MiniIncan function, the two known-finding classes,
   and the rendering used by the correspondence/oracle run.  Definitions only. *)
From Verif Require Import Base.I64 C04.Model Core.Syntax Core.Dynamic Core.Rust Core.Lower.
From Coq Require Import ZArith List Bool.
Import ListNotations.
Open Scope Z_scope.

(* helpers for writing cases *)
Fixpoint blk (l : list stmt) : block := match l with [] => BNil | s :: r => BCons s (blk r) end.
Definition default_fuel : nat := Z.to_nat 6000.

(* ---------------------------------------------------------------- pipeline *)

Inductive cres :=
| CLowerErr                         (* lowering reports an internal error *)
| CNoParse (ts : list tt)           (* emitted tokens are not a Rust function body *)
| COk (ts : list tt) (b : rblock).

Definition compile (c : fcase) : cres :=
  match lower_fn c with
  | LErr => CLowerErr
  | LOk ib =>
      let ts := emit_block ib in
      match parse_block ts with
      | Some b => COk ts b
      | None => CNoParse ts
      end
  end.

(* behaviour of the compiled function (release build) *)
Definition run_compiled (fuel : nat) (c : fcase) : option (list line * stop) :=
  match compile c with
  | COk _ b => Some (rrun fuel (params c) (args c) b)
  | _ => None
  end.

(* ---------------------------------------------------------------- class 1: grouping *)

(* Known_C01_grouping: somewhere in the function an expression is emitted so that Rust's grammar
   groups it differently from the source tree (lost parentheses, `not` over a comparison, ...).
   Defined by the re-parse itself: [reparses] for a whole body, Core.Lower.regroups for one
   expression. *)
(* the emitted body reads back (Rust's grammar) as the body the IR denotes *)
Definition reparses (ib : iblock) : bool :=
  match parse_block (emit_block ib) with
  | Some b => rblock_eqb b (tree_of_block ib)
  | None => false
  end.

Definition known_grouping (c : fcase) : bool :=
  match lower_fn c with
  | LOk ib => negb (reparses ib)
  | LErr => false
  end.
Definition Known_C01_grouping (c : fcase) : Prop := known_grouping c = true.

(* ---------------------------------------------------------------- class 2: integer fallback *)

(* Known_C01_int_fallback: `int` is documented as i64, but literals are emitted unsuffixed and
   `let` drops the annotation, so an integer computation that is never unified with an i64-typed
   thing (a parameter, a loop variable, a helper call, a variable already known to be i64) is
   typed i32 by rustc's integer fallback.  [anch A e]: the integer chain of e touches something
   i64 (true for non-integers). *)
Definition aframe := list (ident * bool).
Definition aenv := list aframe.
Fixpoint aflookup (x : ident) (f : aframe) : option bool :=
  match f with [] => None | (y, v) :: r => if x =? y then Some v else aflookup x r end.
Fixpoint alookup (x : ident) (A : aenv) : bool :=
  match A with
  | [] => true
  | f :: r => match aflookup x f with Some v => v | None => alookup x r end
  end.
Definition abind (x : ident) (v : bool) (A : aenv) : aenv :=
  match A with [] => [[(x, v)]] | f :: r => ((x, v) :: f) :: r end.

Fixpoint anch (A : aenv) (e : rexpr) : bool :=
  match e with
  | RInt _ => false
  | RVar x => alookup x A
  | RNeg e1 | RNot e1 => anch A e1
  | RBin o l r => match o with
                  | RAdd | RSub | RMul => anch A l || anch A r
                  | _ => true
                  end
  | RBool _ | RCall _ _ _ | RCast _ => true
  end.

(* every comparison inside e has an anchored side *)
Fixpoint cmp_anch (A : aenv) (e : rexpr) : bool :=
  match e with
  | RBin o l r => cmp_anch A l && cmp_anch A r && (if is_cmp o then anch A l || anch A r else true)
  | RNeg e1 | RNot e1 | RCast e1 => cmp_anch A e1
  | RCall _ a b => cmp_anch A a && cmp_anch A b
  | _ => true
  end.

Fixpoint anch_stmt (A : aenv) (s : rstmt) : bool * aenv :=
  match s with
  | GLet x _ e => (cmp_anch A e && anch A e, abind x (anch A e) A)
  | GAssign x e => (cmp_anch A e && (alookup x A || anch A e), A)
  | GPrint e => (cmp_anch A e && anch A e, A)
  | GIf c th el =>
      (cmp_anch A c && fst (anch_block ([] :: A) th) &&
       match el with GNoElse => true | GElse b => fst (anch_block ([] :: A) b) end, A)
  | GWhile c b => (cmp_anch A c && fst (anch_block ([] :: A) b), A)
  | GLoop b => (fst (anch_block ([] :: A) b), A)
  | GFor x a z s b =>
      (cmp_anch A a && cmp_anch A z && cmp_anch A s && fst (anch_block ([(x, true)] :: A) b), A)
  | GUnit | GBreak | GContinue => (true, A)
  end
with anch_block (A : aenv) (b : rblock) : bool * aenv :=
  match b with
  | GNil => (true, A)
  | GCons s r => let '(ok, A1) := anch_stmt A s in
                 let '(ok2, A2) := anch_block A1 r in (ok && ok2, A2)
  end.

Definition all_anchored (ps : list ident) (b : rblock) : bool :=
  fst (anch_block [map (fun p => (p, true)) ps] b).

Definition known_int_fallback (c : fcase) : bool :=
  match lower_fn c with
  | LOk ib => negb (all_anchored (params c) (tree_of_block ib))
  | LErr => false
  end.
Definition Known_C01_int_fallback (c : fcase) : Prop := known_int_fallback c = true.

(* a small function used to show that the theorems' hypotheses are satisfiable:
   def t(v0: int, v1: int): mut v2 = v0 + 7; for v3 in range(3): println(v2 + v3);
                            if v1 < 0: println(v1 // 2)          called as t(3, -7) *)
Definition nonvacuous_case : fcase :=
  {| params := [0; 1]; args := [3; -7];
     body := blk [SAssign BMut 2 None (EBin OpAdd (EVar 0) (EInt 7));
                  SFor 3 (R1 (EInt 3)) (blk [SPrint (EBin OpAdd (EVar 2) (EVar 3))]);
                  SIf (EBin OpLt (EVar 1) (EInt 0)) (blk [SPrint (EBin OpFloorDiv (EVar 1) (EInt 2))]) ENone] |}.

(* ---------------------------------------------------------------- rendering *)

Definition render_line (l : line) : Z * Z :=
  match l with LI z => (0, z) | LB true => (1, 1) | LB false => (1, 0) end.

Definition render_stop (k : stop) : Z :=
  match k with
  | Done => 0 | ZeroDiv => 1 | StepZero => 2 | Unspec => 3 | RustPanic => 4 | OutOfFuel => 5 | Stuck => 6
  end.

Definition op_code (o : op) : Z :=
  match o with
  | OPlus => 20 | OMinus => 21 | OStar => 22 | OEqEq => 23 | ONe => 24 | OLt => 25 | OLe => 26
  | OGt => 27 | OGe => 28 | OAndAnd => 29 | OOrOr => 30 | OBang => 31
  end.
Definition kw_code (k : kw) : Z :=
  match k with
  | KLet => 40 | KMut => 41 | KIf => 42 | KElse => 43 | KWhile => 44 | KLoop => 45 | KFor => 46
  | KIn => 47 | KBreak => 48 | KContinue => 49
  end.
Definition helper_code (h : helper) : Z :=
  match h with HModI64 => 10 | HMod => 11 | HFloorI64 => 12 | HFloor => 13 end.

Definition tok_code (t : tok) : list Z :=
  match t with
  | TInt n => [1; n] | TId x => [2; x] | TTrue => [3] | TFalse => [4]
  | TPath h => [helper_code h] | TRange => [15]
  | TOp o => [op_code o] | TKw k => [kw_code k]
  | TSemi => [60] | TComma => [61] | TAssign => [62] | TBang => [63] | TPrintln => [64] | TFmt => [65]
  | TAs => [66] | TI64 => [67]
  end.

Fixpoint tt_codes (t : tt) : list Z :=
  match t with
  | T k => tok_code k
  | G d ts =>
      let inner := (fix go (l : list tt) : list Z :=
                      match l with [] => [] | x :: r => tt_codes x ++ go r end) ts in
      match d with Paren => 70 :: inner ++ [71] | Brace => 72 :: inner ++ [73] end
  end.
Definition tts_codes (ts : list tt) : list Z := flat_map tt_codes ts.

(* one record per generated function:
   (source lines, source stop), (compile status, rust lines, rust stop, well-typed),
   (known_grouping, known_int_fallback), emitted token codes *)
Definition render_out (r : list line * stop) : list (Z * Z) * Z :=
  (map render_line (fst r), render_stop (snd r)).

Definition run_case (fuel : nat) (c : fcase)
  : (list (Z * Z) * Z) * (Z * (list (Z * Z) * Z) * bool) * (bool * bool) * list Z :=
  let src := render_out (run fuel c) in
  let flags := (known_grouping c, known_int_fallback c) in
  match compile c with
  | CLowerErr => (src, (1, ([], 6), false), flags, [])
  | CNoParse ts => (src, (2, ([], 6), false), flags, tts_codes ts)
  | COk ts b => (src, (0, render_out (rrun fuel (params c) (args c) b), rtype_fn (params c) b), flags, tts_codes ts)
  end.
