(* C01/Model.v — the compile pipeline on a MiniIncan function, the two known-finding classes,
   and the rendering used by the correspondence/oracle run.  Definitions only. *)
From Verif Require Import Base.I64 C04.Model Core.Syntax Core.Dynamic Core.Rust Core.Lower.
From Coq Require Import ZArith List Bool.
Import ListNotations.
Open Scope Z_scope.

(* helpers for writing cases *)
Fixpoint blk (l : list stmt) : block := match l with [] => BNil | s :: r => BCons s (blk r) end.
Definition default_fuel : nat := Z.to_nat 6000.

(* ---------------------------------------------------------------- pipeline *)

Inductive cres_ :=
| CLowerErr                         (* lowering reports an internal error *)
| CNoParse (ts : list tt)           (* emitted tokens are not a sequence of Rust function items *)
| COk (ts : list tt) (p : rprog).

Definition compile (c : fcase) : cres_ :=
  match lower_prog (cprog c) with
  | LErr => CLowerErr
  | LOk fs =>
      let ts := emit_fns fs in
      match parse_items ts with
      | Some p => COk ts p
      | None => CNoParse ts
      end
  end.

(* the emitted arguments of the entry call `f<entry>(args)` *)
Definition entry_args (c : fcase) : list rexpr :=
  match lower_c (cprog c) [] (CCall (centry c) (map EInt (args c)) []) with
  | ICallU _ l => map tree_of l
  | IPure _ => []
  end.

(* behaviour of the compiled program (release build) when the entry function is called *)
Definition run_compiled (fuel : nat) (c : fcase) : option (list line * stop) :=
  match compile c with
  | COk _ p => Some (rrun fuel p (centry c) (entry_args c))
  | _ => None
  end.

(* ---------------------------------------------------------------- class 1: grouping *)

(* Known_C01_grouping: somewhere in the program an expression is emitted so that Rust's grammar
   groups it differently from the source tree (lost parentheses, `not` over a comparison, ...).
   Defined by the re-parse itself: [reparses] for a whole program, Core.Lower.regroups for one
   expression. *)
(* the emitted items read back (Rust's grammar) as the functions the IR denotes *)
Definition reparses (fs : list ifn) : bool :=
  match parse_items (emit_fns fs) with
  | Some p => rprog_eqb p (tree_of_fns fs)
  | None => false
  end.

Definition known_grouping (c : fcase) : bool :=
  match lower_prog (cprog c) with
  | LOk fs => negb (reparses fs)
  | LErr => false
  end.
Definition Known_C01_grouping (c : fcase) : Prop := known_grouping c = true.

(* ---------------------------------------------------------------- class 2: integer fallback *)

(* Known_C01_int_fallback: `int` is documented as i64, but literals are emitted unsuffixed and
   `let` drops the annotation, so an integer computation that is never unified with an i64-typed
   thing (a parameter, a loop variable, a helper call, a variable already known to be i64) is
   typed i32 by rustc's integer fallback.  [anch A e]: the integer chain of e touches something
   i64 (true for non-integers). *)
Definition aframe := list (ident * bool).
Definition aenv := list aframe.
Fixpoint aflookup (x : ident) (f : aframe) : option bool :=
  match f with [] => None | (y, v) :: r => if x =? y then Some v else aflookup x r end.
Fixpoint alookup (x : ident) (A : aenv) : bool :=
  match A with
  | [] => true
  | f :: r => match aflookup x f with Some v => v | None => alookup x r end
  end.
Definition abind (x : ident) (v : bool) (A : aenv) : aenv :=
  match A with [] => [[(x, v)]] | f :: r => ((x, v) :: f) :: r end.

Fixpoint anch (A : aenv) (e : rexpr) : bool :=
  match e with
  | RInt _ => false
  | RVar x => alookup x A
  | RNeg e1 | RNot e1 => anch A e1
  | RBin o l r => match o with
                  | RAdd | RSub | RMul => anch A l || anch A r
                  | _ => true
                  end
  | RBool _ | RCall _ _ _ | RCast _ => true
  end.

(* every comparison inside e has an anchored side *)
Fixpoint cmp_anch (A : aenv) (e : rexpr) : bool :=
  match e with
  | RBin o l r => cmp_anch A l && cmp_anch A r && (if is_cmp o then anch A l || anch A r else true)
  | RNeg e1 | RNot e1 | RCast e1 => cmp_anch A e1
  | RCall _ a b => cmp_anch A a && cmp_anch A b
  | _ => true
  end.

(* call-level: a call's arguments and result are i64 by the callee's signature *)
Definition anch_c (A : aenv) (c : rcexpr) : bool :=
  match c with RPure e => anch A e | RUCall _ _ => true end.
Definition cmp_anch_c (A : aenv) (c : rcexpr) : bool :=
  match c with RPure e => cmp_anch A e | RUCall _ l => forallb (cmp_anch A) l end.

Fixpoint anch_stmt (A : aenv) (s : rstmt) : bool * aenv :=
  match s with
  | GLet x _ e => (cmp_anch_c A e && anch_c A e, abind x (anch_c A e) A)
  | GAssign x e => (cmp_anch_c A e && (alookup x A || anch_c A e), A)
  | GPrint e => (cmp_anch_c A e && anch_c A e, A)
  | GExpr e => (cmp_anch_c A e, A)
  | GReturn None => (true, A)
  | GReturn (Some e) => (cmp_anch_c A e, A)          (* unified with the i64 return type *)
  | GIf c th el =>
      (cmp_anch A c && fst (anch_block ([] :: A) th) &&
       match el with GNoElse => true | GElse b => fst (anch_block ([] :: A) b) end, A)
  | GWhile c b => (cmp_anch A c && fst (anch_block ([] :: A) b), A)
  | GLoop b => (fst (anch_block ([] :: A) b), A)
  | GFor x a z s b =>
      (cmp_anch A a && cmp_anch A z && cmp_anch A s && fst (anch_block ([(x, true)] :: A) b), A)
  | GUnit | GBreak | GContinue => (true, A)
  end
with anch_block (A : aenv) (b : rblock) : bool * aenv :=
  match b with
  | GNil => (true, A)
  | GCons s r => let '(ok, A1) := anch_stmt A s in
                 let '(ok2, A2) := anch_block A1 r in (ok && ok2, A2)
  end.

Definition all_anchored (ps : list ident) (b : rblock) : bool :=
  fst (anch_block [map (fun p => (p, true)) ps] b).

Definition known_int_fallback (c : fcase) : bool :=
  match lower_prog (cprog c) with
  | LOk fs => negb (forallb (fun d => all_anchored (iparams d) (tree_of_block (ibody d))) fs)
  | LErr => false
  end.
Definition Known_C01_int_fallback (c : fcase) : Prop := known_int_fallback c = true.

(* Fragment restriction on calls: keyword arguments written OUT of declaration order must be atoms
   (literals or variables).  The emitted Rust evaluates arguments in declaration order, the
   source in written order; with call-free arguments the difference is not observable, and for atoms
   that needs no typing argument.  (With calls nested in arguments — outside this fragment — it IS
   observable: finding kwarg-eval-order.) *)
Definition atom (e : expr) : bool :=
  match e with EInt _ | EBool _ | EVar _ => true | _ => false end.
Fixpoint is_seq (l : list nat) (i : nat) : bool :=
  match l with [] => true | x :: r => Nat.eqb x i && is_seq r (S i) end.
Definition call_wf (P : prog) (c : cexpr) : bool :=
  match c with
  | CPure _ => true
  | CCall f pos kw =>
      match find_fn f P with
      | Some d =>
          match select (fparams d) (length pos) O (map fst kw) with
          | Some sel => (Nat.eqb (length sel) (length pos + length kw) && is_seq sel O)
                        || forallb atom (pos ++ map snd kw)
          | None => true
          end
      | None => true
      end
  end.
Fixpoint calls_wf_stmt (P : prog) (s : stmt) : bool :=
  match s with
  | SAssign _ _ _ c | SPrint c | SExpr c => call_wf P c
  | SReturn (Some c) => call_wf P c
  | SIf _ th el => calls_wf_block P th && calls_wf_els P el
  | SWhile _ b | SFor _ _ b => calls_wf_block P b
  | _ => true
  end
with calls_wf_block (P : prog) (b : block) : bool :=
  match b with BNil => true | BCons s r => calls_wf_stmt P s && calls_wf_block P r end
with calls_wf_els (P : prog) (el : els) : bool :=
  match el with
  | ENone => true
  | EElse b => calls_wf_block P b
  | EElif _ b rest => calls_wf_block P b && calls_wf_els P rest
  end.
Definition calls_wf (P : prog) : bool := forallb (fun d => calls_wf_block P (fbody d)) P.

(* a small program used to show that the theorems' hypotheses are satisfiable:
   def f1(v0: int, v1: int) -> int: return v0 * 10 - v1
   def f0(v0: int, v1: int) -> None:
       mut v2 = v0 + 7
       for v3 in range(3): println(v2 + v3)
       if v1 < 0: println(v1 // 2)
       v4 = f1(v1=v0, v0=2)            # keyword arguments out of declaration order
       println(v4)                      called as f0(3, -7) *)
Definition nonvacuous_case : fcase :=
  {| cprog :=
       [{| fname := 1; fparams := [0; 1]; fret := true;
           fbody := blk [SReturn (Some (CPure (EBin OpSub (EBin OpMul (EVar 0) (EInt 10)) (EVar 1))))] |};
        {| fname := 0; fparams := [0; 1]; fret := false;
           fbody := blk [SAssign BMut 2 None (CPure (EBin OpAdd (EVar 0) (EInt 7)));
                         SFor 3 (R1 (EInt 3)) (blk [SPrint (CPure (EBin OpAdd (EVar 2) (EVar 3)))]);
                         SIf (EBin OpLt (EVar 1) (EInt 0)) (blk [SPrint (CPure (EBin OpFloorDiv (EVar 1) (EInt 2)))]) ENone;
                         SAssign BInferred 4 None (CCall 1 [] [(1, EVar 0); (0, EInt 2)]);
                         SPrint (CPure (EVar 4))] |}];
     centry := 0; args := [3; -7] |}.

(* ---------------------------------------------------------------- elif ladders (order of the conditions) *)

(* an if/elif ladder written as the list of its (condition, body) pairs in SOURCE order + what follows the last elif *)
Fixpoint ladder (br : list (expr * block)) (tail : els) : els :=
  match br with [] => tail | (c, b) :: r => EElif c b (ladder r tail) end.

(* the elif conditions of a source `els` chain, in source order *)
Fixpoint els_conds (el : els) : list expr :=
  match el with EElif c _ r => c :: els_conds r | _ => [] end.

(* the conditions met when walking the lowered chain `else { if c1 {..} else { if c2 {..} else .. } }` from the outside in,
   i.e. in the order the generated Rust tests them *)
Fixpoint chain_conds (el : iels) : list iexpr :=
  match el with
  | GElse (GCons (GIf c _ el') GNil) => c :: chain_conds el'
  | _ => []
  end.

(* for one case: the elif conditions of every `if` of the entry function, lowered, are exactly the outside-in conditions of
   the lowered chains (computed; used by the run to count the ladders the emitted-token tie covered) *)
Fixpoint max_elifs_stmt (s : stmt) : nat :=
  match s with
  | SIf _ th el => Nat.max (length (els_conds el)) (Nat.max (max_elifs_block th) (max_elifs_els el))
  | SWhile _ b | SFor _ _ b => max_elifs_block b
  | _ => O
  end
with max_elifs_block (b : block) : nat :=
  match b with BNil => O | BCons s r => Nat.max (max_elifs_stmt s) (max_elifs_block r) end
with max_elifs_els (el : els) : nat :=
  match el with
  | ENone => O
  | EElse b => max_elifs_block b
  | EElif _ b r => Nat.max (max_elifs_block b) (max_elifs_els r)
  end.

(* ---------------------------------------------------------------- rendering *)

Definition render_line (l : line) : Z * Z :=
  match l with LI z => (0, z) | LB true => (1, 1) | LB false => (1, 0) end.

Definition render_stop (k : stop) : Z :=
  match k with
  | Done => 0 | ZeroDiv => 1 | StepZero => 2 | Unspec => 3 | RustPanic => 4 | OutOfFuel => 5 | Stuck => 6
  end.

Definition op_code (o : op) : Z :=
  match o with
  | OPlus => 20 | OMinus => 21 | OStar => 22 | OEqEq => 23 | ONe => 24 | OLt => 25 | OLe => 26
  | OGt => 27 | OGe => 28 | OAndAnd => 29 | OOrOr => 30 | OBang => 31
  end.
Definition kw_code (k : kw) : Z :=
  match k with
  | KLet => 40 | KMut => 41 | KIf => 42 | KElse => 43 | KWhile => 44 | KLoop => 45 | KFor => 46
  | KIn => 47 | KBreak => 48 | KContinue => 49 | KReturn => 50 | KFn => 51
  end.
Definition helper_code (h : helper) : Z :=
  match h with HModI64 => 10 | HMod => 11 | HFloorI64 => 12 | HFloor => 13 end.

Definition tok_code (t : tok) : list Z :=
  match t with
  | TInt n => [1; n] | TId x => [2; x] | TFn f => [5; f] | TTrue => [3] | TFalse => [4]
  | TPath h => [helper_code h] | TRange => [15]
  | TOp o => [op_code o] | TKw k => [kw_code k]
  | TSemi => [60] | TComma => [61] | TAssign => [62] | TBang => [63] | TPrintln => [64] | TFmt => [65]
  | TAs => [66] | TI64 => [67] | TColon => [68] | TArrow => [69]
  end.

Fixpoint tt_codes (t : tt) : list Z :=
  match t with
  | T k => tok_code k
  | G d ts =>
      let inner := (fix go (l : list tt) : list Z :=
                      match l with [] => [] | x :: r => tt_codes x ++ go r end) ts in
      match d with Paren => 70 :: inner ++ [71] | Brace => 72 :: inner ++ [73] end
  end.
Definition tts_codes (ts : list tt) : list Z := flat_map tt_codes ts.

(* one record per generated program:
   (source lines, source stop), (compile status, rust lines, rust stop, well-typed),
   (known_grouping, known_int_fallback, calls_wf), emitted token codes of the whole file *)
Definition render_out (r : list line * stop) : list (Z * Z) * Z :=
  (map render_line (fst r), render_stop (snd r)).

Definition run_case (fuel : nat) (c : fcase)
  : (list (Z * Z) * Z) * (Z * (list (Z * Z) * Z) * bool) * (bool * bool * bool) * list Z :=
  let src := render_out (run fuel c) in
  let flags := (known_grouping c, known_int_fallback c, calls_wf (cprog c)) in
  match compile c with
  | CLowerErr => (src, (1, ([], 6), false), flags, [])
  | CNoParse ts => (src, (2, ([], 6), false), flags, tts_codes ts)
  | COk ts p => (src, (0, render_out (rrun fuel p (centry c) (entry_args c)), rtype_prog p), flags, tts_codes ts)
  end.
