(* C07/Props.v — property theorems for C07 (numeric result types in every phase). *)
From Verif Require Import Base.I64 Gen.CoreNum Gen.Adapters C07.Model C07.Proofs.
Open Scope Z_scope.

Example C07_nonvacuous :
  let e := ABin OAdd (ABin OPow (AVar false) (AParen (AIntLit 2))) (ANeg (ABin OFloorDiv (AIntLit 7) (AVar true))) in
  clean e = true /\ doc_ty e = DFloat /\ accepts DFloat e = true /\ accepts DInt e = false /\
  accepts_compound DFloat ODiv (AIntLit 2) = true /\ accepts_compound DInt ODiv (AIntLit 2) = false.
Proof. cbv zeta. repeat split; reflexivity. Qed.

(* P1  the implementation's table (regenerated from incan_core) is the documented table *)
Theorem C07_table_matches_reference : forall op l r k,
  core_result_numeric_type op l r k = doc_table op l r k.
Proof. exact table_matches_reference. Qed.
Print Assumptions C07_table_matches_reference.

(* P2  type checker = const evaluator = lowering = Rust's type of the emitted code = documented
       type, for arithmetic trees of any depth (literals/variables of either kind, Paren, unary
       minus, literal and non-literal exponents) — on the complement of known finding
       neg-paren-zero ([clean]; the only exclusion left) *)
Theorem C07_phases_agree : forall e, clean e = true ->
  chk e = dty_res (doc_ty e) /\
  (paren_free e = true -> cst e = Some (dty_res (doc_ty e))) /\
  snd (lower e) = ir_of (dty_res (doc_ty e)) /\
  rust_ty (fst (lower e)) = Some (rust_of_d (doc_ty e)).
Proof. exact phases_agree. Qed.
Print Assumptions C07_phases_agree.

(* P2'  whatever type the const evaluator assigns is the documented one (it rejects Paren) *)
Theorem C07_const_type_sound : forall e, clean e = true -> forall t, cst e = Some t -> t = dty_res (doc_ty e).
Proof. exact cst_sound. Qed.
Print Assumptions C07_const_type_sound.

(* P3  comparisons are bool and may mix int and float, in the checker and in the emitted Rust *)
Theorem C07_comparisons_bool : forall o l r, clean l = true -> clean r = true ->
  chk_cmp o (chk l) (chk r) = ResolvedType_Bool /\
  rust_ty (IBin (ast_to_ir (cop_ast o)) (fst (lower l)) (ir_of (chk l)) (fst (lower r)) (ir_of (chk r))) = Some RBool.
Proof. exact cmp_spec. Qed.
Print Assumptions C07_comparisons_bool.

(* P4  `x: int = a / b` is always rejected (for all operands, no side condition) *)
Theorem C07_div_never_int : forall l r, accepts DInt (ABin ODiv l r) = false.
Proof. exact div_never_int. Qed.
Print Assumptions C07_div_never_int.

(* P5  an accepted annotated binding (let, return, argument) never changes numeric kind *)
Theorem C07_annotated_binding_keeps_kind : forall ann e, clean e = true -> accepts ann e = true ->
  rust_ty (fst (lower e)) = Some (rust_of_d ann) /\ doc_ty e = ann.
Proof. exact annotated_binding_keeps_kind. Qed.
Print Assumptions C07_annotated_binding_keeps_kind.

(* P6  compound assignment: accepted only when `x op e` has x's kind; the emitted code has it *)
Theorem C07_compound_assignment : forall var o e, clean e = true -> accepts_compound var o e = true ->
  compound_rust var o e = Some (rust_of_d var) /\ doc_bin o var (doc_ty e) None = var.
Proof. exact compound_spec. Qed.
Print Assumptions C07_compound_assignment.

(* P6'  which runtime helper the emitter calls: `_i64` helpers exactly for int // int and int % int,
        `py_div` always for `/`, integer `.pow` exactly when the documented result is int; an operand
        is cast to f64 exactly when it is int and the result is float — so the value computed is the
        one C04 proves about that helper; the base of `**` is grouped exactly when its emitted text ends
        in a cast (promoted, or [tail_cast]), which is when an ungrouped method call would not be Rust *)
Theorem C07_helper_choice : forall o l r, clean (ABin o l r) = true ->
  let dl := doc_ty l in let dr := doc_ty r in
  let d := doc_ty (ABin o l r) in
  let isf := match d with DFloat => 1 | DInt => 0 end in
  emit_shape o l r =
  [ match o with ODiv => 2 | OMod => 30 + isf | OFloorDiv => 40 + isf | OPow => 50 + isf | _ => 1 end;
    bcode (match d, dl with DFloat, DInt => true | _, _ => false end);
    bcode (match d, dr with DFloat, DInt => true | _, _ => false end);
    bcode (match o with OPow => (match d, dl with DFloat, DInt => true | _, _ => false end) || tail_cast (fst (lower l)) | _ => false end) ].
Proof. exact emit_shape_spec. Qed.
Print Assumptions C07_helper_choice.

(* P7'  regression witnesses of the repaired findings tail-cast-pow and tail-cast-lt: `(2.5 + a) ** x`
        and `(x + a) < y` (the left operand's text ends in a cast) are grouped and well-typed Rust *)
Theorem C07_tail_cast_findings_fixed :
  (let e := ABin OPow (AParen (ABin OAdd AFloatLit (AVar false))) (AVar true) in
   clean e = true /\ chk e = ResolvedType_Float /\ rust_ty (fst (lower e)) = Some RF64 /\
   tail_cast (fst (lower (AParen (ABin OAdd AFloatLit (AVar false))))) = true /\
   emit_shape OPow (AParen (ABin OAdd AFloatLit (AVar false))) (AVar true) = [51; 0; 0; 1]) /\
  (let l := AParen (ABin OAdd (AVar true) (AVar false)) in let r := AVar true in
   tail_cast (fst (lower l)) = true /\ group_lhs NumericOp_Lt false (fst (lower l)) = true /\
   chk_cmp CLt (chk l) (chk r) = ResolvedType_Bool /\
   rust_ty (IBin (ast_to_ir (cop_ast CLt)) (fst (lower l)) (ir_of (chk l)) (fst (lower r)) (ir_of (chk r))) = Some RBool).
Proof. exact tail_cast_findings_fixed. Qed.
Print Assumptions C07_tail_cast_findings_fixed.

(* P7''  regression witnesses of the repaired findings cast-method-pow (`a ** b`) and cast-lt (`a < x`) *)
Theorem C07_cast_findings_fixed :
  (let e := ABin OPow (AVar false) (AVar false) in
   clean e = true /\ chk e = ResolvedType_Float /\ rust_ty (fst (lower e)) = Some RF64) /\
  (let l := AVar false in let r := AVar true in
   rust_ty (IBin (ast_to_ir (cop_ast CLt)) (fst (lower l)) (ir_of (chk l)) (fst (lower r)) (ir_of (chk r))) = Some RBool).
Proof. exact cast_findings_fixed. Qed.
Print Assumptions C07_cast_findings_fixed.

(* P7  known finding neg-paren-zero: `x ** -(0)` is float for the checker and lowering but the
       emitter chooses integer exponentiation *)
Theorem C07_neg_paren_zero_refuted :
  let e := ABin OPow (AVar false) (ANeg (AParen (AIntLit 0))) in
  clean e = false /\ chk e = ResolvedType_Float /\ snd (lower e) = IrType_Float /\
  rust_ty (fst (lower e)) = Some RI64.
Proof. exact neg_paren_zero_refuted. Qed.
Print Assumptions C07_neg_paren_zero_refuted.
