(* C07/Proofs.v *)
From Verif Require Import Base.I64 Base.F64 Gen.CoreNum Gen.Adapters C07.Model.
From Coq Require Import ZifyBool.
Open Scope Z_scope.

(* the implementation's table is the documented table: all 13 x 2 x 2 x 5 entries *)
Lemma table_matches_reference op l r k : core_result_numeric_type op l r k = doc_table op l r k.
Proof. destruct op, l, r; destruct k as [[]|]; reflexivity. Qed.

Lemma extract_is_doc_literal e : extract_ast e = doc_literal e.
Proof. induction e; cbn; try reflexivity; try assumption. Qed.

(* an AST literal is an IR literal with the same value *)
Lemma ast_lit_ir_lit r n : extract_ast r = Some n -> ir_lit (fst (lower r)) = Some n.
Proof.
  revert n. induction r as [m| |f|i IH|i IH|o l IHl r' IHr]; intros n H; cbn in *; try discriminate.
  - exact H.
  - apply IH. exact H.
  - destruct i; try discriminate. cbn in *. exact H.
Qed.

Definition lit_class (lit : option Z) : PowExponentKind := core_PowExponentKind_from_literal_info false lit.

Lemma chk_arith_spec o dl dr r :
  chk_arith o (dty_res dl) (dty_res dr) r = dty_res (doc_bin o dl dr (extract_ast r)).
Proof.
  destruct o, dl, dr; try reflexivity; cbn.
  all: unfold pow_kind_ast, core_PowExponentKind_from_literal_info; cbn.
  all: destruct (extract_ast r) as [n|]; try reflexivity.
  all: destruct (n >=? 0) eqn:E; [replace (0 <=? n) with true by lia|replace (0 <=? n) with false by lia]; reflexivity.
Qed.

Lemma cst_arith_spec o dl dr r :
  cst_arith o (dty_res dl) (dty_res dr) r = Some (dty_res (doc_bin o dl dr (extract_ast r))).
Proof.
  destruct o, dl, dr; try reflexivity; cbn.
  all: unfold pow_kind_ast, core_PowExponentKind_from_literal_info; cbn.
  all: destruct (extract_ast r) as [n|]; try reflexivity.
  all: destruct (n >=? 0) eqn:E; [replace (0 <=? n) with true by lia|replace (0 <=? n) with false by lia]; reflexivity.
Qed.

Lemma lower_bin_spec o dl dr r :
  binary_result_type (ir_of (dty_res dl)) (ir_of (dty_res dr)) o
     (match o with OPow => Some (pow_kind_lower r (ir_of (dty_res dr))) | _ => None end)
  = ir_of (dty_res (doc_bin o dl dr (extract_ast r))).
Proof.
  destruct o, dl, dr; try reflexivity; cbn.
  all: unfold pow_kind_lower, core_PowExponentKind_from_literal_info; cbn.
  all: destruct (extract_ast r) as [n|]; try reflexivity.
  all: destruct (n >=? 0) eqn:E; [replace (0 <=? n) with true by lia|replace (0 <=? n) with false by lia]; reflexivity.
Qed.

Definition rust_of_d (d : dty) : rty := match d with DInt => RI64 | DFloat => RF64 end.

(* Rust's type of the emitted binary operation = the documented type, provided the emitter's
   exponent classification (on the IR) agrees with the checker's (on the AST) *)
Lemma rust_bin_spec o dl dr r :
  (o = OPow -> bad_exp r = false) ->
  rust_binop (ast_to_ir (aop_ast o)) (ir_of (dty_res dl)) (ir_of (dty_res dr)) (fst (lower r))
             (rust_of_d dl) (rust_of_d dr)
  = Some (rust_of_d (doc_bin o dl dr (extract_ast r))).
Proof.
  intros Hbad.
  destruct o; try (destruct dl, dr; reflexivity).
  pose proof (Hbad eq_refl) as Hb. unfold bad_exp in Hb.
  destruct dl, dr; cbn.
  - (* int ** int *)
    unfold pow_kind_ir, core_PowExponentKind_from_literal_info; cbn.
    fold (ir_lit (fst (lower r))).
    destruct (extract_ast r) as [n|] eqn:Ea.
    + rewrite (ast_lit_ir_lit r n Ea).
      destruct (n >=? 0) eqn:E; [replace (0 <=? n) with true by lia|replace (0 <=? n) with false in * by lia]; reflexivity.
    + destruct (ir_lit (fst (lower r))) as [n|]; [|reflexivity].
      replace (n >=? 0) with false by lia. reflexivity.
  - (* int ** float *) reflexivity.
  - (* float ** int *)
    unfold pow_kind_ir, core_PowExponentKind_from_literal_info; cbn.
    destruct (match fst (lower r) with IInt n => Some n | INeg (IInt n) => Some (- n) | _ => None end) as [n|];
      [destruct (n >=? 0)|]; reflexivity.
  - (* float ** float *) reflexivity.
Qed.

(* all phases agree with the documented type, for expression trees of any depth *)
Lemma phases_agree e : clean e = true ->
  chk e = dty_res (doc_ty e) /\
  (paren_free e = true -> cst e = Some (dty_res (doc_ty e))) /\
  snd (lower e) = ir_of (dty_res (doc_ty e)) /\
  rust_ty (fst (lower e)) = Some (rust_of_d (doc_ty e)).
Proof.
  induction e as [n| |f|i IH|i IH|o l IHl r IHr]; intros Hc; cbn [clean] in Hc.
  - repeat split; reflexivity.
  - repeat split; reflexivity.
  - destruct f; repeat split; reflexivity.
  - destruct (IH Hc) as (H1 & H2 & H3 & H4). cbn. repeat split; auto. discriminate.
  - destruct (IH Hc) as (H1 & H2 & H3 & H4). cbn [chk cst lower doc_ty paren_free].
    rewrite H1. destruct (lower i) as [ie t] eqn:El. cbn [fst snd] in *.
    cbn [rust_ty]. rewrite H4, H3.
    split; [destruct (doc_ty i); reflexivity|].
    split; [intros Hp; rewrite (H2 Hp); destruct (doc_ty i); reflexivity|].
    destruct (doc_ty i); cbn; auto.
  - apply andb_prop in Hc. destruct Hc as [Hc Hp]. apply andb_prop in Hc. destruct Hc as [Hcl Hcr].
    destruct (IHl Hcl) as (L1 & L2 & L3 & L4). destruct (IHr Hcr) as (R1 & R2 & R3 & R4).
    cbn [chk cst lower doc_ty fst snd rust_ty paren_free].
    rewrite L1, R1, L4, R4. rewrite <- extract_is_doc_literal.
    split; [apply chk_arith_spec|].
    split; [intros Hpf; apply andb_prop in Hpf; destruct Hpf as [Hpl Hpr];
            rewrite (L2 Hpl), (R2 Hpr); apply cst_arith_spec|].
    split; [apply lower_bin_spec|].
    apply rust_bin_spec. intros ->. now apply negb_true_iff in Hp.
Qed.

(* whatever type the const evaluator assigns is the documented one (Paren included: it rejects) *)
Lemma cst_sound e : clean e = true -> forall t, cst e = Some t -> t = dty_res (doc_ty e).
Proof.
  induction e as [n| |f|i IH|i IH|o l IHl r IHr]; intros Hc t Ht; cbn [clean cst doc_ty] in *.
  - inversion Ht; reflexivity.
  - inversion Ht; reflexivity.
  - destruct f; inversion Ht; reflexivity.
  - discriminate.
  - destruct (cst i) as [ti|] eqn:E; [|discriminate].
    rewrite (IH Hc ti eq_refl) in Ht. destruct (doc_ty i); cbn in Ht; inversion Ht; reflexivity.
  - apply andb_prop in Hc. destruct Hc as [Hc _]. apply andb_prop in Hc. destruct Hc as [Hcl Hcr].
    destruct (cst l) as [tl|] eqn:El; [|discriminate]. destruct (cst r) as [tr|] eqn:Er; [|discriminate].
    rewrite (IHl Hcl tl eq_refl), (IHr Hcr tr eq_refl) in Ht.
    rewrite cst_arith_spec in Ht. rewrite <- extract_is_doc_literal. congruence.
Qed.

(* an int-valued expression's emitted text never ends in a cast *)
Lemma tail_cast_int e : clean e = true -> doc_ty e = DInt -> tail_cast (fst (lower e)) = false.
Proof.
  induction e as [n| |f|i IH|i IH|o l IHl r IHr]; intros Hc Hd; cbn [clean doc_ty lower fst tail_cast] in *;
    try reflexivity.
  - apply IH; assumption.
  - destruct (lower i) as [ie t] eqn:El. cbn [fst tail_cast] in *. apply IH; assumption.
  - apply andb_prop in Hc. destruct Hc as [Hc _]. apply andb_prop in Hc. destruct Hc as [Hcl Hcr].
    destruct (phases_agree l Hcl) as (L1 & _). destruct (phases_agree r Hcr) as (R1 & _).
    rewrite L1, R1.
    destruct o, (doc_ty l) eqn:Dl, (doc_ty r) eqn:Dr; cbn in Hd; try discriminate; cbn; try reflexivity;
      apply IHr; auto.
Qed.

(* comparisons: bool in the checker, and what is emitted (`l op r` after promotion) is bool for
   Rust, mixed int/float included *)
Lemma cmp_spec o l r : clean l = true -> clean r = true ->
  chk_cmp o (chk l) (chk r) = ResolvedType_Bool /\
  rust_ty (IBin (ast_to_ir (cop_ast o)) (fst (lower l)) (ir_of (chk l)) (fst (lower r)) (ir_of (chk r))) = Some RBool.
Proof.
  intros Hl Hr.
  destruct (phases_agree l Hl) as (L1 & _ & _ & L4). destruct (phases_agree r Hr) as (R1 & _ & _ & R4).
  cbn [rust_ty]. rewrite L1, R1, L4, R4.
  destruct o, (doc_ty l), (doc_ty r); split; reflexivity.
Qed.

(* every arithmetic tree over int/float operands has a numeric checker type (no side condition) *)
Lemma chk_numeric e : exists n, chk e = of_num n.
Proof.
  induction e as [n| |f|i IH|i IH|o l IHl r IHr]; cbn [chk].
  - exists NumericTy_Int; reflexivity.
  - exists NumericTy_Float; reflexivity.
  - destruct f; [exists NumericTy_Float|exists NumericTy_Int]; reflexivity.
  - exact IH.
  - destruct IH as [[] ->]; [exists NumericTy_Int|exists NumericTy_Float]; reflexivity.
  - destruct IHl as [ln ->], IHr as [rn ->]. unfold chk_arith.
    destruct o, ln, rn; cbn;
      try (exists NumericTy_Int; reflexivity); try (exists NumericTy_Float; reflexivity).
    (* int ** int *)
    destruct (core_result_numeric_type NumericOp_Pow NumericTy_Int NumericTy_Int
                (Some (pow_kind_ast r ResolvedType_Int))); eauto.
Qed.

(* `x: int = a / b` is always rejected *)
Lemma div_never_int l r : accepts DInt (ABin ODiv l r) = false.
Proof.
  unfold accepts. cbn [chk].
  destruct (chk_numeric l) as [ln ->], (chk_numeric r) as [rn ->].
  destruct ln, rn; reflexivity.
Qed.

Lemma ResolvedType_eqb_dty a d : ResolvedType_eqb (dty_res a) (dty_res d) = true -> a = d.
Proof. destruct a, d; cbn; congruence. Qed.

(* an accepted annotated binding has, at run time, the annotated numeric kind *)
Lemma annotated_binding_keeps_kind ann e : clean e = true -> accepts ann e = true ->
  rust_ty (fst (lower e)) = Some (rust_of_d ann) /\ doc_ty e = ann.
Proof.
  intros Hc Ha. destruct (phases_agree e Hc) as (H1 & _ & _ & H4).
  unfold accepts in Ha. rewrite H1 in Ha. apply ResolvedType_eqb_dty in Ha. subst ann. auto.
Qed.

(* compound assignment: accepted iff the result kind is the variable's, and then the emitted
   `x = x op e` is well-typed Rust of that kind *)
Lemma compound_spec var o e : clean e = true -> accepts_compound var o e = true ->
  compound_rust var o e = Some (rust_of_d var) /\ doc_bin o var (doc_ty e) None = var.
Proof.
  intros Hc Ha. destruct (phases_agree e Hc) as (H1 & _ & _ & H4).
  unfold accepts_compound in Ha. unfold compound_rust. rewrite H1 in *. rewrite H4.
  destruct o, var, (doc_ty e); cbn in *; try discriminate; split; reflexivity.
Qed.

(* regression witnesses of the repaired findings tail-cast-pow and tail-cast-lt: `(2.5 + a) ** x`
   and `(x + a) < y` — the left operand's text ends in a cast, it is grouped, the emitted tokens
   are Rust of the documented type *)
Lemma tail_cast_findings_fixed :
  (let e := ABin OPow (AParen (ABin OAdd AFloatLit (AVar false))) (AVar true) in
   clean e = true /\ chk e = ResolvedType_Float /\ rust_ty (fst (lower e)) = Some RF64 /\
   tail_cast (fst (lower (AParen (ABin OAdd AFloatLit (AVar false))))) = true /\
   emit_shape OPow (AParen (ABin OAdd AFloatLit (AVar false))) (AVar true) = [51; 0; 0; 1]) /\
  (let l := AParen (ABin OAdd (AVar true) (AVar false)) in let r := AVar true in
   tail_cast (fst (lower l)) = true /\ group_lhs NumericOp_Lt false (fst (lower l)) = true /\
   chk_cmp CLt (chk l) (chk r) = ResolvedType_Bool /\
   rust_ty (IBin (ast_to_ir (cop_ast CLt)) (fst (lower l)) (ir_of (chk l)) (fst (lower r)) (ir_of (chk r))) = Some RBool).
Proof. cbv zeta. repeat split; reflexivity. Qed.

(* regression witnesses of the repaired findings cast-method-pow and cast-lt *)
Lemma cast_findings_fixed :
  (let e := ABin OPow (AVar false) (AVar false) in
   clean e = true /\ chk e = ResolvedType_Float /\ rust_ty (fst (lower e)) = Some RF64) /\
  (let l := AVar false in let r := AVar true in
   rust_ty (IBin (ast_to_ir (cop_ast CLt)) (fst (lower l)) (ir_of (chk l)) (fst (lower r)) (ir_of (chk r))) = Some RBool).
Proof. cbv zeta. repeat split; reflexivity. Qed.

(* the known finding is real in the model *)
Lemma neg_paren_zero_refuted :
  let e := ABin OPow (AVar false) (ANeg (AParen (AIntLit 0))) in
  clean e = false /\ chk e = ResolvedType_Float /\ snd (lower e) = IrType_Float /\
  rust_ty (fst (lower e)) = Some RI64.
Proof. cbv zeta. repeat split; reflexivity. Qed.

(* the helper the emitter picks matches the documented kinds: the `_i64` helpers exactly for
   int//int and int%int, `py_div` always for `/`, integer `.pow` exactly when the documented
   result is int, and an operand is cast to f64 exactly when it is int and the result float *)
Lemma emit_shape_spec o l r : clean (ABin o l r) = true ->
  let dl := doc_ty l in let dr := doc_ty r in
  let d := doc_ty (ABin o l r) in
  let isf := match d with DFloat => 1 | DInt => 0 end in
  emit_shape o l r =
  [ match o with ODiv => 2 | OMod => 30 + isf | OFloorDiv => 40 + isf | OPow => 50 + isf | _ => 1 end;
    bcode (match d, dl with DFloat, DInt => true | _, _ => false end);
    bcode (match d, dr with DFloat, DInt => true | _, _ => false end);
    bcode (match o with OPow => (match d, dl with DFloat, DInt => true | _, _ => false end) || tail_cast (fst (lower l)) | _ => false end) ].
Proof.
  intros Hc. cbv zeta. cbn [clean] in Hc.
  apply andb_prop in Hc. destruct Hc as [Hc Hp]. apply andb_prop in Hc. destruct Hc as [Hcl Hcr].
  destruct (phases_agree l Hcl) as (L1 & _). destruct (phases_agree r Hcr) as (R1 & _).
  unfold emit_shape, group_lhs. rewrite L1, R1. cbn [doc_ty]. rewrite <- extract_is_doc_literal.
  generalize (tail_cast (fst (lower l))). intros g.
  destruct o; try (destruct (doc_ty l), (doc_ty r); reflexivity).
  (* ** *)
  apply negb_true_iff in Hp. unfold bad_exp in Hp.
  destruct (doc_ty l), (doc_ty r); try reflexivity; cbn;
    unfold pow_kind_ir, core_PowExponentKind_from_literal_info; cbn.
  all: try (destruct (match fst (lower r) with IInt n => Some n | INeg (IInt n) => Some (- n) | _ => None end) as [n|];
            [destruct (n >=? 0)|]; reflexivity).
  fold (ir_lit (fst (lower r))).
  destruct (extract_ast r) as [n|] eqn:Ea.
  - rewrite (ast_lit_ir_lit r n Ea).
    destruct (n >=? 0) eqn:E; [replace (0 <=? n) with true by lia|replace (0 <=? n) with false by lia]; reflexivity.
  - destruct (ir_lit (fst (lower r))) as [n|]; [|reflexivity].
    replace (n >=? 0) with false by lia. reflexivity.
Qed.
