(* C10/Proofs.v — small lemmas used by C10/Props.v (the layout lemmas proper are in Lex/LayoutEdits.v and
   Lex/LayoutMachine.v). *)
From Coq Require Import List Arith Lia Bool NArith.
From Verif Require Import Lex.Layout Lex.LayoutEdits Lex.LayoutMachine C10.Model.
Import ListNotations.

Lemma errs_app : forall a b, errs (a ++ b) = errs a ++ errs b.
Proof. intros. unfold errs. apply flat_map_app. Qed.

Lemma errs_close_k : forall k, errs (close_k k) = [].
Proof. intros k. unfold close_k. rewrite errs_app. induction k; cbn; [reflexivity | exact IHk]. Qed.

Lemma skeleton_map_err : forall f evs, skeleton (map (map_err f) evs) = skeleton evs.
Proof.
  induction evs as [|e r IH]; [reflexivity|]. cbn [map skeleton flat_map]. fold (skeleton r).
  fold (skeleton (map (map_err f) r)). rewrite IH. destruct e as [t|x]; [reflexivity | destruct x; reflexivity].
Qed.

Lemma final_newline_same_errors : forall s, errs (scan (s ++ [Nl])) = errs (scan s).
Proof.
  intros s. destruct (edit_final_newline s) as [->|(a & k & [[-> ->]|[-> ->]])]; [reflexivity | |];
    rewrite !errs_app; cbn [errs flat_map app]; fold (errs (close_k k)); now rewrite errs_close_k.
Qed.

Lemma blocks_by_relative_indent : forall W f s s',
  column_map W f -> reindented W f s s' -> skeleton (scan s') = skeleton (scan s) /\ toks (scan s') = toks (scan s).
Proof.
  intros W f s s' (Hm & Hw & Hz) H. rewrite (edit_reindent W f Hm Hw Hz s s' H). split; [apply skeleton_map_err|].
  induction (scan s) as [|e r IH]; [reflexivity|].
  cbn [map toks flat_map]. fold (toks r). fold (toks (map (map_err f) r)). rewrite IH.
  destruct e as [t|x]; [reflexivity | destruct x; reflexivity].
Qed.

Lemma reindent_instances :
  column_map every_column (fun w => 2 * w) /\ column_map every_column (fun w => 4 * w) /\
  column_map every_column (fun w => w) /\ column_map even_column (fun w => w / 2).
Proof.
  repeat split; try (intros; lia); try exact I.
  - intros a b [k ->] [j ->] H. rewrite !(Nat.mul_comm 2), !Nat.div_mul by lia. lia.
  - exists 0. reflexivity.
Qed.
