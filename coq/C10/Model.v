(* C10/Model.v — definitions for the C10 property theorems (the layout model itself is Lex/Layout.v). *)
From Coq Require Import List Arith Bool NArith.
From Verif Require Import Lex.Layout.
Import ListNotations.

(* [approx] lifted to outcomes of the fuelled machine *)
Definition lex_approx (a b : outcome) : Prop :=
  match a, b with
  | Done x, Done y => approx x y
  | _, _ => False
  end.

Definition map_outcome (g : list ev -> list ev) (o : outcome) : outcome :=
  match o with Done x => Done (g x) | OutOfFuel => OutOfFuel end.

(* a column map as the property means it: strictly monotone ON THE COLUMNS THAT OCCUR (the set W, which
   contains column 0), fixing column 0.  x2 and x4 are monotone everywhere; 4 -> 2 spaces (halving) is monotone
   on the even columns. *)
Definition column_map (W : nat -> Prop) (f : nat -> nat) : Prop :=
  (forall a b, W a -> W b -> a < b -> f a < f b) /\ W 0 /\ f 0 = 0.

Definition every_column : nat -> Prop := fun _ => True.
Definition even_column : nat -> Prop := fun w => exists k, w = 2 * k.

(* the Indent/Dedent/Newline skeleton of a token stream *)
Definition skeleton (evs : list ev) : list tok :=
  flat_map (fun e => match e with
                     | T TIndent => [TIndent] | T TDedent => [TDedent] | T TNewline => [TNewline] | T TEof => [TEof]
                     | _ => [] end) evs.

(* C10 has no known finding on the unchanged tree: no Known_C10_* class. *)
