(* C10/Props.v — the property theorems for C10 (layout and comments never change how a program is lexed),
   and nothing else.  All are statements about the fuelled machine [lex] of Lex/Layout.v — one [mstep] per call
   of the real Lexer::scan_token — for ALL inputs [list sym] and ALL positions (p, q arbitrary).
   What is proved is invariance of the TOKEN STREAM (kinds, spans erased).  That the parser maps equal streams
   (equal up to the optional final Newline) to equal ASTs is exercised by checks/c10.py, not proved. *)
From Coq Require Import List Arith Lia Bool NArith.
From Verif Require Import Lex.Layout Lex.LayoutEdits Lex.LayoutMachine C10.Model C10.Proofs.
Import ListNotations.

(* hypotheses are satisfiable; the machine really emits Indent / Dedent / Newline on a nested program *)
Example C10_nonvacuous :
  let prog := [Word 1; Punct 2; Nl; Sp; Sp; Word 3; Open 4; Nl; Word 5; Close 6; Nl; Word 7] in
  lex prog = Done [T (TSym (Word 1)); T (TSym (Punct 2)); T TNewline; T TIndent; T (TSym (Word 3)); T (TSym (Open 4));
                   T (TSym (Word 5)); T (TSym (Close 6)); T TNewline; T TDedent; T (TSym (Word 7)); T TEof]
  /\ no_nl [Word 9; Sp; Hash] /\ blanks [Sp; Tab; Cr] /\ column_map every_column (fun w => 2 * w)
  /\ mode_after [Word 1; Open 2; Word 3] = IL 1
  /\ layout_line [Sp; Tab; Hash; Word 1; Hash; Nl]
  /\ reindented every_column (fun w => 2 * w) prog [Word 1; Punct 2; Nl; Tab; Word 3; Open 4; Nl; Word 5; Close 6; Nl; Word 7].
Proof.
  cbv zeta. split; [vm_compute; reflexivity|]. split; [reflexivity|]. split; [reflexivity|].
  split; [split; [intros; lia | split; [exact I | reflexivity]]|]. split; [reflexivity|].
  split; [exists [Sp; Tab]; split; [reflexivity | right; exists [Word 1; Hash]; split; reflexivity]|].
  apply (ri_cons _ _ [Word 1; Punct 2] [Word 1; Punct 2]); [reflexivity | exists [], [], [Word 1; Punct 2]; repeat split |].
  apply (ri_cons _ _ [Sp; Sp; Word 3; Open 4] [Tab; Word 3; Open 4]);
    [reflexivity | exists [Sp; Sp], [Tab], [Word 3; Open 4]; repeat split |].
  apply (ri_cons _ _ [Word 5; Close 6] [Word 5; Close 6]); [reflexivity | exists [], [], [Word 5; Close 6]; repeat split |].
  apply ri_last; [reflexivity | exists [], [], [Word 7]; repeat split].
Qed.

(* R  refinement: the machine (one step per scan_token call, pending dedents, at_line_start flag, bracket
      depth) computes exactly the one-pass layout semantics [scan]; the fuel 2|s|+2 always suffices *)
Theorem C10_machine_refines_scan : forall s, lex s = Done (scan s).
Proof. exact machine_refines_scan. Qed.
Print Assumptions C10_machine_refines_scan.

Theorem C10_fuel_bound : forall s fuel, 2 * length s + 2 <= fuel -> lex_fuel fuel s = Done (scan s).
Proof. exact lex_fuel_enough. Qed.
Print Assumptions C10_fuel_bound.

(* E1  inserting (read right-to-left: removing) a comment before any line end or at the end of the file *)
Theorem C10_comment_at_line_end : forall p body q,
  no_nl body -> (q = [] \/ exists q', q = Nl :: q') ->
  lex (p ++ Hash :: body ++ q) = lex (p ++ q).
Proof. intros. rewrite !machine_refines_scan. f_equal. now apply edit_comment_eol. Qed.
Print Assumptions C10_comment_at_line_end.

(* E2  trailing blanks (spaces, tabs, carriage returns) before any line end or at the end of the file *)
Theorem C10_trailing_blanks : forall p ws q,
  blanks ws -> (q = [] \/ exists q', q = Nl :: q') ->
  lex (p ++ ws ++ q) = lex (p ++ q).
Proof. intros. rewrite !machine_refines_scan. f_equal. now apply edit_trailing_blanks. Qed.
Print Assumptions C10_trailing_blanks.

(* E3  inserting / removing a blank line (empty, blanks only, with CR) or a comment-only line (indented or
       not) wherever a physical line begins — at depth 0 or inside brackets *)
Theorem C10_blank_or_comment_line : forall p x q,
  layout_line x -> (p = [] \/ exists p', p = p' ++ [Nl]) ->
  lex (p ++ x ++ q) = lex (p ++ q).
Proof. intros. rewrite !machine_refines_scan. f_equal. now apply edit_layout_line. Qed.
Print Assumptions C10_blank_or_comment_line.

(* E4  a carriage return is invisible at every position; hence LF -> CRLF everywhere *)
Theorem C10_carriage_return : forall p q, lex (p ++ Cr :: q) = lex (p ++ q).
Proof. intros. rewrite !machine_refines_scan. f_equal. apply edit_cr. Qed.
Print Assumptions C10_carriage_return.

Theorem C10_crlf : forall s, lex (crlf s) = lex s.
Proof. intros. rewrite !machine_refines_scan. f_equal. apply edit_crlf. Qed.
Print Assumptions C10_crlf.

(* E5  adding / removing the final newline: equal up to the optional Newline before the closing Dedent* Eof *)
Theorem C10_final_newline : forall s, lex_approx (lex (s ++ [Nl])) (lex s).
Proof. intros. rewrite !machine_refines_scan. cbn [lex_approx]. apply edit_final_newline. Qed.
Print Assumptions C10_final_newline.

(* ... and the final newline never changes acceptance: the error list is identical *)
Theorem C10_final_newline_same_errors : forall s, errs (scan (s ++ [Nl])) = errs (scan s).
Proof. exact final_newline_same_errors. Qed.
Print Assumptions C10_final_newline_same_errors.

(* E6  a newline followed by arbitrary blanks between two symbols at bracket depth > 0 *)
Theorem C10_newline_inside_brackets : forall p ws q d,
  blanks ws -> mode_after p = IL (S d) ->
  lex (p ++ Nl :: ws ++ q) = lex (p ++ q).
Proof. intros. rewrite !machine_refines_scan. f_equal. now apply (edit_newline_in_brackets p ws q d). Qed.
Print Assumptions C10_newline_inside_brackets.

(* E7  re-indenting every physical line by a column map f that is strictly monotone on the set W of occurring
       columns and fixes column 0 (x2, x4; 4 -> 2 spaces on even columns; spaces <-> tabs at 4 columns with
       f = id; blank and comment-only lines may get any blanks): the same token stream; the only change is that
       the two numbers reported by an "Inconsistent indentation" error are mapped by f. *)
Theorem C10_reindent : forall W f s s',
  column_map W f -> reindented W f s s' ->
  lex s' = map_outcome (map (map_err f)) (lex s).
Proof.
  intros W f s s' (Hm & Hw & Hz) H. rewrite !machine_refines_scan. cbn [map_outcome]. f_equal.
  now apply (edit_reindent W f Hm Hw Hz).
Qed.
Print Assumptions C10_reindent.

(* the two instances the property names: doubling (2 -> 4 spaces) and halving (4 -> 2 spaces) *)
Theorem C10_reindent_instances :
  column_map every_column (fun w => 2 * w) /\ column_map every_column (fun w => 4 * w) /\
  column_map every_column (fun w => w) /\ column_map even_column (fun w => w / 2).
Proof. exact reindent_instances. Qed.
Print Assumptions C10_reindent_instances.

(* block structure (the Indent / Dedent / Newline skeleton) and the whole token list depend only on the ORDER of
   the indentation columns, not on their values *)
Theorem C10_blocks_by_relative_indent : forall W f s s',
  column_map W f -> reindented W f s s' -> skeleton (scan s') = skeleton (scan s) /\ toks (scan s') = toks (scan s).
Proof. exact blocks_by_relative_indent. Qed.
Print Assumptions C10_blocks_by_relative_indent.

(* S  shape of every result: the stream ends in Dedent* Eof and contains no other Eof *)
Theorem C10_stream_shape : forall s, exists body k, lex s = Done (body ++ close_k k) /\ ~ In (T TEof) body.
Proof.
  intros s. destruct (scan_shape s) as (body & k & H & Hn). exists body, k. now rewrite machine_refines_scan, H.
Qed.
Print Assumptions C10_stream_shape.
