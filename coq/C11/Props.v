(* C11/Props.v — the property theorems for C11 (the front end is total, diagnostics are well-formed):
   the part that is PROVED is the lexer (character-level model Lex/Chars.v with the string / f-string /
   byte-string / number / identifier / operator scanners, and the layout machine Lex/Layout.v).
   PARTIAL: termination and panic-freedom of the parser, type checker, formatter and emitter are NOT
   proved; they are exercised by the robustness run of checks/c11.py.  Rendering of a span (get_line_info,
   the caret arithmetic of format_error, span_to_range) is proved total for EVERY span in coq/C19
   (C19_render_total, C19_range_wf, C19_line_info_consistent); it is not duplicated here. *)
From Coq Require Import List Arith Lia Bool NArith.
From Verif Require Import Lex.Layout Lex.LayoutMachine Lex.Chars Lex.CharsProofs C11.Model.
Import ListNotations.
Close Scope N_scope.
Open Scope nat_scope.

(* the model really scans: x = QUOTE e-acute (an unterminated string holding a 2-byte scalar) and a nested block *)
Example C11_nonvacuous :
  clex [120; 32; 61; 32; 34; 233]%N =
    CDone [CT K_WORD 0 1; CT K_PUNCT 2 3; CE E_STR_EOF 4 6 0 0; CT K_STR 4 6; CT K_EOF 6 6]
  /\ byte_span [120; 32; 61; 32; 34; 233]%N (CE E_STR_EOF 4 6 0 0) = (4, 7)
  /\ clex [105; 102; 58; 10; 32; 32; 40; 10; 49; 41]%N =
    CDone [CT K_WORD 0 2; CT K_PUNCT 2 3; CT K_NEWLINE 3 4; CT K_INDENT 4 6; CT K_OPEN 6 7; CT K_INT 8 9;
           CT K_CLOSE 9 10; CT K_DEDENT 10 10; CT K_EOF 10 10].
Proof. repeat split; vm_compute; reflexivity. Qed.

(* T1  totality with an explicit fuel bound: the lexer loop `while !is_at_end() { scan_token() }` ends within
       2|s|+2 calls of scan_token on EVERY input (every scanner inside a call is structurally recursive on the
       remaining input); more fuel does not change the result *)
Theorem C11_lex_total : forall s, exists evs, clex_fuel (2 * length s + 2) s = CDone evs.
Proof. intros s. destruct (clex_total s) as (evs & H & _). now exists evs. Qed.
Print Assumptions C11_lex_total.

Theorem C11_lex_fuel_monotone : forall s fuel, 2 * length s + 2 <= fuel -> clex_fuel fuel s = clex s.
Proof. exact clex_fuel_enough. Qed.
Print Assumptions C11_lex_fuel_monotone.

(* the same for the layout machine over the class alphabet (the progress measure is
   2*remaining + stack height + pending dedents + at_line_start flag) *)
Theorem C11_layout_machine_total : forall s fuel, 2 * length s + 2 <= fuel -> lex_fuel fuel s = Done (scan s).
Proof. exact lex_fuel_enough. Qed.
Print Assumptions C11_layout_machine_total.

(* T2  every token span and every error span produced by the lexer satisfies
       start <= end <= |file| (bytes) and both ends are scalar boundaries of the file *)
Theorem C11_lex_spans_wf : forall s evs, clex s = CDone evs ->
  forall e, In e evs ->
    let '(a, b) := byte_span s e in
    a <= b /\ b <= bytes s /\ on_char_boundary s a /\ on_char_boundary s b.
Proof.
  intros s evs H e Hin. unfold byte_span, on_char_boundary.
  destruct (clex_spans_wf s evs H e Hin) as (H1 & H2 & H3 & H4). auto.
Qed.
Print Assumptions C11_lex_spans_wf.

(* a non-empty span in scalar counts inside the file is a non-empty byte span (offsets are strictly monotone) *)
Theorem C11_offsets_strict : forall s a b, a < b -> b <= length s -> off s a < off s b.
Proof. exact off_strict. Qed.
Print Assumptions C11_offsets_strict.

(* T3  shape of the result: Ok(tokens) ends in Eof; Err(errors) is a NON-EMPTY list of errors *)
Theorem C11_lex_result_shape : forall s evs, clex s = CDone evs ->
  (forall ts, cresult evs = inl ts -> exists body pos, ts = body ++ [CT K_EOF pos pos]) /\
  (forall es, cresult evs = inr es -> es <> [] /\ forall e, In e es -> exists c a b x y, e = CE c a b x y).
Proof. intros s evs H. destruct (clex_result_shape s evs H) as (_ & H2 & H3). split; assumption. Qed.
Print Assumptions C11_lex_result_shape.
