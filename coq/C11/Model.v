(* C11/Model.v — definitions for the C11 property theorems.  The lexer model itself is Lex/Chars.v
   (character level, with scanners and spans) and Lex/Layout.v (the layout machine it shares with C10). *)
From Coq Require Import List Arith Bool NArith.
From Verif Require Import Lex.Layout Lex.Chars.
Import ListNotations.

(* byte span of an event of the character-level model *)
Definition byte_span (src : list ch) (e : cev) : nat * nat :=
  (off src (fst (ev_span e)), off src (snd (ev_span e))).

(* the byte offset [p] does not fall inside the UTF-8 encoding of a scalar of [src] *)
Definition on_char_boundary (src : list ch) (p : nat) : Prop := boundary src p.

(* Known finding class of C11 (see known_findings.json "fstring-subspans"): a diagnostic produced for an
   expression nested inside an f-string carries offsets relative to the re-lexed SUBSTRING.  The lexer model
   has no such event (f-strings are one token here): the class lives in the parser / type checker, which are
   exercised, not modelled; it is decided at run time by checks/c11.py (diagnostic stage = check/gen and the
   source contains an f-string with a non-trivial sub-expression). *)
