(* C11/Render.v — OPTIONAL bridge from the lexer model to the rendering model of coq/C19 (owned by C19):
   every span the lexer model produces is rendered by format_error's caret arithmetic and by span_to_range
   without failure.  Not imported by C11/Props.v (so that a change in C19's files cannot break C11's gate);
   checks/c11.py builds it separately and records in the evidence whether it still holds. *)
From Coq Require Import List ZArith NArith Lia.
From Verif Require Import Base.I64 Base.Text C19.Model C19.ProofsMachine.
From Verif Require Lex.Layout Lex.Chars Lex.CharsProofs C11.Model.
Import ListNotations.
Open Scope Z_scope.

Definition to_text (s : list Chars.ch) : text := map Z.of_N s.

Lemma blen_agree : forall c, Z.of_nat (Chars.blen c) = Text.blen (Z.of_N c).
Proof.
  intros c. unfold Chars.blen, Text.blen.
  destruct (N.ltb_spec c 128); destruct (Z.ltb_spec (Z.of_N c) 128); try lia;
  destruct (N.ltb_spec c 2048); destruct (Z.ltb_spec (Z.of_N c) 2048); try lia;
  destruct (N.ltb_spec c 65536); destruct (Z.ltb_spec (Z.of_N c) 65536); try lia.
Qed.

Lemma bytes_agree : forall s, Z.of_nat (Chars.bytes s) = text_blen (to_text s).
Proof.
  induction s as [|c s IH]; [reflexivity|]. cbn [Chars.bytes to_text map text_blen].
  rewrite Nat2Z.inj_add, blen_agree. unfold to_text in IH. lia.
Qed.

Theorem lexer_spans_render : forall m s evs e,
  Chars.clex s = Chars.CDone evs -> In e evs ->
  text_blen (to_text s) < 2 ^ 64 - 1 -> Z.of_nat (length s) < 2 ^ 32 ->
  let a := Z.of_nat (fst (C11.Model.byte_span s e)) in
  let b := Z.of_nat (snd (C11.Model.byte_span s e)) in
  (exists ln cn t sp ul, caret_m m (to_text s) a b = Val (ln, cn, t, sp, ul) /\ 1 <= ul) /\
  (exists r, span_to_range_m m (to_text s) a b = Val r).
Proof.
  intros m s evs e H Hin Hb Hl a b.
  destruct (CharsProofs.clex_spans_wf s evs H e Hin) as (H1 & H2 & _ & _).
  assert (Ha : 0 <= a < 2 ^ 64 - 1).
  { unfold a, C11.Model.byte_span. cbn [fst]. rewrite <- bytes_agree in Hb. lia. }
  assert (Hlen : Z.of_nat (length (to_text s)) < 2 ^ 32) by (unfold to_text; now rewrite map_length).
  destruct (render_total m (to_text s) a b Ha Hb Hlen) as [(ln & cn & t & sp & ul & Hc & _ & _ & _ & Hul & _) Hr].
  split; [exists ln, cn, t, sp, ul; split; [exact Hc | exact Hul] | exact Hr].
Qed.
Print Assumptions lexer_spans_render.
