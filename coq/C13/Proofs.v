(* C13/Proofs.v — lemmas. Finite facts about the GENERATED tables are [forallb ... = true] closed by
   vm_compute and lifted with forallb_forall; everything about an arbitrary name is symbolic. *)
From Coq Require Import ZArith List Bool String Lia ZifyBool.
From Verif Require Import C13.Defs Gen.C13Sites C13.Model.
Import ListNotations.
Open Scope Z_scope.

(* ------------------------------------------------------------------ names *)

Lemma name_eqb_eq : forall a b, name_eqb a b = true <-> a = b.
Proof.
  induction a as [|x a IH]; destruct b as [|y b]; simpl; split; intros H; try reflexivity; try discriminate.
  - apply andb_true_iff in H. destruct H as [H1 H2]. apply Z.eqb_eq in H1. apply IH in H2. now subst.
  - inversion H; subst. apply andb_true_iff. split; [apply Z.eqb_refl | now apply IH].
Qed.

Lemma name_eqb_refl : forall a, name_eqb a a = true.
Proof. intros; now apply name_eqb_eq. Qed.

Lemma name_eqb_nil : forall a, name_eqb a [] = true -> a = [].
Proof. intros a H; now apply name_eqb_eq in H. Qed.

Lemma mem_In : forall n l, mem n l = true <-> In n l.
Proof.
  induction l as [|k l IH]; simpl; split; intros H; try discriminate; try contradiction.
  - apply orb_true_iff in H. destruct H as [H|H]; [left; symmetry; now apply name_eqb_eq | right; now apply IH].
  - apply orb_true_iff. destruct H as [H|H]; [left; subst; apply name_eqb_refl | right; now apply IH].
Qed.

Lemma mem_false_neq : forall n l k, mem n l = false -> In k l -> n <> k.
Proof.
  intros n l k Hm Hin Heq. subst. apply mem_In in Hin. congruence.
Qed.

Lemma mem_app : forall n a b, mem n (a ++ b) = mem n a || mem n b.
Proof. induction a; simpl; intros; [reflexivity | rewrite IHa; now rewrite orb_assoc]. Qed.

(* ------------------------------------------------------------------ character classes (all c : Z) *)

Ltac classes := unfold gen_ident_start, gen_ident_continue, rust_start, rust_continue,
                       is_alnum, is_alpha, is_upper, is_lower, is_digit in *.

Lemma start_is_rust_start : forall c, gen_ident_start c = true -> rust_start c = true.
Proof. intros c; classes; lia. Qed.

Lemma continue_is_rust_continue : forall c, gen_ident_continue c = true -> rust_continue c = true.
Proof. intros c; classes; lia. Qed.

Lemma start_is_rust_continue : forall c, gen_ident_start c = true -> rust_continue c = true.
Proof. intros c; classes; lia. Qed.

Lemma hash_not_continue : gen_ident_continue 35 = false.
Proof. vm_compute; reflexivity. Qed.

Lemma forallb_impl : forall (f g : Z -> bool) l,
  (forall c, f c = true -> g c = true) -> forallb f l = true -> forallb g l = true.
Proof.
  intros f g l H. induction l; simpl; [reflexivity|]. intros E. apply andb_true_iff in E.
  destruct E as [E1 E2]. apply andb_true_iff; split; auto.
Qed.

(* ------------------------------------------------------------------ legal names *)

Lemma legal_shape : forall n, legal_incan_ident n = true ->
  exists c r, n = c :: r /\ gen_ident_start c = true /\ forallb gen_ident_continue r = true /\
              gen_keyword_id_is_some n = false.
Proof.
  intros n H. unfold legal_incan_ident in H. apply andb_true_iff in H. destruct H as [Hs Hk].
  apply negb_true_iff in Hk. destruct n as [|c r]; [discriminate|].
  simpl in Hs. apply andb_true_iff in Hs. destruct Hs as [H1 H2]. now exists c, r.
Qed.

Lemma continue_not_hash : forall d, gen_ident_continue d = true -> (d =? 35) = false.
Proof. intros d; classes; lia. Qed.

Lemma strip_raw_first : forall c t, (c =? 114) = false -> strip_raw (c :: t) = None.
Proof. intros c t H. destruct t; simpl; [reflexivity | now rewrite H]. Qed.

Lemma legal_not_raw_syntax : forall n, legal_incan_ident n = true -> strip_raw n = None.
Proof.
  intros n H. destruct (legal_shape n H) as (c & r & -> & _ & Hr & _).
  destruct r as [|d r]; [reflexivity|]. simpl in Hr. apply andb_true_iff in Hr. destruct Hr as [Hd _].
  simpl. rewrite (continue_not_hash d Hd), andb_false_r. reflexivity.
Qed.

Lemma legal_chars_continue : forall n, legal_incan_ident n = true -> forallb rust_continue n = true.
Proof.
  intros n H. destruct (legal_shape n H) as (c & r & -> & Hc & Hr & _). simpl.
  apply andb_true_iff; split; [now apply start_is_rust_continue|].
  eapply forallb_impl; [apply continue_is_rust_continue | exact Hr].
Qed.

Lemma legal_rust_shape : forall n, legal_incan_ident n = true -> mem n NOT_RAW = false ->
  rust_ident_or_keyword n = true.
Proof.
  intros n H Hnr. destruct (legal_shape n H) as (c & r & -> & Hc & Hr & _).
  unfold rust_ident_or_keyword. apply andb_true_iff; split; [apply andb_true_iff; split|].
  - now apply start_is_rust_start.
  - eapply forallb_impl; [apply continue_is_rust_continue | exact Hr].
  - apply negb_true_iff. destruct (name_eqb (c :: r) underscore) eqn:E; [|reflexivity].
    apply name_eqb_eq in E. rewrite E in Hnr. vm_compute in Hnr. discriminate.
Qed.

(* ------------------------------------------------------------------ finite facts about the generated tables *)

(* F1: every keyword of the Rust Reference is escaped by the compiler's table, or cannot be written
       in Incan at all, or is one of the names Rust cannot express (Self) *)
Lemma spec_covered :
  forallb (fun k => mem k RUST_KEYWORDS || mem k INCAN_KEYWORDS || mem k NOT_RAW) RUST_SPEC_KEYWORDS = true.
Proof. vm_compute; reflexivity. Qed.

(* F2: every entry of the compiler's table that can be written in Incan and is rawable is emitted as
       a valid Rust identifier that denotes it *)
Lemma table_escaped_ok :
  forallb (fun k => implb (legal_incan_ident k && negb (mem k NOT_RAW))
                          (valid_rust_ident (gen_escape_keyword k) && name_eqb (denotes (gen_escape_keyword k)) k))
          RUST_KEYWORDS = true.
Proof. vm_compute; reflexivity. Qed.

(* F2': ... and, rawable or not, denotes the same name *)
Lemma table_denotes :
  forallb (fun k => implb (legal_incan_ident k) (name_eqb (denotes (gen_escape_keyword k)) k)) RUST_KEYWORDS = true.
Proof. vm_compute; reflexivity. Qed.

(* F3: no Rust keyword starts with an underscore *)
Lemma no_keyword_starts_with_underscore :
  forallb (fun k => match k with c :: _ => negb (c =? 95) | [] => true end) RUST_SPEC_KEYWORDS = true.
Proof. vm_compute; reflexivity. Qed.

(* F4: escaping a table entry never produces one of the fixed names *)
Lemma table_no_new_collision :
  forallb (fun k => implb (legal_incan_ident k)
                          (implb (mem (gen_escape_keyword k) FIXED_NAMES) (mem k FIXED_NAMES))) RUST_KEYWORDS = true.
Proof. vm_compute; reflexivity. Qed.

(* F5: every site of the generated table has one of the three understood shapes *)
Lemma sites_understood :
  forallb understood_site SITES = true.
Proof. vm_compute; reflexivity. Qed.

(* F6: at every unescaped site, every Rust keyword Incan does not reserve is a legal Incan name whose
       emitted identifier Rust rejects *)
Lemma unescaped_refuted_table :
  forallb (fun s => implb (unescaped_site s)
     (forallb (fun k => legal_incan_ident k && negb (valid_rust_ident (emit_ident s k))) UNRESERVED_RUST_KEYWORDS))
     SITES = true.
Proof. vm_compute; reflexivity. Qed.

(* F7: the not-rawable legal names are rejected by Rust at every escaped or unescaped site *)
Lemma not_rawable_refuted_table :
  forallb (fun s => implb (escaped_site s || unescaped_site s)
     (forallb (fun k => legal_incan_ident k && negb (valid_rust_ident (emit_ident s k))) NOT_RAWABLE_LEGAL))
     SITES = true.
Proof. vm_compute; reflexivity. Qed.

(* ------------------------------------------------------------------ escape_keyword on an arbitrary name *)

(* off the table escape_keyword is the identity, whatever else it tests *)
Lemma escape_off_table : forall n, gen_is_rust_keyword n = false -> gen_escape_keyword n = n.
Proof.
  intros n H. unfold gen_escape_keyword.
  repeat match goal with
  | |- context [if ?c then _ else _] => let E := fresh "E" in destruct c eqn:E
  end; try reflexivity; congruence.
Qed.

Lemma spec_keyword_excluded : forall n, legal_incan_ident n = true -> gen_is_rust_keyword n = false ->
  mem n NOT_RAW = false -> mem n RUST_SPEC_KEYWORDS = false.
Proof.
  intros n Hl Hk Hnr. destruct (mem n RUST_SPEC_KEYWORDS) eqn:E; [|reflexivity]. exfalso.
  apply mem_In in E. pose proof spec_covered as F.
  rewrite forallb_forall in F. specialize (F n E).
  destruct (legal_shape n Hl) as (_ & _ & _ & _ & _ & Hik).
  unfold gen_is_rust_keyword in Hk. unfold gen_keyword_id_is_some in Hik.
  rewrite Hk, Hik, Hnr in F. discriminate.
Qed.

Lemma escape_safe : forall n, legal_incan_ident n = true -> Known_C13_not_rawable n = false ->
  valid_rust_ident (gen_escape_keyword n) = true /\ denotes (gen_escape_keyword n) = n.
Proof.
  intros n Hl Hnk. unfold Known_C13_not_rawable in Hnk. rewrite Hl, andb_true_r in Hnk.
  destruct (gen_is_rust_keyword n) eqn:Hk.
  - pose proof table_escaped_ok as F. rewrite forallb_forall in F.
    unfold gen_is_rust_keyword in Hk. apply mem_In in Hk. specialize (F n Hk).
    rewrite Hl, Hnk in F. simpl in F. apply andb_true_iff in F. destruct F as [F1 F2].
    split; [exact F1 | now apply name_eqb_eq].
  - rewrite (escape_off_table n Hk). unfold valid_rust_ident, denotes.
    rewrite (legal_not_raw_syntax n Hl). split; [|reflexivity].
    apply andb_true_iff; split; [now apply legal_rust_shape|].
    apply negb_true_iff. now apply spec_keyword_excluded.
Qed.

Lemma escape_denotes : forall n, legal_incan_ident n = true -> denotes (gen_escape_keyword n) = n.
Proof.
  intros n Hl. destruct (gen_is_rust_keyword n) eqn:Hk.
  - pose proof table_denotes as F. rewrite forallb_forall in F.
    unfold gen_is_rust_keyword in Hk. apply mem_In in Hk. specialize (F n Hk).
    rewrite Hl in F. simpl in F. now apply name_eqb_eq.
  - rewrite (escape_off_table n Hk). unfold denotes. now rewrite (legal_not_raw_syntax n Hl).
Qed.

Lemma escape_injective : forall a b, legal_incan_ident a = true -> legal_incan_ident b = true ->
  gen_escape_keyword a = gen_escape_keyword b -> a = b.
Proof.
  intros a b Ha Hb E. rewrite <- (escape_denotes a Ha), <- (escape_denotes b Hb). now rewrite E.
Qed.

Lemma escape_no_new_collision : forall n, legal_incan_ident n = true ->
  mem (gen_escape_keyword n) FIXED_NAMES = true -> mem n FIXED_NAMES = true.
Proof.
  intros n Hl Hm. destruct (gen_is_rust_keyword n) eqn:Hk.
  - pose proof table_no_new_collision as F. rewrite forallb_forall in F.
    unfold gen_is_rust_keyword in Hk. apply mem_In in Hk. specialize (F n Hk).
    rewrite Hl, Hm in F. cbn [implb] in F. exact F.
  - now rewrite (escape_off_table n Hk) in Hm.
Qed.

(* ------------------------------------------------------------------ sites *)

Lemma escaped_site_emit : forall s n, escaped_site s = true -> emit_ident s n = gen_escape_keyword n.
Proof.
  intros s n H. unfold escaped_site in H. apply andb_true_iff in H. destruct H as [H Hs].
  apply andb_true_iff in H. destruct H as [He Hp].
  unfold emit_ident. rewrite He, (name_eqb_nil _ Hp), (name_eqb_nil _ Hs). simpl. apply app_nil_r.
Qed.

Lemma unescaped_site_emit : forall s n, unescaped_site s = true -> emit_ident s n = n.
Proof.
  intros s n H. unfold unescaped_site in H. apply andb_true_iff in H. destruct H as [H Hs].
  apply andb_true_iff in H. destruct H as [He Hp]. apply negb_true_iff in He.
  unfold emit_ident. rewrite He, (name_eqb_nil _ Hp), (name_eqb_nil _ Hs). simpl. apply app_nil_r.
Qed.

Lemma prefixed_site_emit : forall s n, prefixed_site s = true ->
  emit_ident s n = s_prefix s ++ n /\
  exists r, s_prefix s = 95 :: r /\ forallb rust_continue r = true.
Proof.
  intros s n H. unfold prefixed_site in H. apply andb_true_iff in H. destruct H as [H Hp].
  apply andb_true_iff in H. destruct H as [He Hs]. apply negb_true_iff in He.
  unfold emit_ident. rewrite He, (name_eqb_nil _ Hs), app_nil_r. split; [reflexivity|].
  destruct (s_prefix s) as [|c r]; [discriminate|]. apply andb_true_iff in Hp. destruct Hp as [Hc Hr].
  apply Z.eqb_eq in Hc. subst. now exists r.
Qed.

Lemma prefixed_safe : forall s n, prefixed_site s = true -> legal_incan_ident n = true ->
  valid_rust_ident (emit_ident s n) = true.
Proof.
  intros s n Hs Hl. destruct (prefixed_site_emit s n Hs) as (-> & r & -> & Hr).
  destruct (legal_shape n Hl) as (c & t & Hn & _ & _ & _).
  assert (Hall : forallb rust_continue (r ++ n) = true).
  { rewrite forallb_app, Hr. simpl. now apply legal_chars_continue. }
  unfold valid_rust_ident. simpl app. rewrite strip_raw_first by reflexivity.
  apply andb_true_iff; split.
  - assert (Hne : name_eqb (95 :: r ++ n) underscore = false).
    { destruct (name_eqb (95 :: r ++ n) underscore) eqn:E; [|reflexivity]. exfalso.
      apply name_eqb_eq in E. unfold underscore in E. inversion E as [E']. subst n.
      destruct r; discriminate. }
    unfold rust_ident_or_keyword. rewrite Hall, Hne. vm_compute. reflexivity.
  - apply negb_true_iff. destruct (mem (95 :: r ++ n) RUST_SPEC_KEYWORDS) eqn:E; [|reflexivity]. exfalso.
    apply mem_In in E. pose proof no_keyword_starts_with_underscore as F.
    rewrite forallb_forall in F. specialize (F _ E).
    simpl in F. discriminate.
Qed.

Lemma site_safe : forall s n, safe_site s = true -> legal_incan_ident n = true ->
  Known_C13_not_rawable n = false ->
  valid_rust_ident (emit_ident s n) = true /\
  (escaped_site s = true -> denotes (emit_ident s n) = n) /\
  (prefixed_site s = true -> emit_ident s n = s_prefix s ++ n).
Proof.
  intros s n Hs Hl Hk. unfold safe_site in Hs. apply orb_true_iff in Hs. split; [|split].
  - destruct Hs as [He|Hp].
    + rewrite (escaped_site_emit s n He). now apply escape_safe.
    + now apply prefixed_safe.
  - intros He. rewrite (escaped_site_emit s n He). now apply escape_safe.
  - intros Hp. now destruct (prefixed_site_emit s n Hp).
Qed.

Lemma site_injective : forall s a b, safe_site s = true ->
  legal_incan_ident a = true -> legal_incan_ident b = true ->
  emit_ident s a = emit_ident s b -> a = b.
Proof.
  intros s a b Hs Ha Hb E. unfold safe_site in Hs. apply orb_true_iff in Hs. destruct Hs as [He|Hp].
  - rewrite !(escaped_site_emit s _ He) in E. now apply escape_injective.
  - destruct (prefixed_site_emit s a Hp) as [Ea _]. destruct (prefixed_site_emit s b Hp) as [Eb _].
    rewrite Ea, Eb in E. now apply app_inv_head in E.
Qed.

(* two escaped sites agree on every name: a binding emitted at one and used at another still match *)
Lemma escaped_sites_agree : forall s1 s2 n, escaped_site s1 = true -> escaped_site s2 = true ->
  emit_ident s1 n = emit_ident s2 n.
Proof. intros. now rewrite !escaped_site_emit. Qed.

(* an unescaped site is safe exactly off the two finding classes *)
Lemma unescaped_safe_off_class : forall s n, unescaped_site s = true -> legal_incan_ident n = true ->
  Known_C13_rust_keyword n = false -> Known_C13_not_rawable n = false ->
  valid_rust_ident (emit_ident s n) = true /\ denotes (emit_ident s n) = n /\
  forall s', escaped_site s' = true -> emit_ident s' n = emit_ident s n.
Proof.
  intros s n Hs Hl Hk Hnr. rewrite (unescaped_site_emit s n Hs).
  unfold Known_C13_rust_keyword in Hk. rewrite Hl, andb_true_r in Hk.
  pose proof (escape_safe n Hl Hnr) as [H1 H2]. rewrite (escape_off_table n Hk) in H1, H2.
  split; [exact H1|]. split; [exact H2|].
  intros s' Hs'. rewrite (escaped_site_emit s' n Hs'). now apply escape_off_table.
Qed.

(* membership of the filtered lists, as closed finite checks (the kernel must never evaluate [filter] lazily) *)
Lemma unreserved_table :
  forallb (fun k => mem k RUST_KEYWORDS && legal_incan_ident k) UNRESERVED_RUST_KEYWORDS = true.
Proof. vm_compute; reflexivity. Qed.

Lemma not_rawable_table :
  forallb (fun k => mem k NOT_RAW && legal_incan_ident k) NOT_RAWABLE_LEGAL = true.
Proof. vm_compute; reflexivity. Qed.

(* generic lifting of a nested finite check (no table is unfolded here) *)
Lemma forallb_implb_forallb : forall (A B : Type) (P : A -> bool) (Q : A -> B -> bool) la lb,
  forallb (fun a => implb (P a) (forallb (Q a) lb)) la = true ->
  forall a, In a la -> P a = true -> forall b, In b lb -> Q a b = true.
Proof.
  intros A B P Q la lb F a Ha HP b Hb.
  rewrite forallb_forall in F. pose proof (F a Ha) as Fa. rewrite HP in Fa.
  change (forallb (Q a) lb = true) in Fa. rewrite forallb_forall in Fa. exact (Fa b Hb).
Qed.

Lemma unescaped_refuted : forall s, In s SITES -> unescaped_site s = true ->
  forall k, In k UNRESERVED_RUST_KEYWORDS ->
  legal_incan_ident k = true /\ Known_C13_rust_keyword k = true /\ valid_rust_ident (emit_ident s k) = false.
Proof.
  intros s Hin Hs k Hk.
  pose proof (forallb_implb_forallb site name unescaped_site
                (fun s k => legal_incan_ident k && negb (valid_rust_ident (emit_ident s k)))
                SITES UNRESERVED_RUST_KEYWORDS unescaped_refuted_table s Hin Hs k Hk) as F.
  apply andb_true_iff in F. destruct F as [F1 F2]. apply negb_true_iff in F2.
  split; [exact F1|]. split; [|exact F2].
  unfold Known_C13_rust_keyword. rewrite F1, andb_true_r.
  pose proof unreserved_table as T. rewrite forallb_forall in T. specialize (T k Hk).
  apply andb_true_iff in T. destruct T as [T _]. exact T.
Qed.

Lemma not_rawable_refuted : forall s, In s SITES -> escaped_site s || unescaped_site s = true ->
  forall k, In k NOT_RAWABLE_LEGAL ->
  legal_incan_ident k = true /\ Known_C13_not_rawable k = true /\ valid_rust_ident (emit_ident s k) = false.
Proof.
  intros s Hin Hs k Hk.
  pose proof (forallb_implb_forallb site name (fun s => escaped_site s || unescaped_site s)
                (fun s k => legal_incan_ident k && negb (valid_rust_ident (emit_ident s k)))
                SITES NOT_RAWABLE_LEGAL not_rawable_refuted_table s Hin Hs k Hk) as F.
  apply andb_true_iff in F. destruct F as [F1 F2]. apply negb_true_iff in F2.
  split; [exact F1|]. split; [|exact F2].
  unfold Known_C13_not_rawable. rewrite F1, andb_true_r.
  pose proof not_rawable_table as T. rewrite forallb_forall in T. specialize (T k Hk).
  apply andb_true_iff in T. destruct T as [T _]. exact T.
Qed.

Lemma sites_classified : forall s, In s SITES ->
  escaped_site s = true \/ prefixed_site s = true \/ unescaped_site s = true.
Proof.
  intros s Hin. pose proof sites_understood as F.
  rewrite forallb_forall in F. specialize (F s Hin). unfold understood_site in F.
  apply orb_true_iff in F. destruct F as [F|F]; [apply orb_true_iff in F; tauto | tauto].
Qed.

(* ------------------------------------------------------------------ fixed names *)

Lemma fixed_no_new_collision : forall s n, escaped_site s = true -> legal_incan_ident n = true ->
  Known_C13_fixed_name n = false -> mem (emit_ident s n) FIXED_NAMES = false.
Proof.
  intros s n Hs Hl Hk. rewrite (escaped_site_emit s n Hs).
  destruct (mem (gen_escape_keyword n) FIXED_NAMES) eqn:E; [|reflexivity].
  apply escape_no_new_collision in E; [|exact Hl]. unfold Known_C13_fixed_name in Hk. congruence.
Qed.

(* ------------------------------------------------------------------ renaming of occurrence lists *)

(* A program seen by the emitter is a list of (site, name) occurrences; its emitted identifiers are
   compared through [denotes] (two tokens bind/refer to each other iff they denote the same name). *)
Definition occs := list (site * name).
Definition compile (p : occs) : list name := map (fun sn => emit_ident (fst sn) (snd sn)) p.
Definition rename (rho : name -> name) (p : occs) : occs := map (fun sn => (fst sn, rho (snd sn))) p.
Definition all_escaped (p : occs) : Prop := forall sn, In sn p -> escaped_site (fst sn) = true.
Definition all_legal (p : occs) : Prop := forall sn, In sn p -> legal_incan_ident (snd sn) = true.

Lemma compile_denotes : forall p, all_escaped p -> all_legal p -> map denotes (compile p) = map snd p.
Proof.
  induction p as [|[s n] p IH]; intros He Hl; [reflexivity|]. simpl.
  rewrite (escaped_site_emit s n (He (s, n) (or_introl eq_refl))).
  rewrite (escape_denotes n (Hl (s, n) (or_introl eq_refl))). f_equal.
  apply IH; intros sn Hin; [apply He | apply Hl]; now right.
Qed.

Lemma rename_commutes : forall rho p, all_escaped p -> all_legal p ->
  (forall n, legal_incan_ident n = true -> legal_incan_ident (rho n) = true) ->
  map denotes (compile (rename rho p)) = map rho (map denotes (compile p)).
Proof.
  intros rho p He Hl Hrho. rewrite (compile_denotes p He Hl).
  rewrite compile_denotes.
  - unfold rename. rewrite !map_map. reflexivity.
  - intros sn Hin. unfold rename in Hin. apply in_map_iff in Hin. destruct Hin as (x & <- & Hx). simpl. now apply He.
  - intros sn Hin. unfold rename in Hin. apply in_map_iff in Hin. destruct Hin as (x & <- & Hx). simpl.
    apply Hrho. now apply Hl.
Qed.

(* ------------------------------------------------------------------ constructor-vs-call by capitalisation *)

Lemma call_shape_function : forall n npos,
  call_shape false n npos = if Known_C13_capitalised_function n npos then 1 else 0.
Proof.
  intros n npos. unfold call_shape, Known_C13_capitalised_function. simpl orb.
  destruct (looks_like_constructor n); destruct npos; reflexivity.
Qed.

(* ------------------------------------------------------------------ after the repairs: no unescaped site is left *)

Lemma all_sites_safe_table : forallb safe_site SITES = true.
Proof. vm_compute; reflexivity. Qed.

Lemma every_site_safe : forall s n, In s SITES -> legal_incan_ident n = true ->
  Known_C13_not_rawable n = false ->
  valid_rust_ident (emit_ident s n) = true /\
  (forall b, legal_incan_ident b = true -> emit_ident s n = emit_ident s b -> n = b).
Proof.
  intros s n Hin Hl Hk. pose proof all_sites_safe_table as F. rewrite forallb_forall in F.
  pose proof (F s Hin) as Hs. split.
  - exact (proj1 (site_safe s n Hs Hl Hk)).
  - intros b Hb E. exact (site_injective s n b Hs Hl Hb E).
Qed.

(* ------------------------------------------------------------------ name-keyed lookups use the plain name *)

Lemma lookups_plain_table : forallb (fun l => negb (l_escaped l)) LOOKUPS = true.
Proof. vm_compute; reflexivity. Qed.

Lemma lookups_hit : forall l n, In l LOOKUPS -> lookup_hits l n = true.
Proof.
  intros l n Hin. pose proof lookups_plain_table as F. rewrite forallb_forall in F.
  pose proof (F l Hin) as H. apply negb_true_iff in H.
  unfold lookup_hits, lookup_key. rewrite H. apply name_eqb_refl.
Qed.

Lemma escaped_lookup_hits_off_keywords : forall l n, gen_is_rust_keyword n = false -> lookup_hits l n = true.
Proof.
  intros l n H. unfold lookup_hits, lookup_key. destruct (l_escaped l); [rewrite (escape_off_table n H)|]; apply name_eqb_refl.
Qed.

(* ------------------------------------------------------------------ spelling-dependent decisions are the audited ones *)

Lemma spelling_audited_table : forallb sp_audited SPELLING_SITES = true.
Proof. vm_compute; reflexivity. Qed.

Lemma spelling_audited : forall x, In x SPELLING_SITES -> sp_audited x = true.
Proof. intros x H. pose proof spelling_audited_table as F. rewrite forallb_forall in F. exact (F x H). Qed.
