(* C13/Model.v — definitions only.

   GENERATED (Gen/C13Sites.v, rewritten from /repo on every run by checks/c13.py + `vharness run
   c13 sites`): RUST_KEYWORDS, INCAN_KEYWORDS, gen_is_rust_keyword, gen_keyword_id_is_some,
   gen_ident_start/gen_ident_continue (the lexer's character classes), gen_escape_keyword,
   SITES (every format_ident!/Ident::new under src/backend/ir/emit), FIXED_TEMPORARIES.

   HAND-WRITTEN here: the model of what the lexer calls an identifier ([legal_incan_ident]), the
   model of an emission site ([emit_ident]) and the INDEPENDENT specification of a valid Rust
   identifier (Rust Reference, "Identifiers" and "Keywords", 2021 edition, restricted to ASCII
   because every legal Incan identifier is ASCII) — [valid_rust_ident], [denotes]. *)
From Coq Require Import ZArith List Bool String.
From Verif Require Import C13.Defs Gen.C13Sites.
Import ListNotations.
Open Scope Z_scope.

(* ---------------------------------------------------------------- Incan side (model of the lexer) *)

(* scan_identifier: maximal run of ident-continue characters after an ident-start character *)
Definition ident_shape (n : name) : bool :=
  match n with
  | [] => false
  | c :: r => gen_ident_start c && forallb gen_ident_continue r
  end.

(* ... which becomes TokenKind::Ident iff keyword_id(spelling) is None *)
Definition legal_incan_ident (n : name) : bool :=
  ident_shape n && negb (gen_keyword_id_is_some n).

(* ---------------------------------------------------------------- Rust side (independent spec) *)

Local Open Scope string_scope.

(* Rust Reference, Keywords: strict (2015 + 2018) *)
Definition RUST_SPEC_STRICT : list name := map str
  ["as"; "break"; "const"; "continue"; "crate"; "else"; "enum"; "extern"; "false"; "fn"; "for";
   "if"; "impl"; "in"; "let"; "loop"; "match"; "mod"; "move"; "mut"; "pub"; "ref"; "return";
   "self"; "Self"; "static"; "struct"; "super"; "trait"; "true"; "type"; "unsafe"; "use"; "where";
   "while"; "async"; "await"; "dyn"].

(* Rust Reference, Keywords: reserved (2015 + 2018: `try`); `gen` is reserved from 2024 only and
   generated projects are edition 2021 *)
Definition RUST_SPEC_RESERVED : list name := map str
  ["abstract"; "become"; "box"; "do"; "final"; "macro"; "override"; "priv"; "typeof"; "unsized";
   "virtual"; "yield"; "try"].

Definition RUST_SPEC_KEYWORDS : list name := RUST_SPEC_STRICT ++ RUST_SPEC_RESERVED.

(* Rust Reference, Identifiers: RAW_IDENTIFIER is r#IDENTIFIER_OR_KEYWORD except crate, self,
   super, Self; `_` alone is not an identifier at all *)
Definition NOT_RAW : list name := map str ["crate"; "self"; "super"; "Self"; "_"].

Local Close Scope string_scope.

(* IDENTIFIER_OR_KEYWORD, ASCII part: XID_Start XID_Continue* | _ XID_Continue+ *)
Definition rust_start (c : Z) : bool := is_alpha c || (c =? 95).
Definition rust_continue (c : Z) : bool := is_alnum c || (c =? 95).
Definition underscore : name := [95].
Definition raw_prefix : name := [114; 35].   (* r# *)

Definition rust_ident_or_keyword (n : name) : bool :=
  match n with
  | [] => false
  | c :: r => rust_start c && forallb rust_continue r && negb (name_eqb n underscore)
  end.

Definition strip_raw (n : name) : option name :=
  match n with
  | a :: b :: t => if (a =? 114) && (b =? 35) then Some t else None
  | _ => None
  end.

(* a token that Rust accepts wherever an identifier is required *)
Definition valid_rust_ident (s : name) : bool :=
  match strip_raw s with
  | Some t => rust_ident_or_keyword t && negb (mem t NOT_RAW)
  | None => rust_ident_or_keyword s && negb (mem s RUST_SPEC_KEYWORDS)
  end.

(* the name a (raw or plain) identifier token denotes: r#foo and foo are the same name *)
Definition denotes (s : name) : name :=
  match strip_raw s with
  | Some t => t
  | None => s
  end.

(* ---------------------------------------------------------------- the emitter's sites *)

(* format_ident!("<prefix>{}<suffix>", e) with e = escape_keyword(n) or e = n *)
Definition emit_ident (s : site) (n : name) : name :=
  s_prefix s ++ (if s_escaped s then gen_escape_keyword n else n) ++ s_suffix s.

(* a site that feeds a source name through escape_keyword and adds nothing *)
Definition escaped_site (s : site) : bool :=
  s_escaped s && name_eqb (s_prefix s) [] && name_eqb (s_suffix s) [].

(* a site that prepends a fixed identifier-shaped prefix starting with `_` (no keyword starts
   with `_`), adds no suffix and does NOT escape (r# in the middle would be invalid) *)
Definition prefixed_site (s : site) : bool :=
  negb (s_escaped s) && name_eqb (s_suffix s) [] &&
  match s_prefix s with
  | c :: r => (c =? 95) && forallb rust_continue r
  | [] => false
  end.

Definition safe_site (s : site) : bool := escaped_site s || prefixed_site s.

(* the finding class: the source name reaches format_ident! verbatim *)
Definition unescaped_site (s : site) : bool :=
  negb (s_escaped s) && name_eqb (s_prefix s) [] && name_eqb (s_suffix s) [].

(* every site is of exactly one of the three understood shapes (checked over SITES) *)
Definition understood_site (s : site) : bool := escaped_site s || prefixed_site s || unescaped_site s.

(* sites by binding-position label (labels are the hand-assigned POSITIONS of checks/c13.py) *)
Definition pos_in (s : site) (labels : list string) : bool := existsb (String.eqb (s_pos s)) labels.

(* regression witness for a repaired class: at EVERY site of the current source that serves one of the
   labels (and there is at least one), the keyword k is emitted as a valid identifier denoting k *)
Definition regression_ok (labels : list string) (k : name) : bool :=
  forallb (fun s => implb (pos_in s labels)
                          (valid_rust_ident (emit_ident s k) && name_eqb (denotes (emit_ident s k)) k)) SITES
  && existsb (fun s => pos_in s labels) SITES.

(* ---------------------------------------------------------------- name-keyed lookups *)

(* the key a lookup presents for the source name n; the tables are keyed by the plain name, so the
   lookup finds the entry registered for n iff the key is n itself *)
Definition lookup_key (l : lookup) (n : name) : name :=
  if l_escaped l then gen_escape_keyword n else n.
Definition lookup_hits (l : lookup) (n : name) : bool := name_eqb (lookup_key l n) n.

(* ---------------------------------------------------------------- finding classes *)

(* Known_C13_rust_keyword: a Rust keyword (by the compiler's own table) that Incan does not reserve *)
Definition Known_C13_rust_keyword (n : name) : bool := gen_is_rust_keyword n && legal_incan_ident n.
Definition UNRESERVED_RUST_KEYWORDS : list name := filter legal_incan_ident RUST_KEYWORDS.

(* Known_C13_not_rawable: legal Incan names that Rust accepts neither plain nor as r#name *)
Definition Known_C13_not_rawable (n : name) : bool := mem n NOT_RAW && legal_incan_ident n.
Definition NOT_RAWABLE_LEGAL : list name := filter legal_incan_ident NOT_RAW.

(* ---------------------------------------------------------------- fixed names (hand table + generated temporaries) *)

Local Open Scope string_scope.
(* names that generated code writes literally and relies on: prelude/helper paths and macros *)
Definition FIXED_PRELUDE : list name := map str
  ["incan_stdlib"; "incan_derive"; "std"; "Vec"; "String"; "Option"; "Some"; "None"; "Result"; "Ok";
   "Err"; "HashMap"; "HashSet"; "Box"; "FieldInfo"; "IncanClass"; "FrozenStr"; "FrozenBytes";
   "FrozenList"; "FrozenSet"; "FrozenDict"; "Clone"; "Debug"; "Default"; "PartialEq"; "main";
   "self"; "Self"; "format"; "vec"; "println"; "print"; "i64"; "f64"; "bool"; "usize"; "str"].
Local Close Scope string_scope.

Definition FIXED_NAMES : list name := FIXED_TEMPORARIES ++ FIXED_PRELUDE.

(* Known_C13_fixed_name: the user's own spelling is one the generated code also writes *)
Definition Known_C13_fixed_name (n : name) : bool := mem n FIXED_NAMES.

(* ---------------------------------------------------------------- capitalisation test of lowering *)

(* src/backend/ir/lower/expr.rs: a call `Name(...)` is a constructor iff the first character is
   an ASCII upper-case letter (hand-modelled; exercised by the oracle's case-class renamings) *)
Definition looks_like_constructor (n : name) : bool :=
  match n with
  | c :: _ => is_upper c
  | [] => false
  end.

(* How lowering + emit_struct_expr spell a call `n(args)` whose callee is a plain identifier:
   1 = struct literal `n { .. }`, 0 = call syntax `n(..)` (also used for tuple structs).
   [known_struct]: n is a model/class/newtype of the current file; [npos]: number of positional args. *)
Definition call_shape (known_struct : bool) (n : name) (npos : nat) : Z :=
  if known_struct || looks_like_constructor n
  then (match npos with O => 1 | S _ => 0 end)
  else 0.

(* Known_C13_capitalised_function: a FUNCTION (not a struct) whose name starts with an upper-case
   letter, called without positional arguments, is spelled as a struct literal *)
Definition Known_C13_capitalised_function (n : name) (npos : nat) : bool :=
  looks_like_constructor n && match npos with O => true | S _ => false end.

(* ---------------------------------------------------------------- rendering for the correspondence run *)

Definition b2z (b : bool) : Z := if b then 1 else 0.

(* (legal?, escape_keyword n, valid_rust_ident (escape n)?, rust keyword?, incan keyword?) *)
Definition render_name (n : name) : Z * list Z * Z * Z * Z :=
  (b2z (legal_incan_ident n), gen_escape_keyword n, b2z (valid_rust_ident (gen_escape_keyword n)),
   b2z (gen_is_rust_keyword n), b2z (gen_keyword_id_is_some n)).

Definition render_call (n : name) (npos : nat) : Z := call_shape false n npos.

(* site k of SITES applied to n: (emitted identifier, valid?) ; [] 0 if k is out of range *)
Definition render_site (k : nat) (n : name) : list Z * Z :=
  match nth_error SITES k with
  | Some s => (emit_ident s n, b2z (valid_rust_ident (emit_ident s n)))
  | None => ([], 0)
  end.
