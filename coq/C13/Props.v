(* C13/Props.v — the property theorems for C13 (any legal Incan name is safe to use), nothing else.
   Tables RUST_KEYWORDS, INCAN_KEYWORDS, gen_ident_start/continue, gen_escape_keyword, SITES and
   FIXED_TEMPORARIES are regenerated from /repo on every run (Gen/C13Sites.v); [valid_rust_ident] and
   [denotes] are the independent specification (Rust Reference). Names are unbounded lists of code
   points: every theorem that says "forall n" is about ALL legal Incan identifiers. *)
From Coq Require Import ZArith List Bool String.
From Verif Require Import C13.Defs Gen.C13Sites C13.Model C13.Proofs.
Import ListNotations.
Open Scope Z_scope.
Local Open Scope string_scope.

(* hypotheses are satisfiable by non-trivial values: a keyword Incan does not reserve and an
   ordinary name are legal, the first is in the finding class of unescaped sites, neither is in the
   not-rawable class; Self is legal and not rawable *)
Example C13_nonvacuous :
  legal_incan_ident (str "loop") = true /\ Known_C13_rust_keyword (str "loop") = true /\
  Known_C13_not_rawable (str "loop") = false /\
  legal_incan_ident (str "user_name2") = true /\ Known_C13_rust_keyword (str "user_name2") = false /\
  legal_incan_ident (str "Self") = true /\ Known_C13_not_rawable (str "Self") = true /\
  legal_incan_ident (str "match") = false /\ legal_incan_ident (str "2x") = false /\
  gen_escape_keyword (str "loop") = str "r#loop" /\ denotes (str "r#loop") = str "loop".
Proof. vm_compute. repeat split; reflexivity. Qed.

(* T1 site_safe: at every site that escapes (or adds a fixed `_`-prefix), EVERY legal Incan name other
   than the not-rawable ones (Self, _) is emitted as an identifier Rust accepts, and it denotes the
   same name *)
Theorem C13_site_safe : forall s n,
  safe_site s = true -> legal_incan_ident n = true -> Known_C13_not_rawable n = false ->
  valid_rust_ident (emit_ident s n) = true /\
  (escaped_site s = true -> denotes (emit_ident s n) = n) /\
  (prefixed_site s = true -> emit_ident s n = (s_prefix s ++ n)%list).
Proof. exact site_safe. Qed.
Print Assumptions C13_site_safe.

(* T2 injectivity: distinct legal names stay distinct at every safe site (no exclusion needed), and all
   escaped sites spell a name the same way, so a binding and its uses agree *)
Theorem C13_injective : forall s a b,
  safe_site s = true -> legal_incan_ident a = true -> legal_incan_ident b = true ->
  emit_ident s a = emit_ident s b -> a = b.
Proof. exact site_injective. Qed.
Print Assumptions C13_injective.

Theorem C13_escaped_sites_agree : forall s1 s2 n,
  escaped_site s1 = true -> escaped_site s2 = true -> emit_ident s1 n = emit_ident s2 n.
Proof. exact escaped_sites_agree. Qed.
Print Assumptions C13_escaped_sites_agree.

(* T3 every site of the generated table is understood: escaped, `_`-prefixed, or unescaped *)
Theorem C13_sites_classified : forall s, In s SITES ->
  escaped_site s = true \/ prefixed_site s = true \/ unescaped_site s = true.
Proof. exact sites_classified. Qed.
Print Assumptions C13_sites_classified.

(* T4 refutation at the unescaped sites: for EVERY unescaped site of the current source and EVERY
   Rust keyword that Incan does not reserve, the name is legal Incan and the emitted token is not a
   Rust identifier (the finding class Known_C13_rust_keyword at that call site) *)
Theorem C13_unescaped_refuted : forall s, In s SITES -> unescaped_site s = true ->
  forall k, In k UNRESERVED_RUST_KEYWORDS ->
  legal_incan_ident k = true /\ Known_C13_rust_keyword k = true /\ valid_rust_ident (emit_ident s k) = false.
Proof. exact unescaped_refuted. Qed.
Print Assumptions C13_unescaped_refuted.

(* the class is inhabited at the model level: an unescaped site applied to `loop` *)
Theorem C13_unescaped_site_refuted : exists s n,
  unescaped_site s = true /\ legal_incan_ident n = true /\ Known_C13_rust_keyword n = true /\
  valid_rust_ident (emit_ident s n) = false.
Proof.
  exists (mk_site "model:unescaped" "any" [] [] false), (str "loop"). vm_compute. repeat split; reflexivity.
Qed.
Print Assumptions C13_unescaped_site_refuted.

(* T5 complement: off the two classes an unescaped site is as good as an escaped one *)
Theorem C13_unescaped_safe_off_class : forall s n,
  unescaped_site s = true -> legal_incan_ident n = true ->
  Known_C13_rust_keyword n = false -> Known_C13_not_rawable n = false ->
  valid_rust_ident (emit_ident s n) = true /\ denotes (emit_ident s n) = n /\
  forall s', escaped_site s' = true -> emit_ident s' n = emit_ident s n.
Proof. exact unescaped_safe_off_class. Qed.
Print Assumptions C13_unescaped_safe_off_class.

(* T6 the not-rawable class: legal Incan names (Self, _) that no site can emit as a Rust identifier,
   escaped or not *)
Theorem C13_not_rawable_refuted : forall s, In s SITES -> escaped_site s || unescaped_site s = true ->
  forall k, In k NOT_RAWABLE_LEGAL ->
  legal_incan_ident k = true /\ Known_C13_not_rawable k = true /\ valid_rust_ident (emit_ident s k) = false.
Proof. exact not_rawable_refuted. Qed.
Print Assumptions C13_not_rawable_refuted.

Theorem C13_escaped_Self_refuted : exists s n,
  escaped_site s = true /\ legal_incan_ident n = true /\ Known_C13_not_rawable n = true /\
  valid_rust_ident (emit_ident s n) = false.
Proof.
  exists (mk_site "model:escaped" "any" [] [] true), (str "Self"). vm_compute. repeat split; reflexivity.
Qed.
Print Assumptions C13_escaped_Self_refuted.

(* T7 fixed names: escaping never CREATES a collision with a name the generated code relies on
   (temporaries extracted from the emitter's quote! bodies + the hand-listed prelude/helper names);
   a collision happens exactly when the user's own spelling is such a name, and that does happen *)
Theorem C13_no_new_collision : forall s n,
  escaped_site s = true -> legal_incan_ident n = true -> Known_C13_fixed_name n = false ->
  mem (emit_ident s n) FIXED_NAMES = false.
Proof. exact fixed_no_new_collision. Qed.
Print Assumptions C13_no_new_collision.

Theorem C13_fixed_name_collision_refuted : exists s n,
  escaped_site s = true /\ legal_incan_ident n = true /\ Known_C13_fixed_name n = true /\
  mem (emit_ident s n) FIXED_NAMES = true.
Proof.
  exists (mk_site "model:escaped" "any" [] [] true), (str "Vec"). vm_compute. repeat split; reflexivity.
Qed.
Print Assumptions C13_fixed_name_collision_refuted.

(* T8 rename invariance on occurrence lists: a program as the emitter sees it is a list of
   (site, name) occurrences; on escaped sites a renaming of legal names to legal names commutes with
   emission (compared through [denotes]), so binding structure is preserved when rho is injective.
   PARTIAL with respect to DESIGN's rename_invariant on MiniIncan: the Core/ fragment does not exist
   yet, so `compile` here is only the identifier part of the emitter. *)
Theorem C13_rename_commutes_partial : forall rho p,
  all_escaped p -> all_legal p ->
  (forall n, legal_incan_ident n = true -> legal_incan_ident (rho n) = true) ->
  map denotes (compile (rename rho p)) = map rho (map denotes (compile p)).
Proof. exact rename_commutes. Qed.
Print Assumptions C13_rename_commutes_partial.

(* T9 the compiler's keyword table covers the Rust Reference: every strict/reserved keyword is in
   RUST_KEYWORDS, or reserved by Incan, or not rawable (a keyword dropped from the table breaks this) *)
Theorem C13_table_covers_reference :
  forallb (fun k => mem k RUST_KEYWORDS || mem k INCAN_KEYWORDS || mem k NOT_RAW) RUST_SPEC_KEYWORDS = true.
Proof. exact spec_covered. Qed.
Print Assumptions C13_table_covers_reference.

(* T10 constructor-vs-call: a call of a FUNCTION keeps call syntax for every name outside the class
   Known_C13_capitalised_function (upper-case initial, no positional argument); inside the class it is
   spelled as a struct literal, so renaming `zqn` to `Zqn` changes the emitted program *)
Theorem C13_call_shape : forall n npos,
  call_shape false n npos = if Known_C13_capitalised_function n npos then 1 else 0.
Proof. exact call_shape_function. Qed.
Print Assumptions C13_call_shape.

Theorem C13_capitalised_function_refuted : exists a b,
  legal_incan_ident a = true /\ legal_incan_ident b = true /\
  call_shape false a 0 <> call_shape false b 0.
Proof. exists (str "zqn"), (str "Zqn"). vm_compute. repeat split; discriminate. Qed.
Print Assumptions C13_capitalised_function_refuted.

(* ------------------------------------------------------------------------------------------------
   After the `fix:` commits (item names, members, parameters/locals, imports, type paths): the
   generated table has NO unescaped site left, so the safety statement holds at every site of the
   current source without the keyword class. C13_unescaped_refuted above is universal over the table
   and is now vacuous by itself; if an unescaped site comes back, C13_all_sites_safe breaks. *)
Theorem C13_all_sites_safe : forall s n, In s SITES ->
  legal_incan_ident n = true -> Known_C13_not_rawable n = false ->
  valid_rust_ident (emit_ident s n) = true /\
  (forall b, legal_incan_ident b = true -> emit_ident s n = emit_ident s b -> n = b).
Proof. exact every_site_safe. Qed.
Print Assumptions C13_all_sites_safe.

(* regression witnesses, one per repaired finding: the former witness keyword at every site serving
   the finding's binding positions (at least one such site exists) *)
Theorem C13_fixed_item_names :
  regression_ok ["function-name"; "const-name"; "type-alias-name"; "enum-name"; "trait-name";
                 "trait-name-in-impl"; "impl-target-type"] (str "loop") = true.
Proof. vm_compute; reflexivity. Qed.
Print Assumptions C13_fixed_item_names.

Theorem C13_fixed_members :
  regression_ok ["field-name"; "field-init"; "field-access"; "field-assign"; "field-name-in-derived-impl";
                 "method-name"; "method-call"; "associated-function-call"; "trait-method-name";
                 "enum-variant"; "enum-variant-field"; "enum-variant-or-assoc-in-path";
                 "struct-pattern-field"] (str "struct") = true.
Proof. vm_compute; reflexivity. Qed.
Print Assumptions C13_fixed_members.

Theorem C13_fixed_parameters_and_locals :
  regression_ok ["method-parameter"; "trait-method-parameter"; "comprehension-variable"] (str "ref") = true.
Proof. vm_compute; reflexivity. Qed.
Print Assumptions C13_fixed_parameters_and_locals.

Theorem C13_fixed_imports :
  regression_ok ["import-alias"; "from-import-alias"; "imported-item-name"; "import-path-segment"] (str "use") = true.
Proof. vm_compute; reflexivity. Qed.
Print Assumptions C13_fixed_imports.

Theorem C13_fixed_type_paths :
  regression_ok ["type-name-in-path"; "generic-type-parameter"; "struct-pattern-type";
                 "enum-pattern-path-segment"; "derive-name"] (str "dyn") = true.
Proof. vm_compute; reflexivity. Qed.
Print Assumptions C13_fixed_type_paths.

(* ------------------------------------------------------------------------------------------------
   Name-keyed lookups (function registry, external-function set, struct/enum/newtype tables, field
   tables): they are filled with the plain Incan name, so they must be QUERIED with the plain name.
   LOOKUPS is regenerated from emit/** and lower/** on every run with, per lookup, whether its key
   is derived from escape_keyword. *)
Theorem C13_lookups_plain : forall l n, In l LOOKUPS -> lookup_hits l n = true.
Proof. exact lookups_hit. Qed.
Print Assumptions C13_lookups_plain.

(* a lookup keyed by the escaped spelling misses exactly for the keyword class ... *)
Theorem C13_escaped_lookup_refuted : exists l n,
  l_escaped l = true /\ legal_incan_ident n = true /\ Known_C13_rust_keyword n = true /\ lookup_hits l n = false.
Proof.
  exists (mk_lookup "model:escaped-key" "function_registry" true), (str "where"). vm_compute. repeat split; reflexivity.
Qed.
Print Assumptions C13_escaped_lookup_refuted.

(* ... and is harmless for every other name (why such an edit passes every test that has no keyword name) *)
Theorem C13_escaped_lookup_off_class : forall l n, gen_is_rust_keyword n = false -> lookup_hits l n = true.
Proof. exact escaped_lookup_hits_off_keywords. Qed.
Print Assumptions C13_escaped_lookup_off_class.

(* ------------------------------------------------------------------------------------------------
   Every place where the SPELLING of a name (its order, prefix, case, characters) can influence the
   structure of the emitted program is one of the audited decisions; the table is regenerated from
   emit/** and lower/** on every run, so a new `.sort()`, `starts_with`, BTreeMap ... over names is a
   broken obligation until it is audited. (The audit itself is a hand argument, recorded next to
   AUDITED_SPELLING in checks/c13.py; the metamorphic whole-program renaming oracle exercises it.) *)
Theorem C13_spelling_decisions_audited : forall x, In x SPELLING_SITES -> sp_audited x = true.
Proof. exact spelling_audited. Qed.
Print Assumptions C13_spelling_decisions_audited.
