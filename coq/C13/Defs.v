(* C13/Defs.v — vocabulary shared by the GENERATED table file Gen/C13Sites.v and C13/Model.v.
   Identifiers are lists of code points (Z).  [str "loop"] is the code-point list of a literal;
   it is only a notation device for the generated tables (it computes away under vm_compute). *)
From Coq Require Import ZArith List Bool String Ascii.
Import ListNotations.
Open Scope Z_scope.

Definition name := list Z.

Fixpoint str (s : string) : name :=
  match s with
  | EmptyString => []
  | String a r => Z.of_N (N_of_ascii a) :: str r
  end.

Fixpoint name_eqb (a b : name) : bool :=
  match a, b with
  | [], [] => true
  | x :: a', y :: b' => (x =? y) && name_eqb a' b'
  | _, _ => false
  end.

Fixpoint mem (n : name) (l : list name) : bool :=
  match l with
  | [] => false
  | k :: r => name_eqb n k || mem n r
  end.

(* character classes named by the lexer extraction *)
Definition is_upper (c : Z) : bool := (65 <=? c) && (c <=? 90).
Definition is_lower (c : Z) : bool := (97 <=? c) && (c <=? 122).
Definition is_digit (c : Z) : bool := (48 <=? c) && (c <=? 57).
Definition is_alpha (c : Z) : bool := is_upper c || is_lower c.
Definition is_alnum (c : Z) : bool := is_alpha c || is_digit c.

(* An identifier construction site of the emitter: `format_ident!("<prefix>{}<suffix>", <expr>)`.
   [s_id] is file:function:expression (no line numbers), [s_escaped] says whether <expr> passes
   through `escape_keyword`, [s_pos] is the binding position the site serves (hand-assigned in
   checks/c13.py; "unknown" for a site the table has never seen). *)
Record site := mk_site {
  s_id : string;
  s_pos : string;
  s_prefix : name;
  s_suffix : name;
  s_escaped : bool
}.

(* A name-keyed LOOKUP in emit/** or lower/**: `<table>.get(key)` / `.contains(key)` / `.contains_key(key)`.
   The tables (function registry, struct/enum names, field tables, ...) are filled with the plain Incan
   name. [l_escaped] says whether the key expression is derived from `escape_keyword` (the spelling used in
   the generated Rust) instead of the plain name. *)
Record lookup := mk_lookup {
  l_id : string;
  l_table : string;
  l_escaped : bool
}.

(* A SPELLING-dependent decision in emit/** or lower/** (sorting, comparing, prefix/suffix/case/character tests,
   splitting of a name outside quote! bodies): the spelling of a user name can influence the STRUCTURE of the
   emitted program there. [sp_audited]: the decision is one of the hand-audited ones of checks/c13.py
   (AUDITED_SPELLING, each with the reason why a consistent renaming within its case class cannot change it). *)
Record spell := mk_spell {
  sp_id : string;
  sp_audited : bool
}.
