(* C20/PropsKnown.v — refutation witnesses that depend on the REGENERATED table. Kept apart from
   Props.v so that a fix of the finding in /repo (which makes these witnesses false) does not break
   the property theorems; the check builds this file separately and reports whether it still holds. *)
From Verif Require Import Base.I64 C20.Model C20.GenTable C20.ProofsDerive.
From Coq Require Import ZArith List Bool.
Import ListNotations.
Open Scope Z_scope.

(* derive-display: `@derive(Display)` is passed through to #[derive(Display)], which no crate in
   scope provides *)
Theorem C20_derive_resolvable_refuted :
  exists req row e, In (req, row) (combine (powerset decorators) gen_table_model) /\
    Known_C20_derive_display req /\ row_derives row = Some e /\ resolvable e = false.
Proof.
  assert (H : existsb (fun p => has (fst p) DDisplay &&
                match row_derives (snd p) with Some e => negb (resolvable e) | None => false end)
              (combine (powerset decorators) gen_table_model) = true) by (vm_compute; reflexivity).
  apply existsb_exists in H as [[req row] [Hin H]]. cbn [fst snd] in H.
  apply andb_prop in H as [Hk H]. destruct (row_derives row) as [e|] eqn:E; [|discriminate].
  exists req, row, e. split; [exact Hin|]. split; [exact Hk|]. split; [exact E|]. now apply negb_true_iff in H.
Qed.
Print Assumptions C20_derive_resolvable_refuted.
