(* C20/ProofsClass.v — the field list lower_class builds for a class is the ancestors' fields root
   first, then its own, for every acyclic `extends` chain of any depth. *)
From Verif Require Import Base.I64 C20.Model.
From Coq Require Import ZArith List Bool Lia.
Import ListNotations.
Open Scope Z_scope.

Lemma chain_nonempty tbl c l : chain tbl c l -> exists l', l = c :: l'.
Proof. destruct 1; eauto. Qed.

Lemma own_fields_lookup tbl c p own : clookup c tbl = Some (p, own) -> own_fields tbl c = own.
Proof. unfold own_fields. now intros ->. Qed.

Lemma flat_map_app {A B} (f : A -> list B) l1 l2 : flat_map f (l1 ++ l2) = flat_map f l1 ++ flat_map f l2.
Proof. induction l1 as [|x l1 IH]; [reflexivity|]. cbn. now rewrite IH, app_assoc. Qed.

(* collect_inherited_fields on a class with a finite chain: root first, the class's own fields last.
   An `extends` that names an undeclared class costs one more step, hence the strict bound. *)
Lemma collect_root_first tbl : forall c l, chain tbl c l ->
  forall fuel, (length l < fuel)%nat ->
  collect_inherited_fields fuel tbl c = Some (spec_class_fields tbl l).
Proof.
  induction 1 as [c own H|c g own H Hg|c g own l H Hc IH]; intros fuel Hf.
  - destruct fuel as [|f]; [cbn in Hf; lia|]. cbn [collect_inherited_fields]. rewrite H.
    unfold spec_class_fields. cbn. rewrite (own_fields_lookup _ _ _ _ H). now rewrite app_nil_r.
  - destruct fuel as [|[|f]]; cbn in Hf; try lia. cbn [collect_inherited_fields]. rewrite H, Hg.
    unfold spec_class_fields. cbn. rewrite (own_fields_lookup _ _ _ _ H). now rewrite app_nil_r.
  - destruct fuel as [|f]; [cbn in Hf; lia|]. cbn [collect_inherited_fields]. rewrite H.
    rewrite (IH f) by (cbn [length] in Hf; lia).
    unfold spec_class_fields. cbn [rev]. rewrite flat_map_app. cbn [flat_map].
    rewrite (own_fields_lookup _ _ _ _ H). now rewrite app_nil_r.
Qed.

(* lower_class *)
Lemma class_fields_root_first tbl c l fuel : chain tbl c l -> (length l <= fuel)%nat ->
  class_fields fuel tbl c = Some (spec_class_fields tbl l).
Proof.
  intros Hc Hf. unfold class_fields. inversion Hc as [c0 own H|c0 g own H Hg|c0 g own l' H Hc']; subst.
  - rewrite H. unfold spec_class_fields. cbn. rewrite (own_fields_lookup _ _ _ _ H). now rewrite app_nil_r.
  - rewrite H. destruct fuel as [|f]; [cbn in Hf; lia|]. cbn [collect_inherited_fields]. rewrite Hg.
    unfold spec_class_fields. cbn. rewrite (own_fields_lookup _ _ _ _ H). now rewrite app_nil_r.
  - rewrite H. rewrite (collect_root_first tbl g l' Hc' fuel) by (cbn [length] in Hf; lia).
    unfold spec_class_fields. cbn [rev]. rewrite flat_map_app. cbn [flat_map].
    rewrite (own_fields_lookup _ _ _ _ H). now rewrite app_nil_r.
Qed.

(* every class on a chain is declared *)
Lemma chain_in_table tbl c l : chain tbl c l -> forall x, In x l -> clookup x tbl <> None.
Proof.
  induction 1 as [c own H|c g own H Hg|c g own l H Hc IH]; intros x [<-|Hin]; try (now destruct Hin); try congruence.
  now apply IH.
Qed.

(* the visit-order variant differs from the documented order as soon as two ancestors declare fields *)
Lemma visit_order_refuted :
  let tbl : ctable := [(1, (None, [([116], TInt)])); (2, (Some 1, [([112], TInt)])); (3, (Some 2, [([115], TInt)]))] in
  chain tbl 3 [3; 2; 1] /\
  class_fields 3 tbl 3 = Some [([116], TInt); ([112], TInt); ([115], TInt)] /\
  spec_class_fields tbl [3; 2; 1] = [([116], TInt); ([112], TInt); ([115], TInt)] /\
  visit_order_fields tbl [3; 2; 1] = [([112], TInt); ([116], TInt); ([115], TInt)] /\
  visit_order_fields tbl [3; 2; 1] <> spec_class_fields tbl [3; 2; 1].
Proof.
  cbn zeta. split; [|repeat split; try reflexivity; discriminate].
  eapply chain_step; [reflexivity|]. eapply chain_step; [reflexivity|]. eapply chain_root. reflexivity.
Qed.
