(* C20/ProofsDerive.v — the decorator -> derive-list mapping: the regenerated table (GenTable.v,
   produced from the real lowering + emitter on every run) is closed under Rust's supertrait
   requirements outside the known class, for ALL 2^13 decorator subsets, for models and classes;
   and the hand model [emitted] is closed for all derive lists of any order and multiplicity. *)
From Verif Require Import Base.I64 C20.Model C20.GenTable.
From Coq Require Import ZArith List Bool Lia.
Import ListNotations.
Open Scope Z_scope.

(* decoding of the generated rows (see the header of GenTable.v) *)
Fixpoint digits16 (fuel : nat) (z : Z) : list Z :=
  match fuel with
  | O => []
  | S f => if z <=? 0 then [] else (z mod 16 - 1) :: digits16 f (z / 16)
  end.
Definition row_of (z : Z) : list Z := if z <? 0 then [z] else digits16 16 z.
Definition gen_table_model : list (list Z) := map row_of gen_rows_model.
Definition gen_table_class : list (list Z) := map row_of gen_rows_class.

Definition dof (z : Z) : option derive :=
  if z =? 0 then Some DDebug else if z =? 1 then Some DDisplay else if z =? 2 then Some DEq
  else if z =? 3 then Some DPartialEq else if z =? 4 then Some DOrd else if z =? 5 then Some DPartialOrd
  else if z =? 6 then Some DHash else if z =? 7 then Some DClone else if z =? 8 then Some DCopy
  else if z =? 9 then Some DDefault else if z =? 10 then Some DSerialize else if z =? 11 then Some DDeserialize
  else if z =? 12 then Some DValidate else if z =? 13 then Some DFieldInfo else if z =? 14 then Some DIncanClass
  else None.

Definition row_derives (row : list Z) : option (list derive) := mapM dof row.

Definition row_ok (req : list derive) (row : list Z) : bool :=
  match row_derives row with
  | Some e => closed e && sufficient req e && (has req DDisplay || resolvable e)
  | None => false
  end.

Definition table_ok (tbl : list (list Z)) : bool :=
  Nat.eqb (length tbl) (length (powerset decorators)) &&
  forallb (fun p => row_ok (fst p) (snd p)) (combine (powerset decorators) tbl).

Lemma table_model_ok : table_ok gen_table_model = true.
Proof. vm_compute. reflexivity. Qed.
Lemma table_class_ok : table_ok gen_table_class = true.
Proof. vm_compute. reflexivity. Qed.

Lemma filter_in_powerset {A} (f : A -> bool) (l : list A) : In (filter f l) (powerset l).
Proof.
  induction l as [|x l IH]; cbn [filter powerset]; [now left|].
  apply in_or_app. destruct (f x); [left; now apply in_map | now right].
Qed.

Lemma in_combine_ex {A B} (x : A) (l : list A) (l' : list B) :
  In x l -> length l' = length l -> exists y, In (x, y) (combine l l').
Proof.
  revert l'. induction l as [|a l IH]; intros l' Hin Hlen; [destruct Hin|].
  destruct l' as [|b l']; [discriminate|]. cbn [combine]. destruct Hin as [->|Hin].
  - exists b. now left.
  - destruct (IH l' Hin ltac:(cbn in Hlen; lia)) as [y Hy]. exists y. now right.
Qed.

Lemma table_ok_rows tbl : table_ok tbl = true ->
  forall f : derive -> bool, let req := filter f decorators in
  exists row e, In (req, row) (combine (powerset decorators) tbl) /\ row_derives row = Some e /\
    closed e = true /\
    sufficient req e = true /\
    (~ Known_C20_derive_display req -> resolvable e = true).
Proof.
  intros H f. intros req. unfold table_ok in H. apply andb_prop in H as [Hlen Hall].
  apply Nat.eqb_eq in Hlen.
  destruct (in_combine_ex req _ tbl (filter_in_powerset f decorators) Hlen) as [row Hrow].
  rewrite forallb_forall in Hall. specialize (Hall _ Hrow). cbn [fst snd] in Hall.
  unfold row_ok in Hall. destruct (row_derives row) as [e|] eqn:E; [|discriminate].
  apply andb_prop in Hall as [Hall Hres]. apply andb_prop in Hall as [Hcl Hsuf].
  exists row, e. repeat split; trivial.
  intros Hk. apply orb_prop in Hres as [Hres|Hres]; [|exact Hres].
  exfalso. now apply Hk.
Qed.

(* ---- the hand model, for all lists *)

Lemma has_app l l' x : has (l ++ l') x = has l x || has l' x.
Proof. unfold has. apply existsb_app. Qed.

Lemma derive_eqb_refl d : derive_eqb d d = true.
Proof. unfold derive_eqb. apply Z.eqb_refl. Qed.

Lemma derive_eqb_eq a b : derive_eqb a b = true -> a = b.
Proof. destruct a, b; cbn; intros H; try reflexivity; discriminate. Qed.

Lemma has_push l d x : has (push_missing l d) x = has l x || derive_eqb x d.
Proof.
  unfold push_missing. destruct (has l d) eqn:E.
  - destruct (derive_eqb x d) eqn:E2; [|now rewrite orb_false_r].
    apply derive_eqb_eq in E2. subst. now rewrite E.
  - rewrite has_app. cbn. now rewrite orb_false_r.
Qed.

Lemma has_filter p l x : has (filter p l) x = existsb (fun y => derive_eqb x y && p y) l.
Proof.
  unfold has. induction l as [|a l IH]; [reflexivity|]. cbn [filter existsb].
  destruct (p a); cbn [existsb]; rewrite IH.
  - now rewrite andb_true_r.
  - now rewrite andb_false_r.
Qed.

Lemma has_filter_const p l x : (forall y, derive_eqb x y = true -> p y = p x) ->
  has (filter p l) x = has l x && p x.
Proof.
  intros Hp. rewrite has_filter. unfold has. induction l as [|a l IH]; [reflexivity|].
  cbn [existsb]. rewrite IH. destruct (derive_eqb x a) eqn:E; cbn.
  - rewrite (Hp a E). destruct (p x); cbn; [reflexivity|]. now rewrite andb_false_r.
  - reflexivity.
Qed.

Lemma has_l1 l x :
  has (if has l DEq && negb (has l DPartialEq) then l ++ [DPartialEq] else l) x
  = has l x || (derive_eqb x DPartialEq && has l DEq).
Proof.
  destruct (has l DEq) eqn:E1, (has l DPartialEq) eqn:E2; cbn [andb negb].
  - destruct (derive_eqb x DPartialEq) eqn:E; cbn [andb]; [|now rewrite orb_false_r].
    apply derive_eqb_eq in E. subst. now rewrite E2.
  - rewrite has_app. cbn [has existsb]. now rewrite orb_false_r, andb_true_r.
  - now rewrite andb_false_r, orb_false_r.
  - now rewrite andb_false_r, orb_false_r.
Qed.

Lemma has_extract0 l x :
  has (extract_derives0 l) x =
    has l x || (derive_eqb x DPartialEq && (has l DEq || has l DOrd))
    || (derive_eqb x DPartialOrd && has l DOrd) || (derive_eqb x DEq && has l DOrd).
Proof.
  unfold extract_derives0.
  rewrite (has_l1 l DOrd). change (derive_eqb DOrd DPartialEq) with false.
  rewrite andb_false_l, orb_false_r.
  destruct (has l DOrd) eqn:EO.
  - rewrite !has_push, has_l1.
    destruct (derive_eqb x DPartialEq), (derive_eqb x DPartialOrd), (derive_eqb x DEq), (has l x), (has l DEq); reflexivity.
  - rewrite has_l1.
    destruct (derive_eqb x DPartialEq), (derive_eqb x DPartialOrd), (derive_eqb x DEq), (has l x), (has l DEq); reflexivity.
Qed.

Lemma has_extract l x :
  has (extract_derives l) x =
    has l x || (derive_eqb x DPartialEq && (has l DEq || has l DOrd || has l DPartialOrd))
    || (derive_eqb x DPartialOrd && has l DOrd) || (derive_eqb x DEq && has l DOrd).
Proof.
  unfold extract_derives. rewrite (has_extract0 l DPartialOrd).
  change (derive_eqb DPartialOrd DPartialEq) with false. change (derive_eqb DPartialOrd DPartialOrd) with true.
  change (derive_eqb DPartialOrd DEq) with false. cbn [andb orb]. rewrite !orb_false_r.
  destruct (has l DPartialOrd) eqn:EP, (has l DOrd) eqn:EO; cbn [orb andb].
  - rewrite has_push, has_extract0, EO.
    destruct (derive_eqb x DPartialEq), (derive_eqb x DPartialOrd), (derive_eqb x DEq), (has l x), (has l DEq); reflexivity.
  - rewrite has_push, has_extract0, EO.
    destruct (derive_eqb x DPartialEq), (derive_eqb x DPartialOrd), (derive_eqb x DEq), (has l x), (has l DEq); reflexivity.
  - rewrite has_push, has_extract0, EO.
    destruct (derive_eqb x DPartialEq), (derive_eqb x DPartialOrd), (derive_eqb x DEq), (has l x), (has l DEq); reflexivity.
  - rewrite has_extract0, EO.
    destruct (derive_eqb x DPartialEq), (derive_eqb x DPartialOrd), (derive_eqb x DEq), (has l x), (has l DEq); reflexivity.
Qed.

Lemma has_emitted l x :
  has (emitted l) x =
    negb (derive_eqb x DValidate) &&
    (has l x
     || (derive_eqb x DPartialEq && (has l DEq || has l DOrd || has l DPartialOrd))
     || (derive_eqb x DPartialOrd && has l DOrd)
     || (derive_eqb x DEq && has l DOrd)
     || derive_eqb x DDebug || derive_eqb x DClone || derive_eqb x DFieldInfo || derive_eqb x DIncanClass).
Proof.
  unfold emitted. rewrite has_filter_const.
  2:{ intros y E. apply derive_eqb_eq in E. now subst. }
  unfold lower_derives. rewrite !has_push, has_extract. apply andb_comm.
Qed.

Lemma emitted_closed l : closed (emitted l) = true.
Proof.
  unfold closed. rewrite !has_emitted.
  destruct (has l DEq), (has l DPartialEq), (has l DOrd), (has l DPartialOrd), (has l DCopy), (has l DClone);
    vm_compute; reflexivity.
Qed.

Lemma emitted_sufficient l : sufficient l (emitted l) = true.
Proof.
  unfold sufficient. apply forallb_forall. intros d Hd. rewrite has_emitted.
  assert (Hl : has l d = true).
  { unfold has. apply existsb_exists. exists d. split; [exact Hd|apply derive_eqb_refl]. }
  rewrite Hl. destruct (derive_eqb d DValidate); reflexivity.
Qed.

Lemma emitted_resolvable l : has l DDisplay = false -> resolvable (emitted l) = true.
Proof. unfold resolvable. rewrite has_emitted. intros ->. vm_compute. reflexivity. Qed.

(* regression witness of the repaired finding derive-partialord *)
Lemma emitted_partialord_alone :
  partialord_alone [DPartialOrd] = true /\
  emitted [DPartialOrd] = [DPartialOrd; DPartialEq; DDebug; DClone; DFieldInfo; DIncanClass] /\
  closed (emitted [DPartialOrd]) = true.
Proof. repeat split; vm_compute; reflexivity. Qed.

(* the regenerated table IS the hand model, row by row, as sets of derive names (the order of the
   names inside #[derive(..)] has no meaning in Rust, so a reordering edit keeps this true) *)
Definition all_derives : list derive := decorators ++ [DFieldInfo; DIncanClass].
Definition same_set (a b : list derive) : bool :=
  forallb (fun d => Bool.eqb (has a d) (has b d)) all_derives.
Definition rows_match (tbl : list (list Z)) : bool :=
  Nat.eqb (length tbl) (length (powerset decorators)) &&
  forallb (fun p => match row_derives (snd p) with
                    | Some e => same_set e (emitted (fst p))
                    | None => false
                    end) (combine (powerset decorators) tbl).

Lemma same_set_spec a b : same_set a b = true -> forall d, has a d = has b d.
Proof.
  unfold same_set. rewrite forallb_forall. intros H d. apply Bool.eqb_prop. apply H.
  destruct d; cbn; tauto.
Qed.

Lemma table_is_model : rows_match gen_table_model = true /\ rows_match gen_table_class = true.
Proof. split; vm_compute; reflexivity. Qed.

Lemma rows_match_rows tbl : rows_match tbl = true ->
  forall f : derive -> bool, let req := filter f decorators in
  exists row e, In (req, row) (combine (powerset decorators) tbl) /\ row_derives row = Some e /\
    forall d, has e d = has (emitted req) d.
Proof.
  intros H f req. unfold rows_match in H. apply andb_prop in H as [Hlen Hall].
  apply Nat.eqb_eq in Hlen.
  destruct (in_combine_ex req _ tbl (filter_in_powerset f decorators) Hlen) as [row Hrow].
  rewrite forallb_forall in Hall. specialize (Hall _ Hrow). cbn [fst snd] in Hall.
  destruct (row_derives row) as [e|] eqn:E; [|discriminate].
  exists row, e. split; [exact Hrow|]. split; [exact E|]. now apply same_set_spec.
Qed.

(* ---- to_json / from_json: the regenerated flags (method-less `model M` / `class M`) follow the derives *)
Definition jm_ok (tbl : list (list Z)) (jm : list Z) : bool :=
  Nat.eqb (length jm) (length tbl) &&
  forallb (fun p => match row_derives (fst p) with
                    | Some e => snd p =? json_methods_code e
                    | None => false
                    end) (combine tbl jm).

Lemma jm_model_ok : jm_ok gen_table_model gen_jm_model = true.
Proof. vm_compute. reflexivity. Qed.
Lemma jm_class_ok : jm_ok gen_table_class gen_jm_class = true.
Proof. vm_compute. reflexivity. Qed.

Lemma jm_ok_rows tbl jm : jm_ok tbl jm = true ->
  forall row code, In (row, code) (combine tbl jm) ->
  exists e, row_derives row = Some e /\ code = json_methods_code e.
Proof.
  unfold jm_ok. intros H row code Hin. apply andb_prop in H as [_ Hall].
  rewrite forallb_forall in Hall. specialize (Hall _ Hin). cbn [fst snd] in Hall.
  destruct (row_derives row) as [e|]; [|discriminate]. exists e. split; [reflexivity|]. now apply Z.eqb_eq.
Qed.

(* regression witness of the repaired finding class-json-methods: some method-less class row has both methods *)
Lemma jm_class_witness : existsb (fun c => c =? 3) gen_jm_class = true.
Proof. vm_compute. reflexivity. Qed.
