(* C20/ProofsValue.v — derived Deserialize o Serialize on JSON trees, derived ==, <, hash, clone. *)
From Verif Require Import Base.I64 C20.Model.
From Coq Require Import ZArith List Bool Lia.
Import ListNotations.
Open Scope Z_scope.

(* ------------------------------------------------------------------ induction principles *)

Section TyInd.
  Variable P : ty -> Prop.
  Hypothesis HInt : P TInt.
  Hypothesis HBool : P TBool.
  Hypothesis HStr : P TStr.
  Hypothesis HFloat : P TFloat.
  Hypothesis HList : forall t, P t -> P (TList t).
  Hypothesis HDict : forall t, P t -> P (TDict t).
  Hypothesis HOpt : forall t, P t -> P (TOpt t).
  Hypothesis HStruct : forall fs, Forall (fun f => P (snd f)) fs -> P (TStruct fs).
  Fixpoint ty_ind2 (t : ty) : P t :=
    match t with
    | TInt => HInt | TBool => HBool | TStr => HStr | TFloat => HFloat
    | TList t' => HList t' (ty_ind2 t')
    | TDict t' => HDict t' (ty_ind2 t')
    | TOpt t' => HOpt t' (ty_ind2 t')
    | TStruct fs =>
        HStruct fs ((fix go (fs : list (str * ty)) : Forall (fun f => P (snd f)) fs :=
                       match fs with
                       | [] => Forall_nil _
                       | (n, ft) :: fs' => Forall_cons (n, ft) (ty_ind2 ft) (go fs')
                       end) fs)
    end.
End TyInd.

Section ValInd.
  Variable P : value -> Prop.
  Hypothesis HInt : forall z, P (VInt z).
  Hypothesis HBool : forall b, P (VBool b).
  Hypothesis HStr : forall s, P (VStr s).
  Hypothesis HList : forall l, Forall P l -> P (VList l).
  Hypothesis HDict : forall l, Forall (fun kv => P (snd kv)) l -> P (VDict l).
  Hypothesis HNone : P VNone.
  Hypothesis HSome : forall v, P v -> P (VSome v).
  Hypothesis HStruct : forall l, Forall (fun kv => P (snd kv)) l -> P (VStruct l).
  Fixpoint value_ind2 (v : value) : P v :=
    match v with
    | VInt z => HInt z | VBool b => HBool b | VStr s => HStr s
    | VList l => HList l ((fix go (l : list value) : Forall P l :=
                             match l with [] => Forall_nil _ | x :: l' => Forall_cons x (value_ind2 x) (go l') end) l)
    | VDict l => HDict l ((fix go (l : list (str * value)) : Forall (fun kv => P (snd kv)) l :=
                             match l with [] => Forall_nil _ | (k, x) :: l' => Forall_cons (k, x) (value_ind2 x) (go l') end) l)
    | VNone => HNone
    | VSome x => HSome x (value_ind2 x)
    | VStruct l => HStruct l ((fix go (l : list (str * value)) : Forall (fun kv => P (snd kv)) l :=
                                 match l with [] => Forall_nil _ | (k, x) :: l' => Forall_cons (k, x) (value_ind2 x) (go l') end) l)
    end.
End ValInd.

(* ------------------------------------------------------------------ strings *)

Lemma str_eqb_eq a b : str_eqb a b = true <-> a = b.
Proof.
  revert b. induction a as [|x a IH]; intros [|y b]; cbn; try (split; congruence).
  rewrite andb_true_iff, Z.eqb_eq, IH. split; [intros [-> ->]; reflexivity | intros [= -> ->]; auto].
Qed.
Lemma str_eqb_refl a : str_eqb a a = true.
Proof. now apply str_eqb_eq. Qed.
Lemma str_eqb_neq a b : str_eqb a b = false <-> a <> b.
Proof. rewrite <- str_eqb_eq. destruct (str_eqb a b); split; congruence. Qed.

(* ------------------------------------------------------------------ standalone copies of the nested fixpoints *)

Definition enc (kv : str * value) : str * json := match kv with (k, x) => (k, encode x) end.

Fixpoint fields_typed (fs : list (str * ty)) (l : list (str * value)) : Prop :=
  match fs, l with
  | [], [] => True
  | (n, ft) :: fs', (k, v') :: l' => n = k /\ has_type ft v' /\ fields_typed fs' l'
  | _, _ => False
  end.
Lemma has_type_struct fs l : has_type (TStruct fs) (VStruct l) = fields_typed fs l.
Proof. reflexivity. Qed.

Fixpoint fields_wf (fs : list (str * ty)) : Prop :=
  match fs with [] => True | (n, ft) :: fs' => Forall scalar n /\ wf_ty ft /\ fields_wf fs' end.
Lemma wf_ty_struct fs : wf_ty (TStruct fs) = (NoDup (map fst fs) /\ fields_wf fs).
Proof. reflexivity. Qed.

Fixpoint fields_nested (fs : list (str * ty)) : bool :=
  match fs with [] => false | (_, ft) :: fs' => nested_opt ft || fields_nested fs' end.
Lemma nested_opt_struct fs : nested_opt (TStruct fs) = fields_nested fs.
Proof. reflexivity. Qed.

Definition dfields (ms : list (str * json)) : list (str * ty) -> option (list (str * value)) :=
  fix fields (fs : list (str * ty)) : option (list (str * value)) :=
  match fs with
  | [] => Some []
  | (n, ft) :: fs' =>
      let here :=
        match lookup_all n ms with
        | [] => match ft with TOpt _ => Some VNone | _ => None end
        | [x] => decode ft x
        | _ => None
        end in
      match here with
      | Some v => match fields fs' with Some r => Some ((n, v) :: r) | None => None end
      | None => None
      end
  end.
Lemma dfields_cons ms n ft fs :
  dfields ms ((n, ft) :: fs) =
  match (match lookup_all n ms with
         | [] => match ft with TOpt _ => Some VNone | _ => None end
         | [x] => decode ft x
         | _ => None
         end) with
  | Some v => match dfields ms fs with Some r => Some ((n, v) :: r) | None => None end
  | None => None
  end.
Proof. reflexivity. Qed.
Lemma decode_struct_obj fs ms : decode (TStruct fs) (JObj ms) = option_map VStruct (dfields ms fs).
Proof. reflexivity. Qed.

Definition dstep (t : ty) (acc : option (list (str * value))) (kj : str * json) :=
  match acc with
  | Some d => match decode t (snd kj) with Some x => Some (dict_insert (fst kj) x d) | None => None end
  | None => None
  end.
Lemma decode_dict_obj t ms : decode (TDict t) (JObj ms) = option_map VDict (fold_left (dstep t) ms (Some [])).
Proof. reflexivity. Qed.

(* ------------------------------------------------------------------ decode o encode *)

Lemma mapM_encode t l :
  Forall (fun v => decode t (encode v) = Some v) l -> mapM (decode t) (map encode l) = Some l.
Proof.
  induction 1 as [|v l Hv _ IH]; [reflexivity|]. cbn [map mapM]. now rewrite Hv, IH.
Qed.

Lemma dict_insert_fresh k x d : ~ In k (map fst d) -> dict_insert k x d = d ++ [(k, x)].
Proof.
  induction d as [|[k' y] d IH]; intros Hn; [reflexivity|]. cbn [dict_insert app].
  destruct (str_eqb k k') eqn:E.
  - apply str_eqb_eq in E. subst. exfalso. apply Hn. now left.
  - rewrite IH; [reflexivity|]. intros Hin. apply Hn. now right.
Qed.

Lemma fold_dict t l : forall acc,
  Forall (fun kv => decode t (encode (snd kv)) = Some (snd kv)) l ->
  NoDup (map fst acc ++ map fst l) ->
  fold_left (dstep t) (map enc l) (Some acc) = Some (acc ++ l).
Proof.
  induction l as [|[k x] l IH]; intros acc Hd Hnd; cbn [map fold_left].
  - now rewrite app_nil_r.
  - inversion Hd as [|? ? Hx Hd']; subst. cbn [snd] in Hx.
    cbn [enc dstep fst snd]. rewrite Hx.
    rewrite dict_insert_fresh.
    2:{ cbn [map fst] in Hnd. apply NoDup_remove_2 in Hnd. intros Hin. apply Hnd. apply in_or_app. now left. }
    rewrite IH; [now rewrite <- app_assoc|exact Hd'|].
    rewrite map_app. cbn [map fst]. rewrite <- app_assoc. exact Hnd.
Qed.

Lemma lookup_all_notin {A} n (l : list (str * A)) : ~ In n (map fst l) -> lookup_all n l = [].
Proof.
  induction l as [|[k x] l IH]; intros Hn; [reflexivity|]. cbn [lookup_all].
  destruct (str_eqb n k) eqn:E.
  - apply str_eqb_eq in E. subst. exfalso. apply Hn. now left.
  - apply IH. intros H. apply Hn. now right.
Qed.

Lemma map_fst_enc l : map fst (map enc l) = map fst l.
Proof. induction l as [|[k x] l IH]; [reflexivity|]. cbn. now rewrite IH. Qed.

Lemma lookup_all_enc n v l :
  NoDup (map fst l) -> In (n, v) l -> lookup_all n (map enc l) = [encode v].
Proof.
  induction l as [|[k x] l IH]; intros Hnd Hin; [destruct Hin|].
  cbn [map fst] in Hnd. inversion Hnd as [|? ? Hk Hnd']; subst.
  cbn [map enc lookup_all]. destruct (str_eqb n k) eqn:E.
  - apply str_eqb_eq in E. subst k. destruct Hin as [Hin|Hin].
    + inversion Hin; subst. rewrite lookup_all_notin; [reflexivity|]. now rewrite map_fst_enc.
    + exfalso. apply Hk. change n with (fst (n, v)). now apply in_map.
  - destruct Hin as [Hin|Hin].
    + inversion Hin; subst. now rewrite str_eqb_refl in E.
    + now apply IH.
Qed.

Lemma encode_not_null t v : has_type t v -> (forall t', t <> TOpt t') -> encode v <> JNull.
Proof.
  intros Ht Hn. destruct t, v; cbn in Ht; try contradiction; cbn; try discriminate.
  - exfalso. now apply (Hn t).
  - exfalso. now apply (Hn t).
Qed.

Lemma fields_typed_names fs l : fields_typed fs l -> map fst l = map fst fs.
Proof.
  revert l. induction fs as [|[n ft] fs IH]; intros [|[k v] l] H; cbn in H; try contradiction; [reflexivity|].
  destruct H as [-> [_ H]]. cbn. now rewrite (IH l H).
Qed.

Lemma dfields_ok ms : forall fs l,
  Forall (fun f => forall v, wf_ty (snd f) -> nested_opt (snd f) = false -> has_type (snd f) v ->
                             decode (snd f) (encode v) = Some v) fs ->
  fields_wf fs -> fields_nested fs = false -> fields_typed fs l ->
  (forall n v, In (n, v) l -> lookup_all n ms = [encode v]) ->
  dfields ms fs = Some l.
Proof.
  induction fs as [|[n ft] fs IH]; intros [|[k v] l] HP Hwf Hno Hty Hlk; cbn in Hty; try contradiction; [reflexivity|].
  destruct Hty as [<- [Hv Hty]]. cbn [fields_wf] in Hwf. destruct Hwf as [_ [Hwft Hwf]].
  cbn [fields_nested] in Hno. apply orb_false_iff in Hno as [Hnot Hno].
  inversion HP as [|? ? Hf HP']; subst. cbn [snd] in Hf.
  rewrite dfields_cons. rewrite (Hlk n v (or_introl eq_refl)). rewrite (Hf v Hwft Hnot Hv).
  rewrite (IH l HP' Hwf Hno Hty); [reflexivity|].
  intros n' v' Hin. apply Hlk. now right.
Qed.

Lemma decode_encode : forall t v,
  wf_ty t -> nested_opt t = false -> has_type t v -> decode t (encode v) = Some v.
Proof.
  induction t as [| | | |t IH|t IH|t IH|fs IH] using ty_ind2; intros v Hwf Hno Hty.
  - destruct v; cbn in Hty; try contradiction. cbn. apply in_i64b_spec in Hty. now rewrite Hty.
  - destruct v; cbn in Hty; try contradiction. reflexivity.
  - destruct v; cbn in Hty; try contradiction. reflexivity.
  - destruct v; cbn in Hty; contradiction.
  - destruct v; cbn in Hty; try contradiction. cbn [encode decode].
    rewrite mapM_encode; [reflexivity|].
    eapply Forall_impl; [|exact Hty]. intros a Ha. now apply IH.
  - destruct v; cbn in Hty; try contradiction. destruct Hty as [Hnd Hall].
    change (encode (VDict l)) with (JObj (map enc l)).
    rewrite decode_dict_obj, (fold_dict t l []); [reflexivity| |exact Hnd].
    eapply Forall_impl; [|exact Hall]. intros a [_ Ha]. now apply IH.
  - assert (Hnt : forall t', t <> TOpt t').
    { intros t' ->. cbn in Hno. discriminate. }
    assert (Hno' : nested_opt t = false).
    { destruct t; cbn in Hno |- *; try exact Hno; try reflexivity. exfalso. now apply (Hnt t). }
    destruct v; cbn in Hty; try contradiction.
    + reflexivity.
    + cbn [encode]. pose proof (encode_not_null t v Hty Hnt) as Hnn.
      cbn [decode]. rewrite (IH v Hwf Hno' Hty).
      destruct (encode v); try reflexivity. now exfalso.
  - destruct v; try (cbn in Hty; contradiction).
    rewrite has_type_struct in Hty. rewrite wf_ty_struct in Hwf. destruct Hwf as [Hnd Hwf].
    rewrite nested_opt_struct in Hno.
    change (encode (VStruct l)) with (JObj (map enc l)).
    rewrite decode_struct_obj, (dfields_ok (map enc l) fs l IH Hwf Hno Hty); [reflexivity|].
    intros n v Hin. apply lookup_all_enc; [|exact Hin].
    now rewrite (fields_typed_names fs l Hty).
Qed.

(* the keys of the JSON object of a struct value are the declared names, in declaration order *)
Lemma encode_field_names fs l : has_type (TStruct fs) (VStruct l) ->
  exists ms, encode (VStruct l) = JObj ms /\ map fst ms = map fst fs.
Proof.
  rewrite has_type_struct. intros H. exists (map enc l). split; [reflexivity|].
  now rewrite map_fst_enc, (fields_typed_names fs l H).
Qed.

(* the witness of the known finding *)
Lemma nested_option_refuted :
  let t := TStruct [([111], TOpt (TOpt TInt)); ([110], TInt)] in
  let v := VStruct [([111], VSome VNone); ([110], VInt 1)] in
  wf_ty t /\ has_type t v /\ nested_opt t = true /\
  decode t (encode v) = Some (VStruct [([111], VNone); ([110], VInt 1)]).
Proof.
  cbn zeta. split; [|split; [|split; reflexivity]].
  - cbn. split; [|repeat split; repeat constructor; reflexivity].
    repeat constructor; cbn; intuition discriminate.
  - cbn. repeat split; unfold in_i64, MIN64, MAX64; lia.
Qed.

(* ------------------------------------------------------------------ derived == *)

Fixpoint no_dict (v : value) : bool :=
  match v with
  | VInt _ | VBool _ | VStr _ | VNone => true
  | VList l => forallb no_dict l
  | VDict _ => false
  | VSome x => no_dict x
  | VStruct l => forallb (fun kv => match kv with (_, x) => no_dict x end) l
  end.

Fixpoint list_veq (x y : list value) : bool :=
  match x, y with
  | [], [] => true
  | a :: x', b :: y' => veq a b && list_veq x' y'
  | _, _ => false
  end.
Fixpoint fields_veq (x y : list (str * value)) : bool :=
  match x, y with
  | [], [] => true
  | (k, a) :: x', (k', b) :: y' => str_eqb k k' && veq a b && fields_veq x' y'
  | _, _ => false
  end.
Lemma veq_list x y : veq (VList x) (VList y) = list_veq x y.
Proof. reflexivity. Qed.
Lemma veq_struct x y : veq (VStruct x) (VStruct y) = fields_veq x y.
Proof. reflexivity. Qed.

Lemma veq_eq : forall a, no_dict a = true -> forall b, veq a b = true <-> a = b.
Proof.
  induction a as [z|b0|s|l IH|l IH| |a IH|l IH] using value_ind2; intros Hnd b.
  - destruct b; cbn; try (split; [discriminate|congruence]). rewrite Z.eqb_eq. split; congruence.
  - destruct b; cbn; try (split; [discriminate|congruence]).
    rewrite Bool.eqb_true_iff. split; congruence.
  - destruct b; cbn; try (split; [discriminate|congruence]). rewrite str_eqb_eq. split; congruence.
  - destruct b as [| | |l'| | | |]; try (cbn; split; [discriminate|congruence]).
    rewrite veq_list. cbn [no_dict] in Hnd.
    assert (H : list_veq l l' = true <-> l = l').
    { revert l' Hnd. induction IH as [|a l Ha _ IHl]; intros [|b l'] Hnd; cbn; try (split; congruence).
      cbn [forallb] in Hnd. apply andb_true_iff in Hnd as [Hna Hnl].
      rewrite andb_true_iff, (Ha Hna b), (IHl l' Hnl). split; [intros [-> ->]; reflexivity|intros [= -> ->]; auto]. }
    rewrite H. split; congruence.
  - cbn in Hnd. discriminate.
  - destruct b; cbn; split; congruence.
  - destruct b; try (cbn; split; [discriminate|congruence]). cbn [veq]. cbn [no_dict] in Hnd.
    rewrite (IH Hnd b). split; congruence.
  - destruct b as [| | | | | | |l']; try (cbn; split; [discriminate|congruence]).
    rewrite veq_struct. cbn [no_dict] in Hnd.
    assert (H : fields_veq l l' = true <-> l = l').
    { revert l' Hnd. induction IH as [|[k a] l Ha _ IHl]; intros [|[k' b] l'] Hnd; cbn; try (split; congruence).
      cbn [forallb] in Hnd. apply andb_true_iff in Hnd as [Hna Hnl]. cbn [snd] in Ha.
      rewrite !andb_true_iff, str_eqb_eq, (Ha Hna b), (IHl l' Hnl).
      split; [intros [[-> ->] ->]; reflexivity|intros [= -> -> ->]; auto]. }
    rewrite H. split; congruence.
Qed.

(* == on a struct is the conjunction of == on the fields, in order (any field types) *)
Lemma veq_fieldwise x y :
  veq (VStruct x) (VStruct y) = true <->
  Forall2 (fun p q => fst p = fst q /\ veq (snd p) (snd q) = true) x y.
Proof.
  rewrite veq_struct. revert y. induction x as [|[k a] x IH]; intros [|[k' b] y]; cbn.
  - split; [constructor|reflexivity].
  - split; [discriminate|intros H; inversion H].
  - split; [discriminate|intros H; inversion H].
  - rewrite !andb_true_iff, str_eqb_eq, IH. split.
    + intros [[-> Hv] Hf]. constructor; [split; [reflexivity|exact Hv]|exact Hf].
    + intros H. inversion H as [|? ? ? ? [Hk Hv] Hf]; subst. cbn in Hk, Hv. subst. auto.
Qed.

Fixpoint fields_ord (fs : list (str * ty)) : bool :=
  match fs with [] => true | (_, ft) :: fs' => ord_ty ft && fields_ord fs' end.
Lemma ord_ty_struct fs : ord_ty (TStruct fs) = fields_ord fs.
Proof. reflexivity. Qed.

Lemma ord_ty_no_dict : forall t v, ord_ty t = true -> has_type t v -> no_dict v = true.
Proof.
  induction t as [| | | |t IH|t IH|t IH|fs IH] using ty_ind2; intros v Ho Ht; cbn in Ho; try discriminate;
    destruct v; cbn in Ht; try contradiction; try reflexivity.
  - cbn [no_dict]. apply forallb_forall. intros x Hx. rewrite Forall_forall in Ht. apply IH; auto.
  - cbn [no_dict]. now apply IH.
  - change (fields_typed fs l) in Ht. cbn [no_dict].
    change (fields_ord fs = true) in Ho.
    revert l Ht Ho. induction IH as [|[n ft] fs Hf _ IHfs]; intros [|[k v] l] Ht Ho; cbn in Ht; try contradiction; [reflexivity|].
    destruct Ht as [_ [Hv Ht]]. apply andb_true_iff in Ho as [Ho1 Ho2]. cbn [forallb].
    rewrite (Hf v Ho1 Hv). cbn [andb]. now apply IHfs.
Qed.

(* ------------------------------------------------------------------ derived Hash respects == *)

Lemma hash_respects_eq a b : no_dict a = true -> veq a b = true -> hash_stream a = hash_stream b.
Proof. intros Hn He. apply (veq_eq a Hn b) in He. now subst. Qed.

(* ------------------------------------------------------------------ derived Clone *)

Lemma map_id_ext {A} (f : A -> A) l : Forall (fun x => f x = x) l -> map f l = l.
Proof. induction 1 as [|x l Hx _ IH]; [reflexivity|]. cbn. now rewrite Hx, IH. Qed.

Lemma vclone_eq : forall v, vclone v = v.
Proof.
  induction v as [z|b0|s|l IH|l IH| |a IH|l IH] using value_ind2; cbn [vclone]; try reflexivity.
  - f_equal. apply map_id_ext. now apply Forall_forall.
  - f_equal. now apply map_id_ext.
  - f_equal. apply map_id_ext. eapply Forall_impl; [|exact IH]. intros [k x] H. cbn in H. now rewrite H.
  - now rewrite IH.
  - f_equal. apply map_id_ext. eapply Forall_impl; [|exact IH]. intros [k x] H. cbn in H. now rewrite H.
Qed.

Lemma store_set_other s i j v : i <> j -> nth_error (store_set s i v) j = nth_error s j.
Proof.
  revert i j. induction s as [|x s IH]; intros [|i] [|j] Hij; cbn; try reflexivity; try congruence.
  apply IH. congruence.
Qed.

Lemma store_set_same s i v : (i < length s)%nat -> nth_error (store_set s i v) i = Some v.
Proof.
  revert i. induction s as [|x s IH]; intros [|i] Hi; cbn in *; try lia; [reflexivity|]. apply IH. lia.
Qed.

Lemma clone_equal_independent s i v :
  nth_error s i = Some v ->
  exists s' c, store_clone s i = Some (s', c) /\ c <> i /\
    nth_error s' c = Some v /\ nth_error s' i = Some v /\
    (forall w, nth_error (store_set s' c w) i = Some v /\ nth_error (store_set s' c w) c = Some w) /\
    (forall w, nth_error (store_set s' i w) c = Some v /\ nth_error (store_set s' i w) i = Some w).
Proof.
  intros H. unfold store_clone. rewrite H, vclone_eq.
  assert (Hi : (i < length s)%nat) by (apply nth_error_Some; congruence).
  exists (s ++ [v]), (length s). split; [reflexivity|]. split; [lia|].
  assert (Hc : nth_error (s ++ [v]) (length s) = Some v).
  { rewrite nth_error_app2 by lia. now rewrite Nat.sub_diag. }
  assert (Ho : nth_error (s ++ [v]) i = Some v) by (rewrite nth_error_app1 by lia; exact H).
  split; [exact Hc|]. split; [exact Ho|]. split; intros w; split.
  - rewrite store_set_other by lia. exact Ho.
  - apply store_set_same. rewrite app_length. cbn. lia.
  - rewrite store_set_other by lia. exact Hc.
  - apply store_set_same. rewrite app_length. cbn. lia.
Qed.
