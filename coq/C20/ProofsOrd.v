(* C20/ProofsOrd.v — derived PartialOrd/Ord is a total order (on values of one ord type) that is
   lexicographic in declaration order: the first differing field decides. *)
From Verif Require Import Base.I64 C20.Model C20.ProofsValue.
From Coq Require Import ZArith List Bool Lia.
Import ListNotations.
Open Scope Z_scope.

Fixpoint list_vcmp (x y : list value) : comparison :=
  match x, y with
  | [], [] => Eq
  | [], _ :: _ => Lt
  | _ :: _, [] => Gt
  | a :: x', b :: y' => match vcmp a b with Eq => list_vcmp x' y' | c => c end
  end.
Fixpoint fields_vcmp (x y : list (str * value)) : comparison :=
  match x, y with
  | [], [] => Eq
  | [], _ :: _ => Lt
  | _ :: _, [] => Gt
  | (_, a) :: x', (_, b) :: y' => match vcmp a b with Eq => fields_vcmp x' y' | c => c end
  end.
Lemma vcmp_list x y : vcmp (VList x) (VList y) = list_vcmp x y.
Proof. reflexivity. Qed.
Lemma vcmp_struct x y : vcmp (VStruct x) (VStruct y) = fields_vcmp x y.
Proof. reflexivity. Qed.

(* what it means for a comparison to be a total order on a carrier *)
Record tot {A} (S : A -> Prop) (cmp : A -> A -> comparison) : Prop := {
  t_eq : forall a b, S a -> S b -> cmp a b = Eq -> a = b;
  t_refl : forall a, S a -> cmp a a = Eq;
  t_anti : forall a b, S a -> S b -> cmp b a = CompOpp (cmp a b);
  t_trans : forall a b c, S a -> S b -> S c -> cmp a b = Lt -> cmp b c = Lt -> cmp a c = Lt
}.

Lemma tot_Z : tot (fun _ : Z => True) Z.compare.
Proof.
  split; intros.
  - now apply Z.compare_eq.
  - apply Z.compare_refl.
  - apply Z.compare_antisym.
  - rewrite Z.compare_lt_iff in *. lia.
Qed.

Lemma tot_bool : tot (fun _ : bool => True) bool_cmp.
Proof. split; intros; repeat match goal with b : bool |- _ => destruct b end; cbn in *; congruence. Qed.

(* one lexicographic step, given the element facts *)
Lemma lex_step_trans (ab bc ac : comparison) (tab tbc tac : comparison) :
  (ab = Lt -> bc = Lt -> ac = Lt) ->
  (ab = Eq -> ac = bc) -> (bc = Eq -> ac = ab) ->
  (ab = Eq -> bc = Eq -> tab = Lt -> tbc = Lt -> tac = Lt) ->
  match ab with Eq => tab | Lt => Lt | Gt => Gt end = Lt ->
  match bc with Eq => tbc | Lt => Lt | Gt => Gt end = Lt ->
  match ac with Eq => tac | Lt => Lt | Gt => Gt end = Lt.
Proof.
  intros H1 H2 H3 H4 Hab Hbc. destruct ab, bc; try discriminate.
  - rewrite (H2 eq_refl). now apply H4.
  - now rewrite (H2 eq_refl).
  - now rewrite (H3 eq_refl).
  - now rewrite (H1 eq_refl eq_refl).
Qed.

Lemma tot_list {A} (S : A -> Prop) cmp (lc : list A -> list A -> comparison) :
  tot S cmp ->
  (forall x y, lc x y = match x, y with
                        | [], [] => Eq | [], _ :: _ => Lt | _ :: _, [] => Gt
                        | a :: x', b :: y' => match cmp a b with Eq => lc x' y' | c => c end
                        end) ->
  tot (Forall S) lc.
Proof.
  intros T Hlc. split.
  - induction a as [|a x IH]; intros [|b y] Ha Hb; rewrite Hlc; try discriminate; [reflexivity|].
    inversion Ha; inversion Hb; subst. destruct (cmp a b) eqn:E; try discriminate.
    intros H. apply (t_eq _ _ T) in E; auto. subst. f_equal. now apply IH.
  - induction a as [|a x IH]; intros Ha; rewrite Hlc; [reflexivity|].
    inversion Ha; subst. rewrite (t_refl _ _ T) by assumption. now apply IH.
  - induction a as [|a x IH]; intros [|b y] Ha Hb.
    + rewrite (Hlc [] []). reflexivity.
    + rewrite (Hlc (b :: y) []), (Hlc [] (b :: y)). reflexivity.
    + rewrite (Hlc [] (a :: x)), (Hlc (a :: x) []). reflexivity.
    + inversion Ha; inversion Hb; subst. rewrite (Hlc (b :: y) (a :: x)), (Hlc (a :: x) (b :: y)).
      rewrite (t_anti _ _ T a b) by assumption. destruct (cmp a b); cbn; try reflexivity. now apply IH.
  - induction a as [|a x IH]; intros [|b y] [|c z] Ha Hb Hc Hab Hbc;
      rewrite Hlc in Hab; rewrite Hlc in Hbc; try discriminate; rewrite Hlc; [reflexivity|].
    inversion Ha; inversion Hb; inversion Hc; subst. revert Hab Hbc.
    apply (lex_step_trans (cmp a b) (cmp b c) (cmp a c) (lc x y) (lc y z) (lc x z)).
    + now apply (t_trans _ _ T).
    + intros E. apply (t_eq _ _ T) in E; auto. now subst.
    + intros E. apply (t_eq _ _ T) in E; auto. now subst.
    + intros _ _. now apply IH.
Qed.

Lemma str_cmp_unfold x y : str_cmp x y =
  match x, y with
  | [], [] => Eq | [], _ :: _ => Lt | _ :: _, [] => Gt
  | a :: x', b :: y' => match a ?= b with Eq => str_cmp x' y' | c => c end
  end.
Proof. destruct x, y; reflexivity. Qed.

Lemma tot_str : tot (fun _ : str => True) str_cmp.
Proof.
  pose proof (tot_list (fun _ : Z => True) Z.compare str_cmp tot_Z str_cmp_unfold) as T.
  assert (F : forall s : str, Forall (fun _ => True) s) by (intros s; apply Forall_forall; auto).
  split; intros.
  - apply (t_eq _ _ T); auto.
  - apply (t_refl _ _ T); auto.
  - apply (t_anti _ _ T); auto.
  - apply (t_trans _ _ T a b c); auto.
Qed.

Lemma list_vcmp_unfold x y : list_vcmp x y =
  match x, y with
  | [], [] => Eq | [], _ :: _ => Lt | _ :: _, [] => Gt
  | a :: x', b :: y' => match vcmp a b with Eq => list_vcmp x' y' | c => c end
  end.
Proof. destruct x, y; reflexivity. Qed.

Lemma tot_fields : forall fs,
  Forall (fun f => ord_ty (snd f) = true -> tot (has_type (snd f)) vcmp) fs -> fields_ord fs = true ->
  tot (fields_typed fs) fields_vcmp.
Proof.
  induction fs as [|[n ft] fs IH]; intros HP Ho.
  - split.
    + intros [|[]] [|[]] Ha Hb; cbn in *; try contradiction. reflexivity.
    + intros [|[]] Ha; cbn in *; try contradiction. reflexivity.
    + intros [|[]] [|[]] Ha Hb; cbn in *; try contradiction. reflexivity.
    + intros [|[]] [|[]] [|[]] Ha Hb Hc; cbn in *; try contradiction. discriminate.
  - inversion HP as [|? ? Hf HP']; subst. cbn [snd] in Hf. cbn [fields_ord] in Ho.
    apply andb_true_iff in Ho as [Ho1 Ho2]. specialize (Hf Ho1). specialize (IH HP' Ho2). split.
    + intros [|[ka a] x] [|[kb b] y] Ha Hb; cbn [fields_typed] in Ha, Hb; try contradiction.
      destruct Ha as [<- [Ha Hx]]. destruct Hb as [<- [Hb Hy]]. cbn [fields_vcmp].
      destruct (vcmp a b) eqn:E; try discriminate. intros H.
      apply (t_eq _ _ Hf) in E; auto. subst. f_equal. now apply (t_eq _ _ IH).
    + intros [|[ka a] x] Ha; cbn [fields_typed] in Ha; try contradiction.
      destruct Ha as [<- [Ha Hx]]. cbn [fields_vcmp]. rewrite (t_refl _ _ Hf) by assumption. now apply (t_refl _ _ IH).
    + intros [|[ka a] x] [|[kb b] y] Ha Hb; cbn [fields_typed] in Ha, Hb; try contradiction.
      destruct Ha as [<- [Ha Hx]]. destruct Hb as [<- [Hb Hy]]. cbn [fields_vcmp].
      rewrite (t_anti _ _ Hf a b) by assumption. destruct (vcmp a b); cbn; try reflexivity. now apply (t_anti _ _ IH).
    + intros [|[ka a] x] [|[kb b] y] [|[kc c] z] Ha Hb Hc; cbn [fields_typed] in Ha, Hb, Hc; try contradiction.
      destruct Ha as [<- [Ha Hx]]. destruct Hb as [<- [Hb Hy]]. destruct Hc as [<- [Hc Hz]]. cbn [fields_vcmp].
      apply (lex_step_trans (vcmp a b) (vcmp b c) (vcmp a c) (fields_vcmp x y) (fields_vcmp y z) (fields_vcmp x z)).
      * now apply (t_trans _ _ Hf).
      * intros E. apply (t_eq _ _ Hf) in E; auto. now subst.
      * intros E. apply (t_eq _ _ Hf) in E; auto. now subst.
      * intros _ _. now apply (t_trans _ _ IH).
Qed.

Lemma tot_value : forall t, ord_ty t = true -> tot (has_type t) vcmp.
Proof.
  induction t as [| | | |t IH|t IH|t IH|fs IH] using ty_ind2; intros Ho; cbn in Ho; try discriminate.
  - split.
    + intros [] [] Ha Hb; cbn in Ha, Hb; try contradiction. cbn. intros H. f_equal. now apply Z.compare_eq.
    + intros [] Ha; cbn in Ha; try contradiction. cbn. apply Z.compare_refl.
    + intros [] [] Ha Hb; cbn in Ha, Hb; try contradiction. cbn. apply Z.compare_antisym.
    + intros [] [] [] Ha Hb Hc; cbn in Ha, Hb, Hc; try contradiction. cbn. rewrite !Z.compare_lt_iff. lia.
  - split.
    + intros [] [] Ha Hb; cbn in Ha, Hb; try contradiction. cbn. intros H. f_equal. now apply (t_eq _ _ tot_bool).
    + intros [] Ha; cbn in Ha; try contradiction. cbn. now apply (t_refl _ _ tot_bool).
    + intros [] [] Ha Hb; cbn in Ha, Hb; try contradiction. cbn. now apply (t_anti _ _ tot_bool).
    + intros [] [] [] Ha Hb Hc; cbn in Ha, Hb, Hc; try contradiction. cbn. now apply (t_trans _ _ tot_bool).
  - split.
    + intros [] [] Ha Hb; cbn in Ha, Hb; try contradiction. cbn. intros H. f_equal. now apply (t_eq _ _ tot_str).
    + intros [] Ha; cbn in Ha; try contradiction. cbn. now apply (t_refl _ _ tot_str).
    + intros [] [] Ha Hb; cbn in Ha, Hb; try contradiction. cbn. now apply (t_anti _ _ tot_str).
    + intros [] [] [] Ha Hb Hc; cbn in Ha, Hb, Hc; try contradiction. cbn. now apply (t_trans _ _ tot_str).
  - pose proof (tot_list (has_type t) vcmp list_vcmp (IH Ho) list_vcmp_unfold) as T. split.
    + intros [] [] Ha Hb; cbn in Ha, Hb; try contradiction. rewrite vcmp_list. intros H. f_equal. now apply (t_eq _ _ T).
    + intros [] Ha; cbn in Ha; try contradiction. rewrite vcmp_list. now apply (t_refl _ _ T).
    + intros [] [] Ha Hb; cbn in Ha, Hb; try contradiction. rewrite !vcmp_list. now apply (t_anti _ _ T).
    + intros [] [] [] Ha Hb Hc; cbn in Ha, Hb, Hc; try contradiction. rewrite !vcmp_list. now apply (t_trans _ _ T).
  - specialize (IH Ho). split.
    + intros [] [] Ha Hb; cbn in Ha, Hb; try contradiction; cbn; try discriminate; [reflexivity|].
      intros H. f_equal. now apply (t_eq _ _ IH).
    + intros [] Ha; cbn in Ha; try contradiction; cbn; [reflexivity|]. now apply (t_refl _ _ IH).
    + intros [] [] Ha Hb; cbn in Ha, Hb; try contradiction; cbn; try reflexivity. now apply (t_anti _ _ IH).
    + intros [] [] [] Ha Hb Hc; cbn in Ha, Hb, Hc; try contradiction; cbn; try discriminate; try reflexivity.
      now apply (t_trans _ _ IH).
  - change (fields_ord fs = true) in Ho. pose proof (tot_fields fs IH Ho) as T. split.
    + intros [] [] Ha Hb; try (cbn in Ha, Hb; contradiction). rewrite has_type_struct in Ha, Hb. rewrite vcmp_struct.
      intros H. f_equal. now apply (t_eq _ _ T).
    + intros [] Ha; try (cbn in Ha; contradiction). rewrite has_type_struct in Ha. rewrite vcmp_struct. now apply (t_refl _ _ T).
    + intros [] [] Ha Hb; try (cbn in Ha, Hb; contradiction). rewrite has_type_struct in Ha, Hb. rewrite !vcmp_struct.
      now apply (t_anti _ _ T).
    + intros [] [] [] Ha Hb Hc; try (cbn in Ha, Hb, Hc; contradiction). rewrite has_type_struct in Ha, Hb, Hc.
      rewrite !vcmp_struct. now apply (t_trans _ _ T).
Qed.

(* the first differing declared field decides (any field types, no typing needed) *)
Lemma first_difference : forall pre pre' n n' a b post post',
  Forall2 (fun p q => vcmp (snd p) (snd q) = Eq) pre pre' ->
  vcmp a b <> Eq ->
  vcmp (VStruct (pre ++ (n, a) :: post)) (VStruct (pre' ++ (n', b) :: post')) = vcmp a b.
Proof.
  intros pre pre' n n' a b post post' H Hne. rewrite vcmp_struct.
  induction H as [|[k x] [k' y] pre pre' Hxy _ IH]; cbn [app fields_vcmp].
  - destruct (vcmp a b); congruence.
  - cbn [snd] in Hxy. now rewrite Hxy.
Qed.
