(* C20/ProofsJson.v — the JSON reader inverts the printer on every well-formed tree, and the
   fuel computed from the input length always suffices. *)
From Verif Require Import Base.I64 C20.Model C20.ProofsValue.
From Coq Require Import ZArith List Bool Lia.
Import ListNotations.
Open Scope Z_scope.

(* ------------------------------------------------------------------ numbers *)

Definition digit (c : Z) : Prop := 48 <= c <= 57.
Lemma is_digit_spec c : is_digit c = true <-> digit c.
Proof. unfold is_digit, digit. lia. Qed.

Definition step (a c : Z) : Z := a * 10 + (c - 48).

Lemma dec_digits_all f : forall n acc, 0 <= n -> Forall digit acc -> Forall digit (dec_digits f n acc).
Proof.
  induction f as [|f IH]; intros n acc Hn Hacc; cbn [dec_digits]; [exact Hacc|].
  destruct (n <? 10) eqn:E.
  - constructor; [unfold digit; lia|exact Hacc].
  - apply IH; [apply Z.div_pos; lia|]. constructor; [|exact Hacc].
    unfold digit. pose proof (Z.mod_pos_bound n 10 ltac:(lia)). lia.
Qed.

Lemma dec_digits_val f : forall n acc, 0 <= n < 10 ^ Z.of_nat f ->
  fold_left step (dec_digits f n acc) 0 = fold_left step acc n.
Proof.
  induction f as [|f IH]; intros n acc Hn; cbn [dec_digits].
  - cbn in Hn. assert (n = 0) by lia. now subst.
  - destruct (n <? 10) eqn:E.
    + cbn [fold_left]. unfold step at 2. f_equal. lia.
    + rewrite IH.
      * cbn [fold_left]. unfold step at 2. f_equal.
        pose proof (Z.div_mod n 10 ltac:(lia)). lia.
      * rewrite Nat2Z.inj_succ, Z.pow_succ_r in Hn by lia.
        split; [apply Z.div_pos; lia|]. apply Z.div_lt_upper_bound; lia.
Qed.

Lemma dec_digits_head f : forall n acc, 0 < n < 10 ^ Z.of_nat f ->
  exists d tl, dec_digits f n acc = d :: tl /\ 49 <= d <= 57.
Proof.
  induction f as [|f IH]; intros n acc Hn; cbn [dec_digits].
  - cbn in Hn. lia.
  - destruct (n <? 10) eqn:E.
    + exists (48 + n), acc. split; [reflexivity|lia].
    + apply IH. rewrite Nat2Z.inj_succ, Z.pow_succ_r in Hn by lia.
      split; [apply Z.div_str_pos; lia|]. apply Z.div_lt_upper_bound; lia.
Qed.

Definition stop_ok (rest : str) : Prop :=
  match rest with
  | [] => True
  | c :: _ => is_digit c = false /\ c <> 46 /\ c <> 101 /\ c <> 69
  end.

Lemma scan_digits_app ds : forall rest a, Forall digit ds -> stop_ok rest ->
  scan_digits (ds ++ rest) a = (fold_left step ds a, rest).
Proof.
  induction ds as [|d ds IH]; intros rest a Hd Hs; cbn [app fold_left].
  - destruct rest as [|c r]; [reflexivity|]. cbn [scan_digits]. destruct Hs as [-> _]. reflexivity.
  - inversion Hd as [|? ? Hd1 Hd2]; subst. cbn [scan_digits].
    apply is_digit_spec in Hd1. rewrite Hd1. now apply IH.
Qed.

Definition small (z : Z) : Prop := - 10 ^ 20 < z < 10 ^ 20.

Lemma tail_sel {A} c (X Y Z W : A) (neg : bool) n :
  c <> 46 -> c <> 101 -> c <> 69 -> neg && (n =? 0) = false ->
  (if c =? 46 then X else if (c =? 101) || (c =? 69) then Y else if neg && (n =? 0) then Z else W) = W.
Proof.
  intros H1 H2 H3 Hz. apply Z.eqb_neq in H1, H2, H3. now rewrite H1, H2, H3, Hz.
Qed.

Lemma parse_number_pos n rest : 0 <= n < 10 ^ 20 -> stop_ok rest ->
  parse_number (print_nat n ++ rest) = POk (NInt n) rest.
Proof.
  intros Hn Hs. unfold print_nat.
  assert (H20 : 10 ^ Z.of_nat 20 = 10 ^ 20) by reflexivity.
  destruct (Z.eq_dec n 0) as [->|Hnz].
  - change (dec_digits 20 0 []) with [48]. cbn [app]. unfold parse_number.
    cbn [tl]. change (48 =? 45) with false. cbn iota.
    change (negb (is_digit 48)) with false. cbn iota. change (48 =? 48) with true. cbn iota.
    destruct rest as [|c r2]; [reflexivity|]. destruct Hs as [Hd [H1 [H2 H3]]].
    rewrite Hd. cbn [andb]. apply Z.eqb_neq in H1, H2, H3. rewrite H1, H2, H3. reflexivity.
  - destruct (dec_digits_head 20 n [] ltac:(lia)) as [d [tl0 [Hdd Hdr]]].
    pose proof (dec_digits_all 20 n [] ltac:(lia) (Forall_nil _)) as Hall.
    pose proof (dec_digits_val 20 n [] ltac:(lia)) as Hval. cbn [fold_left] in Hval.
    pose proof (scan_digits_app (dec_digits 20 n []) rest 0 Hall Hs) as Hscan. rewrite Hval in Hscan.
    rewrite Hdd in *. cbn [app] in *. unfold parse_number.
    assert (E45 : d =? 45 = false) by (apply Z.eqb_neq; lia).
    assert (Edg : is_digit d = true) by (apply is_digit_spec; unfold digit; lia).
    assert (E48 : d =? 48 = false) by (apply Z.eqb_neq; lia).
    rewrite E45. cbn iota. rewrite Edg. cbn [negb]. cbn iota. rewrite E48. rewrite Hscan.
    cbn [andb].
    destruct rest as [|c r2]; [reflexivity|]. destruct Hs as [Hd [H1 [H2 H3]]].
    apply Z.eqb_neq in H1, H2, H3. rewrite H1, H2, H3. reflexivity.
Qed.

Lemma parse_number_neg n rest : 0 < n < 10 ^ 20 -> stop_ok rest ->
  parse_number (45 :: print_nat n ++ rest) = POk (NInt (- n)) rest.
Proof.
  intros Hn Hs. unfold print_nat.
  destruct (dec_digits_head 20 n [] ltac:(change (10 ^ Z.of_nat 20) with (10 ^ 20); lia)) as [d [tl0 [Hdd Hdr]]].
  pose proof (dec_digits_all 20 n [] ltac:(lia) (Forall_nil _)) as Hall.
  pose proof (dec_digits_val 20 n [] ltac:(change (10 ^ Z.of_nat 20) with (10 ^ 20); lia)) as Hval. cbn [fold_left] in Hval.
  pose proof (scan_digits_app (dec_digits 20 n []) rest 0 Hall Hs) as Hscan. rewrite Hval in Hscan.
  rewrite Hdd in *. cbn [app] in *. unfold parse_number.
  assert (Edg : is_digit d = true) by (apply is_digit_spec; unfold digit; lia).
  assert (E48 : d =? 48 = false) by (apply Z.eqb_neq; lia).
  assert (Ez : true && (n =? 0) = false) by (cbn; apply Z.eqb_neq; lia).
  change (45 =? 45) with true. cbn iota. cbn [tl]. rewrite Edg. cbn [negb]. cbn iota. rewrite E48. rewrite Hscan.
  cbn [andb] in *.
  destruct rest as [|c r2]; [now rewrite Ez|]. destruct Hs as [Hd [H1 [H2 H3]]].
  apply Z.eqb_neq in H1, H2, H3. rewrite H1, H2, H3. cbn [orb]. now rewrite Ez.
Qed.

Lemma print_int_head z : small z -> exists c tl, print_int z = c :: tl /\ (c = 45 \/ digit c).
Proof.
  intros Hz. unfold print_int. destruct (z <? 0) eqn:E.
  - exists 45, (print_nat (- z)). auto.
  - unfold print_nat. destruct (Z.eq_dec z 0) as [->|Hnz].
    + exists 48, []. split; [reflexivity|right; unfold digit; lia].
    + destruct (dec_digits_head 20 z [] ltac:(change (10 ^ Z.of_nat 20) with (10 ^ 20); unfold small in Hz; lia)) as [d [tl0 [Hdd Hdr]]].
      exists d, tl0. split; [exact Hdd|right; unfold digit; lia].
Qed.

Lemma parse_number_int z rest : small z -> stop_ok rest ->
  parse_number (print_int z ++ rest) = POk (NInt z) rest.
Proof.
  intros Hz Hs. unfold print_int. unfold small in Hz. destruct (z <? 0) eqn:E.
  - cbn [app]. rewrite parse_number_neg; [f_equal; f_equal; lia|lia|exact Hs].
  - apply parse_number_pos; [lia|exact Hs].
Qed.

(* ------------------------------------------------------------------ strings *)

Lemma psb_raw c r acc : c <> 34 -> c <> 92 -> 32 <= c ->
  parse_str_body (c :: r) acc = parse_str_body r (c :: acc).
Proof.
  intros H1 H2 H3. cbn [parse_str_body]. apply Z.eqb_neq in H1, H2. rewrite H1, H2.
  assert (E : (0 <=? c) && (c <? 32) = false) by lia. now rewrite E.
Qed.

Lemma psb_u00 c r acc : 0 <= c < 32 ->
  parse_str_body (92 :: 117 :: 48 :: 48 :: hexd (c / 16) :: hexd (c mod 16) :: r) acc = parse_str_body r (c :: acc).
Proof.
  intros Hc.
  assert (H : c = 0 \/ c = 1 \/ c = 2 \/ c = 3 \/ c = 4 \/ c = 5 \/ c = 6 \/ c = 7 \/ c = 8 \/ c = 9 \/ c = 10 \/
              c = 11 \/ c = 12 \/ c = 13 \/ c = 14 \/ c = 15 \/ c = 16 \/ c = 17 \/ c = 18 \/ c = 19 \/ c = 20 \/
              c = 21 \/ c = 22 \/ c = 23 \/ c = 24 \/ c = 25 \/ c = 26 \/ c = 27 \/ c = 28 \/ c = 29 \/ c = 30 \/ c = 31) by lia.
  repeat (destruct H as [->|H]; [reflexivity|]). subst. reflexivity.
Qed.

Lemma parse_str_print s : forall acc rest, Forall scalar s ->
  parse_str_body (flat_map esc_char s ++ 34 :: rest) acc = Some (rev acc ++ s, rest).
Proof.
  induction s as [|c s IH]; intros acc rest Hs.
  - cbn [flat_map app]. cbn [parse_str_body]. change (34 =? 34) with true. cbn iota. now rewrite app_nil_r.
  - inversion Hs as [|? ? Hc Hs']; subst. cbn [flat_map]. rewrite <- app_assoc.
    assert (Hacc : rev (c :: acc) ++ s = rev acc ++ c :: s) by (cbn [rev]; now rewrite <- app_assoc).
    unfold scalar, scalarb in Hc. unfold esc_char.
    destruct (Z.eqb_spec c 34) as [->|N34]; [cbn [app]; etransitivity; [|rewrite <- Hacc; apply IH; exact Hs']; reflexivity|].
    destruct (Z.eqb_spec c 92) as [->|N92]; [cbn [app]; etransitivity; [|rewrite <- Hacc; apply IH; exact Hs']; reflexivity|].
    destruct (Z.eqb_spec c 8) as [->|N8]; [cbn [app]; etransitivity; [|rewrite <- Hacc; apply IH; exact Hs']; reflexivity|].
    destruct (Z.eqb_spec c 12) as [->|N12]; [cbn [app]; etransitivity; [|rewrite <- Hacc; apply IH; exact Hs']; reflexivity|].
    destruct (Z.eqb_spec c 10) as [->|N10]; [cbn [app]; etransitivity; [|rewrite <- Hacc; apply IH; exact Hs']; reflexivity|].
    destruct (Z.eqb_spec c 13) as [->|N13]; [cbn [app]; etransitivity; [|rewrite <- Hacc; apply IH; exact Hs']; reflexivity|].
    destruct (Z.eqb_spec c 9) as [->|N9]; [cbn [app]; etransitivity; [|rewrite <- Hacc; apply IH; exact Hs']; reflexivity|].
    destruct ((0 <=? c) && (c <? 32)) eqn:E32.
    + cbn [app]. rewrite psb_u00 by lia. rewrite <- Hacc. now apply IH.
    + cbn [app]. rewrite psb_raw by lia. rewrite <- Hacc. now apply IH.
Qed.

(* ------------------------------------------------------------------ well-formed trees, sizes *)

Fixpoint print_elems (l : list json) : str :=
  match l with
  | [] => []
  | [x] => print_json x
  | x :: l' => print_json x ++ 44 :: print_elems l'
  end.
Fixpoint print_membs (l : list (str * json)) : str :=
  match l with
  | [] => []
  | [(k, x)] => print_str k ++ 58 :: print_json x
  | (k, x) :: l' => print_str k ++ 58 :: print_json x ++ 44 :: print_membs l'
  end.
Lemma print_arr l : print_json (JArr l) = 91 :: print_elems l ++ [93].
Proof. reflexivity. Qed.
Lemma print_obj l : print_json (JObj l) = 123 :: print_membs l ++ [125].
Proof. reflexivity. Qed.

Section JsonInd.
  Variable P : json -> Prop.
  Hypothesis HNull : P JNull.
  Hypothesis HBool : forall b, P (JBool b).
  Hypothesis HNum : forall z, P (JNum z).
  Hypothesis HFloat : P JFloat.
  Hypothesis HStr : forall s, P (JStr s).
  Hypothesis HArr : forall l, Forall P l -> P (JArr l).
  Hypothesis HObj : forall l, Forall (fun kv => P (snd kv)) l -> P (JObj l).
  Fixpoint json_ind2 (j : json) : P j :=
    match j with
    | JNull => HNull | JBool b => HBool b | JNum z => HNum z | JFloat => HFloat | JStr s => HStr s
    | JArr l => HArr l ((fix go (l : list json) : Forall P l :=
                           match l with [] => Forall_nil _ | x :: l' => Forall_cons x (json_ind2 x) (go l') end) l)
    | JObj l => HObj l ((fix go (l : list (str * json)) : Forall (fun kv => P (snd kv)) l :=
                           match l with [] => Forall_nil _ | (k, x) :: l' => Forall_cons (k, x) (json_ind2 x) (go l') end) l)
    end.
End JsonInd.

Fixpoint wf_json (j : json) : Prop :=
  match j with
  | JNull | JBool _ => True
  | JNum z => small z
  | JFloat => False
  | JStr s => Forall scalar s
  | JArr l => (fix go (l : list json) : Prop := match l with [] => True | x :: l' => wf_json x /\ go l' end) l
  | JObj l => (fix go (l : list (str * json)) : Prop :=
                 match l with [] => True | (k, x) :: l' => Forall scalar k /\ wf_json x /\ go l' end) l
  end.
Fixpoint wf_elems (l : list json) : Prop := match l with [] => True | x :: l' => wf_json x /\ wf_elems l' end.
Fixpoint wf_membs (l : list (str * json)) : Prop :=
  match l with [] => True | (k, x) :: l' => Forall scalar k /\ wf_json x /\ wf_membs l' end.
Lemma wf_arr l : wf_json (JArr l) = wf_elems l. Proof. reflexivity. Qed.
Lemma wf_obj l : wf_json (JObj l) = wf_membs l. Proof. reflexivity. Qed.

Fixpoint jsize (j : json) : nat :=
  match j with
  | JArr l => S ((fix go (l : list json) : nat := match l with [] => O | x :: l' => S (jsize x + go l') end) l)
  | JObj l => S ((fix go (l : list (str * json)) : nat := match l with [] => O | (_, x) :: l' => S (jsize x + go l') end) l)
  | _ => 1%nat
  end.
Fixpoint esize (l : list json) : nat := match l with [] => O | x :: l' => S (jsize x + esize l') end.
Fixpoint msize (l : list (str * json)) : nat := match l with [] => O | (_, x) :: l' => S (jsize x + msize l') end.
Lemma jsize_arr l : jsize (JArr l) = S (esize l). Proof. reflexivity. Qed.
Lemma jsize_obj l : jsize (JObj l) = S (msize l). Proof. reflexivity. Qed.
Lemma jsize_pos j : (1 <= jsize j)%nat.
Proof. destruct j; cbn; lia. Qed.

(* first character of a printed well-formed tree *)
Definition head_ok (c : Z) : Prop :=
  is_ws c = false /\ c <> 93 /\ c <> 125 /\
  (c = 110 \/ c = 116 \/ c = 102 \/ c = 34 \/ c = 91 \/ c = 123 \/ c = 45 \/ digit c).

Lemma print_json_head j : wf_json j -> exists c tl, print_json j = c :: tl /\ head_ok c.
Proof.
  destruct j as [|[|]|z| |s|l|l]; intros Hw; cbn in Hw; try contradiction.
  - exists 110, [117; 108; 108]. split; [reflexivity|]. unfold head_ok, digit. cbn. lia.
  - exists 116, [114; 117; 101]. split; [reflexivity|]. unfold head_ok, digit. cbn. lia.
  - exists 102, [97; 108; 115; 101]. split; [reflexivity|]. unfold head_ok, digit. cbn. lia.
  - destruct (print_int_head z Hw) as [c [tl0 [Hp Hc]]]. exists c, tl0. split; [exact Hp|].
    unfold head_ok, is_ws, digit in *. destruct Hc as [->|Hc]; cbn; lia.
  - exists 34, (flat_map esc_char s ++ [34]). split; [reflexivity|]. unfold head_ok, digit. cbn. lia.
  - rewrite print_arr. exists 91, (print_elems l ++ [93]). split; [reflexivity|]. unfold head_ok, digit. cbn. lia.
  - rewrite print_obj. exists 123, (print_membs l ++ [125]). split; [reflexivity|]. unfold head_ok, digit. cbn. lia.
Qed.

Lemma skip_ws_head c tl : is_ws c = false -> skip_ws (c :: tl) = c :: tl.
Proof. intros H. cbn [skip_ws]. now rewrite H. Qed.

Lemma stop_ok_punct c r : c = 44 \/ c = 93 \/ c = 125 -> stop_ok (c :: r).
Proof. intros H. unfold stop_ok, is_digit. lia. Qed.

(* one unfolding of each reader, with the fuel exposed *)
Lemma parse_value_S f s : parse_value (S f) s =
  match skip_ws s with
  | [] => PErr
  | c :: r =>
      if c =? 110 then match expect (tl s_null) r with Some r' => POk JNull r' | None => PErr end
      else if c =? 116 then match expect (tl s_true) r with Some r' => POk (JBool true) r' | None => PErr end
      else if c =? 102 then match expect (tl s_false) r with Some r' => POk (JBool false) r' | None => PErr end
      else if c =? 34 then
        match parse_str_body r [] with Some (x, r') => POk (JStr x) r' | None => PErr end
      else if c =? 91 then
        match skip_ws r with
        | c2 :: r' =>
            if c2 =? 93 then POk (JArr []) r'
            else match parse_elems f r with POk l r'' => POk (JArr l) r'' | PErr => PErr | PFuel => PFuel end
        | [] => PErr
        end
      else if c =? 123 then
        match skip_ws r with
        | c2 :: r' =>
            if c2 =? 125 then POk (JObj []) r'
            else match parse_members f r with POk l r'' => POk (JObj l) r'' | PErr => PErr | PFuel => PFuel end
        | [] => PErr
        end
      else if (c =? 45) || is_digit c then
        match parse_number (c :: r) with
        | POk (NInt z) r' => POk (JNum z) r'
        | POk NFloat r' => POk JFloat r'
        | PErr => PErr
        | PFuel => PFuel
        end
      else PErr
  end.
Proof. reflexivity. Qed.

Lemma parse_elems_S f s : parse_elems (S f) s =
  match parse_value f s with
  | POk j r =>
      match skip_ws r with
      | c :: r' =>
          if c =? 44 then
            match parse_elems f r' with POk l r'' => POk (j :: l) r'' | PErr => PErr | PFuel => PFuel end
          else if c =? 93 then POk [j] r'
          else PErr
      | [] => PErr
      end
  | PErr => PErr
  | PFuel => PFuel
  end.
Proof. reflexivity. Qed.

Lemma parse_members_S f s : parse_members (S f) s =
  match skip_ws s with
  | q :: r =>
      if q =? 34 then
        match parse_str_body r [] with
        | Some (k, r1) =>
            match skip_ws r1 with
            | c :: r2 =>
                if c =? 58 then
                  match parse_value f r2 with
                  | POk j r3 =>
                      match skip_ws r3 with
                      | c3 :: r4 =>
                          if c3 =? 44 then
                            match parse_members f r4 with
                            | POk l r5 => POk ((k, j) :: l) r5 | PErr => PErr | PFuel => PFuel
                            end
                          else if c3 =? 125 then POk [(k, j)] r4
                          else PErr
                      | [] => PErr
                      end
                  | PErr => PErr
                  | PFuel => PFuel
                  end
                else PErr
            | [] => PErr
            end
        | None => PErr
        end
      else PErr
  | [] => PErr
  end.
Proof. reflexivity. Qed.

Definition PV (j : json) : Prop :=
  wf_json j -> forall fuel rest, (jsize j <= fuel)%nat -> stop_ok rest ->
  parse_value fuel (print_json j ++ rest) = POk j rest.

Lemma elems_ok : forall l, Forall PV l -> l <> [] -> wf_elems l -> forall fuel rest,
  (esize l <= fuel)%nat -> parse_elems fuel (print_elems l ++ 93 :: rest) = POk l rest.
Proof.
  induction 1 as [|x l Hx Hl IH]; intros Hne Hw fuel rest Hf; [congruence|].
  cbn [wf_elems] in Hw. destruct Hw as [Hwx Hwl]. cbn [esize] in Hf.
  destruct fuel as [|f]; [lia|]. rewrite parse_elems_S.
  destruct l as [|y l'].
  - cbn [print_elems]. rewrite (Hx Hwx f (93 :: rest)); [|lia|apply stop_ok_punct; lia].
    rewrite skip_ws_head by reflexivity. reflexivity.
  - change (print_elems (x :: y :: l')) with (print_json x ++ 44 :: print_elems (y :: l')).
    rewrite <- app_assoc. cbn [app].
    rewrite (Hx Hwx f (44 :: print_elems (y :: l') ++ 93 :: rest)); [|lia|apply stop_ok_punct; lia].
    rewrite skip_ws_head by reflexivity. change (44 =? 44) with true. cbn iota.
    rewrite IH; [reflexivity|discriminate|exact Hwl|lia].
Qed.

Lemma membs_ok : forall l, Forall (fun kv => PV (snd kv)) l -> l <> [] -> wf_membs l -> forall fuel rest,
  (msize l <= fuel)%nat -> parse_members fuel (print_membs l ++ 125 :: rest) = POk l rest.
Proof.
  induction 1 as [|[k x] l Hx Hl IH]; intros Hne Hw fuel rest Hf; [congruence|].
  cbn [wf_membs] in Hw. destruct Hw as [Hk [Hwx Hwl]]. cbn [msize] in Hf. cbn [snd] in Hx.
  destruct fuel as [|f]; [lia|]. rewrite parse_members_S.
  assert (Hstr : forall tail, (print_str k ++ 58 :: tail) = 34 :: flat_map esc_char k ++ 34 :: 58 :: tail).
  { intros tail. unfold print_str. cbn [app]. now rewrite <- app_assoc. }
  destruct l as [|[k2 y] l'].
  - cbn [print_membs]. rewrite <- app_assoc. cbn [app]. rewrite Hstr.
    rewrite skip_ws_head by reflexivity. change (34 =? 34) with true. cbn iota.
    rewrite parse_str_print by exact Hk. cbn [rev app].
    rewrite skip_ws_head by reflexivity. change (58 =? 58) with true. cbn iota.
    rewrite (Hx Hwx f (125 :: rest)); [|lia|apply stop_ok_punct; lia].
    rewrite skip_ws_head by reflexivity. reflexivity.
  - change (print_membs ((k, x) :: (k2, y) :: l')) with (print_str k ++ 58 :: print_json x ++ 44 :: print_membs ((k2, y) :: l')).
    rewrite <- app_assoc. cbn [app]. rewrite <- app_assoc. cbn [app]. rewrite Hstr.
    rewrite skip_ws_head by reflexivity. change (34 =? 34) with true. cbn iota.
    rewrite parse_str_print by exact Hk. cbn [rev app].
    rewrite skip_ws_head by reflexivity. change (58 =? 58) with true. cbn iota.
    rewrite (Hx Hwx f (44 :: print_membs ((k2, y) :: l') ++ 125 :: rest)); [|lia|apply stop_ok_punct; lia].
    rewrite skip_ws_head by reflexivity. change (44 =? 44) with true. cbn iota.
    rewrite IH; [reflexivity|discriminate|exact Hwl|lia].
Qed.

Lemma head_tests c : head_ok c ->
  (c = 110 \/ c = 116 \/ c = 102 \/ c = 34 \/ c = 91 \/ c = 123 \/ c = 45 \/ digit c).
Proof. now intros [_ [_ [_ H]]]. Qed.

Lemma parse_print : forall j, PV j.
Proof.
  induction j as [|b|z| |s|l IH|l IH] using json_ind2; intros Hw fuel rest Hf Hs;
    (destruct fuel as [|f]; [pose proof (jsize_pos JNull); cbn in Hf; lia|]); rewrite parse_value_S.
  - reflexivity.
  - destruct b; reflexivity.
  - cbn in Hw. destruct (print_int_head z Hw) as [c [tl0 [Hp Hc]]].
    pose proof (parse_number_int z rest Hw Hs) as Hn.
    change (print_json (JNum z)) with (print_int z). rewrite Hp in *. cbn [app] in *.
    assert (Hws : is_ws c = false) by (unfold is_ws, digit in *; lia).
    rewrite skip_ws_head by exact Hws.
    assert (E1 : c =? 110 = false) by (unfold digit in *; lia).
    assert (E2 : c =? 116 = false) by (unfold digit in *; lia).
    assert (E3 : c =? 102 = false) by (unfold digit in *; lia).
    assert (E4 : c =? 34 = false) by (unfold digit in *; lia).
    assert (E5 : c =? 91 = false) by (unfold digit in *; lia).
    assert (E6 : c =? 123 = false) by (unfold digit in *; lia).
    assert (E7 : (c =? 45) || is_digit c = true) by (unfold is_digit, digit in *; lia).
    rewrite E1, E2, E3, E4, E5, E6, E7, Hn. reflexivity.
  - cbn in Hw. contradiction.
  - cbn in Hw. change (print_json (JStr s)) with (print_str s). unfold print_str. cbn [app].
    rewrite <- app_assoc. cbn [app]. rewrite skip_ws_head by reflexivity.
    change (34 =? 110) with false. change (34 =? 116) with false. change (34 =? 102) with false.
    change (34 =? 34) with true. cbn iota.
    rewrite parse_str_print by exact Hw. reflexivity.
  - rewrite wf_arr in Hw. rewrite jsize_arr in Hf. rewrite print_arr. cbn [app]. rewrite <- app_assoc. cbn [app].
    rewrite skip_ws_head by reflexivity.
    change (91 =? 110) with false. change (91 =? 116) with false. change (91 =? 102) with false.
    change (91 =? 34) with false. change (91 =? 91) with true. cbn iota.
    destruct l as [|x l'].
    + cbn [print_elems app]. rewrite skip_ws_head by reflexivity. reflexivity.
    + assert (Hwx : wf_json x) by (cbn [wf_elems] in Hw; tauto).
      destruct (print_json_head x Hwx) as [c [tl0 [Hp [Hws [H93 _]]]]].
      assert (Hhd : exists tl1, print_elems (x :: l') ++ 93 :: rest = c :: tl1).
      { destruct l' as [|y l'']; cbn [print_elems]; rewrite Hp; cbn [app]; eauto. }
      destruct Hhd as [tl1 Hhd]. rewrite Hhd. rewrite skip_ws_head by exact Hws.
      apply Z.eqb_neq in H93. rewrite H93. rewrite <- Hhd.
      rewrite (elems_ok (x :: l') IH ltac:(discriminate) Hw f rest ltac:(lia)). reflexivity.
  - rewrite wf_obj in Hw. rewrite jsize_obj in Hf. rewrite print_obj. cbn [app]. rewrite <- app_assoc. cbn [app].
    rewrite skip_ws_head by reflexivity.
    change (123 =? 110) with false. change (123 =? 116) with false. change (123 =? 102) with false.
    change (123 =? 34) with false. change (123 =? 91) with false. change (123 =? 123) with true. cbn iota.
    destruct l as [|[k x] l'].
    + cbn [print_membs app]. rewrite skip_ws_head by reflexivity. reflexivity.
    + assert (Hhd : exists tl1, print_membs ((k, x) :: l') ++ 125 :: rest = 34 :: tl1).
      { destruct l' as [|[k2 y] l'']; cbn [print_membs]; unfold print_str; cbn [app]; eauto. }
      destruct Hhd as [tl1 Hhd]. rewrite Hhd. rewrite skip_ws_head by reflexivity.
      change (34 =? 125) with false. cbn iota. rewrite <- Hhd.
      rewrite (membs_ok ((k, x) :: l') IH ltac:(discriminate) Hw f rest ltac:(lia)). reflexivity.
Qed.

(* ------------------------------------------------------------------ the fuel from the length suffices *)

Lemma jsize_le_print : forall j, wf_json j -> (jsize j <= length (print_json j))%nat.
Proof.
  induction j as [|b|z| |s|l IH|l IH] using json_ind2; intros Hw.
  - cbn. lia.
  - destruct b; cbn; lia.
  - cbn in Hw. destruct (print_int_head z Hw) as [c [tl0 [Hp _]]].
    change (print_json (JNum z)) with (print_int z). rewrite Hp. cbn. lia.
  - cbn in Hw. contradiction.
  - change (print_json (JStr s)) with (print_str s). unfold print_str. cbn [length jsize]. lia.
  - rewrite wf_arr in Hw. rewrite jsize_arr, print_arr. cbn [length]. rewrite app_length. cbn [length].
    assert (H : (esize l <= length (print_elems l) + 1)%nat).
    { revert Hw. induction IH as [|x l Hx _ IHl]; intros Hw; [cbn; lia|].
      cbn [wf_elems] in Hw. destruct Hw as [Hwx Hwl]. specialize (Hx Hwx). specialize (IHl Hwl).
      destruct l as [|y l']; [cbn [esize print_elems]; lia|].
      change (print_elems (x :: y :: l')) with (print_json x ++ 44 :: print_elems (y :: l')).
      rewrite app_length. cbn [length]. cbn [esize] in *. lia. }
    lia.
  - rewrite wf_obj in Hw. rewrite jsize_obj, print_obj. cbn [length]. rewrite app_length. cbn [length].
    assert (H : (msize l <= length (print_membs l) + 1)%nat).
    { revert Hw. induction IH as [|[k x] l Hx _ IHl]; intros Hw; [cbn; lia|].
      cbn [wf_membs] in Hw. destruct Hw as [_ [Hwx Hwl]]. cbn [snd] in Hx. specialize (Hx Hwx). specialize (IHl Hwl).
      destruct l as [|[k2 y] l'].
      - cbn [msize print_membs]. rewrite app_length. cbn [length]. lia.
      - change (print_membs ((k, x) :: (k2, y) :: l')) with (print_str k ++ 58 :: print_json x ++ 44 :: print_membs ((k2, y) :: l')).
        rewrite app_length. cbn [length]. rewrite app_length. cbn [length]. cbn [msize] in *. lia. }
    lia.
Qed.

Lemma parse_json_print j : wf_json j -> parse_json (print_json j) = JOk j.
Proof.
  intros Hw. unfold parse_json, parse_json_fuel.
  pose proof (parse_print j Hw (json_fuel (print_json j)) []) as H. rewrite app_nil_r in H.
  rewrite H; [reflexivity| |exact I].
  pose proof (jsize_le_print j Hw). unfold json_fuel. lia.
Qed.

(* encode produces well-formed trees from well-typed values *)
Lemma wf_encode : forall t v, wf_ty t -> has_type t v -> wf_json (encode v).
Proof.
  induction t as [| | | |t IH|t IH|t IH|fs IH] using ty_ind2; intros v Hwf Hty.
  - destruct v; cbn in Hty; try contradiction. cbn. unfold small, in_i64, MIN64, MAX64 in *. lia.
  - destruct v; cbn in Hty; try contradiction. exact I.
  - destruct v; cbn in Hty; try contradiction. exact Hty.
  - destruct v; cbn in Hty; contradiction.
  - destruct v; cbn in Hty; try contradiction. cbn [encode]. rewrite wf_arr.
    induction Hty as [|a l Ha _ IHl]; cbn [map wf_elems]; [exact I|]. split; [now apply IH|exact IHl].
  - destruct v; cbn in Hty; try contradiction. destruct Hty as [_ Hall].
    change (encode (VDict l)) with (JObj (map enc l)). rewrite wf_obj.
    induction Hall as [|[k a] l [Hk Ha] _ IHl]; cbn [map enc wf_membs]; [exact I|].
    cbn [fst snd] in *. split; [exact Hk|]. split; [now apply IH|exact IHl].
  - destruct v; cbn in Hty; try contradiction; cbn [encode]; [exact I|now apply IH].
  - destruct v; try (cbn in Hty; contradiction).
    rewrite has_type_struct in Hty. rewrite wf_ty_struct in Hwf. destruct Hwf as [_ Hwf].
    change (encode (VStruct l)) with (JObj (map enc l)). rewrite wf_obj.
    revert l Hty Hwf. induction IH as [|[n ft] fs Hf _ IHfs]; intros [|[k a] l] Hty Hwf; cbn in Hty; try contradiction; [exact I|].
    destruct Hty as [<- [Ha Hty]]. cbn [fields_wf] in Hwf. destruct Hwf as [Hn [Hwft Hwf]].
    cbn [map enc wf_membs]. cbn [snd] in Hf. split; [exact Hn|]. split; [now apply Hf|now apply IHfs].
Qed.

(* ------------------------------------------------------------------ fuel: never OutOfFuel with the computed fuel *)

Lemma skip_ws_len s : (length (skip_ws s) <= length s)%nat.
Proof. induction s as [|c s IH]; cbn; [lia|]. destruct (is_ws c); cbn; lia. Qed.

Lemma expect_len lit : forall s r, expect lit s = Some r -> (length r <= length s)%nat.
Proof.
  induction lit as [|c lit IH]; intros s r H; cbn in H; [inversion H; lia|].
  destruct s as [|d s]; [discriminate|]. destruct (c =? d); [|discriminate]. apply IH in H. cbn. lia.
Qed.

Lemma scan_digits_len s : forall a, (length (snd (scan_digits s a)) <= length s)%nat.
Proof. induction s as [|c s IH]; intros a; cbn; [lia|]. destruct (is_digit c); cbn; [specialize (IH (a * 10 + (c - 48))); lia|lia]. Qed.
Lemma skip_digits_len s : (length (skip_digits s) <= length s)%nat.
Proof. induction s as [|c s IH]; cbn; [lia|]. destruct (is_digit c); cbn; lia. Qed.

Lemma scan_exp_len s r : scan_exp s = Some r -> (length r <= length s)%nat.
Proof.
  unfold scan_exp. destruct s as [|c r0]; [intros [= <-]; lia|].
  destruct ((c =? 101) || (c =? 69)); [|intros [= <-]; lia].
  remember (match r0 with sg :: r' => if (sg =? 43) || (sg =? 45) then r' else r0 | [] => r0 end) as r1 eqn:Er1.
  assert (H1 : (length r1 <= length r0)%nat).
  { subst r1. destruct r0 as [|sg r']; [lia|]. destruct ((sg =? 43) || (sg =? 45)); cbn; lia. }
  clear Er1. destruct r1 as [|d r2]; [discriminate|]. cbn [skip_digits]. destruct (is_digit d); [|discriminate].
  intros [= <-]. pose proof (skip_digits_len r2) as H2. cbn [length] in *. lia.
Qed.

Lemma parse_str_body_len s : forall acc x r, parse_str_body s acc = Some (x, r) -> (length r < length s)%nat.
Proof.
  induction s as [s IH] using (well_founded_induction (Wf_nat.well_founded_ltof _ (@length Z))).
  unfold Wf_nat.ltof in IH. intros acc x r H. destruct s as [|c s]; [discriminate|]. cbn [parse_str_body] in H.
  destruct (c =? 34); [inversion H; subst; cbn; lia|].
  destruct (c =? 92).
  - destruct s as [|e r2]; [discriminate|].
    repeat match type of H with
    | (if ?b then parse_str_body r2 _ else _) = _ =>
        destruct b; [apply IH in H; [cbn [length] in *; lia|cbn [length]; lia]|]
    end.
    destruct (e =? 117); [|discriminate].
    destruct r2 as [|h1 [|h2 [|h3 [|h4 r3]]]]; try discriminate.
    destruct (hex4 h1 h2 h3 h4) as [u|]; [|discriminate].
    destruct ((56320 <=? u) && (u <=? 57343)); [discriminate|].
    destruct ((55296 <=? u) && (u <=? 56319)).
    + destruct r3 as [|b1 [|u1 [|l1 [|l2 [|l3 [|l4 r4]]]]]]; try discriminate.
      destruct ((b1 =? 92) && (u1 =? 117)); [|discriminate].
      destruct (hex4 l1 l2 l3 l4) as [lo|]; [|discriminate].
      destruct ((56320 <=? lo) && (lo <=? 57343)); [|discriminate].
      apply IH in H; [cbn [length] in *; lia|cbn [length]; lia].
    + apply IH in H; [cbn [length] in *; lia|cbn [length]; lia].
  - destruct ((0 <=? c) && (c <? 32)); [discriminate|].
    apply IH in H; [cbn [length] in *; lia|cbn [length]; lia].
Qed.

Lemma parse_number_res s : parse_number s <> PFuel /\
  forall t r, parse_number s = POk t r -> (length r < length s)%nat.
Proof.
  unfold parse_number.
  set (neg := match s with c :: _ => c =? 45 | [] => false end).
  set (s1 := if neg then tl s else s).
  assert (Hs1 : (length s1 <= length s)%nat) by (subst s1; destruct neg, s; cbn; lia).
  destruct s1 as [|d r] eqn:Es1; [split; [discriminate|discriminate]|].
  destruct (is_digit d) eqn:Ed; cbn [negb]; [|split; discriminate].
  set (p := if d =? 48 then (0, r) else scan_digits (d :: r) 0).
  assert (Hp : (length (snd p) <= length r)%nat).
  { subst p. destruct (d =? 48); [cbn; lia|]. cbn [scan_digits].
    rewrite Ed. apply scan_digits_len. }
  destruct p as [n r1]. cbn [snd] in Hp. cbn [length] in Hs1.
  destruct r1 as [|c r2].
  - destruct (neg && (n =? 0)); split; try discriminate; intros t r' [= <- <-]; cbn; lia.
  - destruct ((d =? 48) && is_digit c); [split; discriminate|].
    destruct (c =? 46).
    + destruct r2 as [|f0 r3]; [split; discriminate|]. destruct (is_digit f0); [|split; discriminate].
      destruct (scan_exp (skip_digits (f0 :: r3))) as [r4|] eqn:E; [|split; discriminate].
      split; [discriminate|]. intros t r' [= <- <-]. apply scan_exp_len in E.
      pose proof (skip_digits_len (f0 :: r3)). cbn [length] in *. lia.
    + destruct ((c =? 101) || (c =? 69)).
      * destruct (scan_exp (c :: r2)) as [r4|] eqn:E; [|split; discriminate].
        split; [discriminate|]. intros t r' [= <- <-]. apply scan_exp_len in E. cbn [length] in *. lia.
      * destruct (neg && (n =? 0)); split; try discriminate; intros t r' [= <- <-]; cbn [length] in *; lia.
Qed.

Lemma fuel_enough : forall fuel,
  (forall s, (2 * length s + 1 <= fuel)%nat ->
      parse_value fuel s <> PFuel /\ forall j r, parse_value fuel s = POk j r -> (length r < length s)%nat) /\
  (forall s, (2 * length s + 2 <= fuel)%nat ->
      parse_elems fuel s <> PFuel /\ forall l r, parse_elems fuel s = POk l r -> (length r < length s)%nat) /\
  (forall s, (2 * length s + 2 <= fuel)%nat ->
      parse_members fuel s <> PFuel /\ forall l r, parse_members fuel s = POk l r -> (length r < length s)%nat).
Proof.
  induction fuel as [|f [IHv [IHe IHm]]].
  - repeat split; intros; lia.
  - split; [|split].
    + intros s Hf. rewrite parse_value_S. pose proof (skip_ws_len s) as Hws.
      destruct (skip_ws s) as [|c r]; [split; [discriminate|discriminate]|]. cbn [length] in Hws.
      destruct (c =? 110).
      { destruct (expect (tl s_null) r) as [r'|] eqn:E; split; try discriminate.
        intros j r0 [= <- <-]. apply expect_len in E. lia. }
      destruct (c =? 116).
      { destruct (expect (tl s_true) r) as [r'|] eqn:E; split; try discriminate.
        intros j r0 [= <- <-]. apply expect_len in E. lia. }
      destruct (c =? 102).
      { destruct (expect (tl s_false) r) as [r'|] eqn:E; split; try discriminate.
        intros j r0 [= <- <-]. apply expect_len in E. lia. }
      destruct (c =? 34).
      { destruct (parse_str_body r []) as [[x r']|] eqn:E; split; try discriminate.
        intros j r0 [= <- <-]. apply parse_str_body_len in E. lia. }
      destruct (c =? 91).
      { pose proof (skip_ws_len r) as Hws2. destruct (skip_ws r) as [|c2 r'] eqn:E2; [split; discriminate|].
        cbn [length] in Hws2. destruct (c2 =? 93); [split; [discriminate|intros j r0 [= <- <-]; lia]|].
        destruct (IHe r ltac:(lia)) as [Hnf Hlen].
        destruct (parse_elems f r) as [l r''| |] eqn:E; split; try discriminate; try congruence.
        intros j r0 [= <- <-]. specialize (Hlen l r'' eq_refl). lia. }
      destruct (c =? 123).
      { pose proof (skip_ws_len r) as Hws2. destruct (skip_ws r) as [|c2 r'] eqn:E2; [split; discriminate|].
        cbn [length] in Hws2. destruct (c2 =? 125); [split; [discriminate|intros j r0 [= <- <-]; lia]|].
        destruct (IHm r ltac:(lia)) as [Hnf Hlen].
        destruct (parse_members f r) as [l r''| |] eqn:E; split; try discriminate; try congruence.
        intros j r0 [= <- <-]. specialize (Hlen l r'' eq_refl). lia. }
      destruct ((c =? 45) || is_digit c); [|split; discriminate].
      destruct (parse_number_res (c :: r)) as [Hnf Hlen].
      destruct (parse_number (c :: r)) as [[z|] r'| |] eqn:E; split; try discriminate; try congruence;
        intros j r0 [= <- <-]; specialize (Hlen _ _ eq_refl); cbn [length] in *; lia.
    + intros s Hf. rewrite parse_elems_S.
      destruct (IHv s ltac:(lia)) as [Hnf Hlen].
      destruct (parse_value f s) as [j r| |] eqn:E; [|split; discriminate|congruence].
      specialize (Hlen j r eq_refl). pose proof (skip_ws_len r) as Hws.
      destruct (skip_ws r) as [|c r']; [split; discriminate|]. cbn [length] in Hws.
      destruct (c =? 44).
      * destruct (IHe r' ltac:(lia)) as [Hnf2 Hlen2].
        destruct (parse_elems f r') as [l r''| |] eqn:E2; split; try discriminate; try congruence.
        intros l0 r0 [= <- <-]. specialize (Hlen2 l r'' eq_refl). lia.
      * destruct (c =? 93); split; try discriminate. intros l0 r0 [= <- <-]. lia.
    + intros s Hf. rewrite parse_members_S. pose proof (skip_ws_len s) as Hws.
      destruct (skip_ws s) as [|q r]; [split; discriminate|]. cbn [length] in Hws.
      destruct (q =? 34); [|split; discriminate].
      destruct (parse_str_body r []) as [[k r1]|] eqn:Ek; [|split; discriminate].
      apply parse_str_body_len in Ek. pose proof (skip_ws_len r1) as Hws1.
      destruct (skip_ws r1) as [|c r2]; [split; discriminate|]. cbn [length] in Hws1.
      destruct (c =? 58); [|split; discriminate].
      destruct (IHv r2 ltac:(lia)) as [Hnf Hlen].
      destruct (parse_value f r2) as [j r3| |] eqn:E; [|split; discriminate|congruence].
      specialize (Hlen j r3 eq_refl). pose proof (skip_ws_len r3) as Hws3.
      destruct (skip_ws r3) as [|c3 r4]; [split; discriminate|]. cbn [length] in Hws3.
      destruct (c3 =? 44).
      * destruct (IHm r4 ltac:(lia)) as [Hnf2 Hlen2].
        destruct (parse_members f r4) as [l r5| |] eqn:E2; split; try discriminate; try congruence.
        intros l0 r0 [= <- <-]. specialize (Hlen2 l r5 eq_refl). lia.
      * destruct (c3 =? 125); split; try discriminate. intros l0 r0 [= <- <-]. lia.
Qed.

Lemma parse_json_never_out_of_fuel s : parse_json s <> JOutOfFuel.
Proof.
  unfold parse_json, parse_json_fuel.
  destruct (fuel_enough (json_fuel s)) as [Hv _].
  destruct (Hv s ltac:(unfold json_fuel; lia)) as [Hnf _].
  destruct (parse_value (json_fuel s) s) as [j r| |]; [destruct (skip_ws r); discriminate|discriminate|congruence].
Qed.
