(* C20/Props.v — the property theorems for C20, and nothing else.
   GenTable.v (imported through ProofsDerive) is regenerated from the real lowering + emitter on
   every run, so the derive theorems are re-proved on the current source. *)
From Verif Require Import Base.I64 C20.Model C20.GenTable C20.ProofsDerive C20.ProofsValue C20.ProofsJson C20.ProofsOrd C20.ProofsClass.
From Coq Require Import ZArith List Bool Lia.
Import ListNotations.
Open Scope Z_scope.

(* D1  for EVERY subset of the 13 decorators (given as a membership predicate), for models and for
       classes: the derive list the real compiler emits (row of the regenerated table) consists of
       vocabulary names, is closed under Rust's supertrait requirements, contains every requested
       derive (Validate aside), and names only derivable macros unless Display was requested *)
Theorem C20_derive_closed : forall (f : derive -> bool) (tbl : list (list Z)),
  tbl = gen_table_model \/ tbl = gen_table_class ->
  let req := filter f decorators in
  exists row e, In (req, row) (combine (powerset decorators) tbl) /\ row_derives row = Some e /\
    closed e = true /\
    sufficient req e = true /\
    (~ Known_C20_derive_display req -> resolvable e = true).
Proof.
  intros f tbl [-> | ->]; [exact (table_ok_rows _ table_model_ok f) | exact (table_ok_rows _ table_class_ok f)].
Qed.
Print Assumptions C20_derive_closed.

(* D1r regression witness (repaired finding derive-partialord): the class that used to fail is not
       empty and is closed now — on the regenerated table, for `@derive(PartialOrd)` alone *)
Theorem C20_derive_partialord_regression :
  partialord_alone [DPartialOrd] = true /\
  exists row e, In ([DPartialOrd], row) (combine (powerset decorators) gen_table_model) /\
    row_derives row = Some e /\ has e DPartialEq = true /\ closed e = true.
Proof.
  split; [reflexivity|].
  assert (H : existsb (fun p => partialord_alone (fst p) && Nat.eqb (length (fst p)) 1 &&
                match row_derives (snd p) with Some e => has e DPartialEq && closed e | None => false end)
              (combine (powerset decorators) gen_table_model) = true) by (vm_compute; reflexivity).
  apply existsb_exists in H as [[req row] [Hin H]]. cbn [fst snd] in H.
  apply andb_prop in H as [H H2]. apply andb_prop in H as [Hk Hlen].
  destruct (row_derives row) as [e|] eqn:E; [|discriminate]. apply andb_prop in H2 as [Hpe Hcl].
  assert (Hreq : req = [DPartialOrd]).
  { apply Nat.eqb_eq in Hlen. destruct req as [|d [|d2 req]]; try discriminate.
    destruct d; vm_compute in Hk; try discriminate. reflexivity. }
  subst req. exists row, e. repeat split; assumption.
Qed.
Print Assumptions C20_derive_partialord_regression.

(* D2  the hand model of extract_derives + lower_model/lower_class + emit_struct, for ALL derive
       lists (any order, any multiplicity): closed, sufficient, resolvable unless Display is requested *)
Theorem C20_derive_model_closed : forall l : list derive,
  closed (emitted l) = true /\
  sufficient l (emitted l) = true /\
  (has l DDisplay = false -> resolvable (emitted l) = true).
Proof.
  intros l. split; [exact (emitted_closed l)|]. split; [exact (emitted_sufficient l) | exact (emitted_resolvable l)].
Qed.
Print Assumptions C20_derive_model_closed.

(* D4  to_json / from_json: for every decorator subset, for a method-less model AND a method-less
       class, the inherent to_json is emitted iff Serialize is among the emitted derives and from_json
       iff Deserialize is (flags regenerated from the real emitter); the last conjunct is the regression
       witness of the repaired finding class-json-methods *)
Theorem C20_json_methods_emitted :
  (forall row code, In (row, code) (combine gen_table_model gen_jm_model) ->
     exists e, row_derives row = Some e /\ code = json_methods_code e) /\
  (forall row code, In (row, code) (combine gen_table_class gen_jm_class) ->
     exists e, row_derives row = Some e /\ code = json_methods_code e) /\
  length gen_jm_model = length gen_table_model /\ length gen_jm_class = length gen_table_class /\
  existsb (fun c => c =? 3) gen_jm_class = true.
Proof.
  split; [exact (jm_ok_rows _ _ jm_model_ok)|]. split; [exact (jm_ok_rows _ _ jm_class_ok)|].
  split; [vm_compute; reflexivity|]. split; [vm_compute; reflexivity|exact jm_class_witness].
Qed.
Print Assumptions C20_json_methods_emitted.

(* D3  tie: on every decorator subset, for both kinds, the regenerated row and the hand model
       [emitted] contain the same derive names *)
Theorem C20_derive_table_is_model : forall (f : derive -> bool) (tbl : list (list Z)),
  tbl = gen_table_model \/ tbl = gen_table_class ->
  let req := filter f decorators in
  exists row e, In (req, row) (combine (powerset decorators) tbl) /\ row_derives row = Some e /\
    forall d, has e d = has (emitted req) d.
Proof.
  intros f tbl [-> | ->]; [exact (rows_match_rows _ (proj1 table_is_model) f) | exact (rows_match_rows _ (proj2 table_is_model) f)].
Qed.
Print Assumptions C20_derive_table_is_model.

(* J1  json round trip: for every declared type without floats (typing premise) whose field types
       are outside the known class (an Option directly inside an Option), and every value of it,
       T.from_json(json_stringify(v)) is Ok(v) — text level, through the printer and the reader *)
Theorem C20_json_roundtrip : forall t v,
  wf_ty t -> ~ Known_C20_nested_option t -> has_type t v -> from_json t (to_json v) = JOk v.
Proof.
  intros t v Hwf Hk Hty. unfold from_json, to_json.
  rewrite (parse_json_print (encode v) (wf_encode t v Hwf Hty)).
  assert (Hno : nested_opt t = false) by (unfold Known_C20_nested_option in Hk; destruct (nested_opt t); congruence).
  now rewrite (decode_encode t v Hwf Hno Hty).
Qed.
Print Assumptions C20_json_roundtrip.

(* J1'  the known class is not empty and the property fails in it: Some(None) comes back as None *)
Theorem C20_json_roundtrip_refuted : exists t v w,
  wf_ty t /\ has_type t v /\ Known_C20_nested_option t /\ from_json t (to_json v) = JOk w /\ w <> v.
Proof.
  destruct nested_option_refuted as [Hwf [Hty [Hk Hd]]].
  exists (TStruct [([111], TOpt (TOpt TInt)); ([110], TInt)]),
         (VStruct [([111], VSome VNone); ([110], VInt 1)]),
         (VStruct [([111], VNone); ([110], VInt 1)]).
  split; [exact Hwf|]. split; [exact Hty|]. split; [exact Hk|]. split; [vm_compute; reflexivity|discriminate].
Qed.
Print Assumptions C20_json_roundtrip_refuted.

(* J2  the reader's fuel (computed from the input length) always suffices: no result of from_json
       is an artefact of running out of fuel *)
Theorem C20_json_fuel_suffices : forall t s, from_json t s <> JOutOfFuel.
Proof.
  intros t s. unfold from_json. pose proof (parse_json_never_out_of_fuel s) as H.
  destruct (parse_json s); [destruct (decode t a); discriminate|discriminate|congruence].
Qed.
Print Assumptions C20_json_fuel_suffices.

(* J3  the JSON text of a model/class value is an object whose keys are exactly the declared field
       names, in declaration order *)
Theorem C20_json_field_names : forall fs l,
  wf_ty (TStruct fs) -> has_type (TStruct fs) (VStruct l) ->
  exists ms, parse_json (to_json (VStruct l)) = JOk (JObj ms) /\ map fst ms = map fst fs.
Proof.
  intros fs l Hwf Hty. destruct (encode_field_names fs l Hty) as [ms [He Hn]].
  exists ms. split; [|exact Hn]. unfold to_json. rewrite <- He.
  exact (parse_json_print _ (wf_encode _ _ Hwf Hty)).
Qed.
Print Assumptions C20_json_field_names.

(* E1  == is structural: on types without dict/float it is Leibniz equality; on any struct it is the
       conjunction of == over the fields in order *)
Theorem C20_eq_structural :
  (forall t a b, ord_ty t = true -> has_type t a -> (veq a b = true <-> a = b)) /\
  (forall x y, veq (VStruct x) (VStruct y) = true <->
               Forall2 (fun p q => fst p = fst q /\ veq (snd p) (snd q) = true) x y).
Proof.
  split; [|exact veq_fieldwise].
  intros t a b Ho Ha. exact (veq_eq a (ord_ty_no_dict t a Ho Ha) b).
Qed.
Print Assumptions C20_eq_structural.

(* O1  derived ordering is a total order on the values of a type (no dict, no float): compares equal
       only equal values, reflexive, antisymmetric, transitive; and it is lexicographic in declaration
       order: the first field that differs decides *)
Theorem C20_ord_lexicographic :
  (forall t, ord_ty t = true ->
     (forall a b, has_type t a -> has_type t b -> vcmp a b = Eq -> a = b) /\
     (forall a, has_type t a -> vcmp a a = Eq) /\
     (forall a b, has_type t a -> has_type t b -> vcmp b a = CompOpp (vcmp a b)) /\
     (forall a b c, has_type t a -> has_type t b -> has_type t c -> vcmp a b = Lt -> vcmp b c = Lt -> vcmp a c = Lt)) /\
  (forall pre pre' n n' a b post post',
     Forall2 (fun p q => vcmp (snd p) (snd q) = Eq) pre pre' -> vcmp a b <> Eq ->
     vcmp (VStruct (pre ++ (n, a) :: post)) (VStruct (pre' ++ (n', b) :: post')) = vcmp a b).
Proof.
  split; [|exact first_difference].
  intros t Ho. destruct (tot_value t Ho) as [H1 H2 H3 H4]. repeat split; assumption.
Qed.
Print Assumptions C20_ord_lexicographic.

(* H1  equal values feed the Hasher the same sequence of calls (so they hash equally under any hasher) *)
Theorem C20_hash_respects_eq : forall t a b,
  ord_ty t = true -> has_type t a -> veq a b = true -> hash_stream a = hash_stream b.
Proof. intros t a b Ho Ha. exact (hash_respects_eq a b (ord_ty_no_dict t a Ho Ha)). Qed.
Print Assumptions C20_hash_respects_eq.

(* C1  a clone is equal to the original and independent of it (store model: writing either location
       leaves the other unchanged) *)
Theorem C20_clone_equal_independent : forall s i v,
  nth_error s i = Some v ->
  exists s' c, store_clone s i = Some (s', c) /\ c <> i /\
    nth_error s' c = Some v /\ nth_error s' i = Some v /\
    (forall w, nth_error (store_set s' c w) i = Some v /\ nth_error (store_set s' c w) c = Some w) /\
    (forall w, nth_error (store_set s' i w) c = Some v /\ nth_error (store_set s' i w) i = Some w).
Proof. exact clone_equal_independent. Qed.
Print Assumptions C20_clone_equal_independent.

(* K1  class hierarchies: for every class with a finite (acyclic) `extends` chain of any depth, the
       field list that lower_class builds (collect_inherited_fields of the parent, then the own
       fields) is the documented declaration order: the most distant ancestor's fields first, then
       each descendant's, the class's own fields last; the chain length is enough fuel *)
Theorem C20_inherited_fields_root_first : forall tbl c l fuel,
  chain tbl c l -> (length l <= fuel)%nat ->
  class_fields fuel tbl c = Some (spec_class_fields tbl l) /\
  (forall f, (length l < f)%nat -> collect_inherited_fields f tbl c = Some (spec_class_fields tbl l)).
Proof.
  intros tbl c l fuel Hc Hf. split; [exact (class_fields_root_first tbl c l fuel Hc Hf)|].
  intros f Hlt. exact (collect_root_first tbl c l Hc f Hlt).
Qed.
Print Assumptions C20_inherited_fields_root_first.

(* K2  consequently the JSON keys of a class value are the fields in that order, and derived ordering
       compares them in that order: the first differing field, ancestors' fields first, decides *)
Theorem C20_class_fields_order_used : forall tbl c l fuel fs,
  chain tbl c l -> (length l <= fuel)%nat -> class_fields fuel tbl c = Some fs ->
  fs = spec_class_fields tbl l /\
  (forall vals, wf_ty (TStruct fs) -> has_type (TStruct fs) (VStruct vals) ->
     exists ms, parse_json (to_json (VStruct vals)) = JOk (JObj ms) /\
                map fst ms = map fst (spec_class_fields tbl l)) /\
  (forall pre pre' n n' a b post post',
     map fst (pre ++ (n, a) :: post) = map fst (spec_class_fields tbl l) ->
     Forall2 (fun p q => vcmp (snd p) (snd q) = Eq) pre pre' -> vcmp a b <> Eq ->
     vcmp (VStruct (pre ++ (n, a) :: post)) (VStruct (pre' ++ (n', b) :: post')) = vcmp a b).
Proof.
  intros tbl c l fuel fs Hc Hf Hfs.
  rewrite (class_fields_root_first tbl c l fuel Hc Hf) in Hfs. inversion Hfs; subst fs. clear Hfs.
  split; [reflexivity|]. split.
  - intros vals Hwf Hty. exact (C20_json_field_names _ vals Hwf Hty).
  - intros pre pre' n n' a b post post' _ H Hne. exact (first_difference pre pre' n n' a b post post' H Hne).
Qed.
Print Assumptions C20_class_fields_order_used.

(* K3  mutant-style refutation: collecting the ancestors' fields in VISIT order (parent, grandparent,
       ...) gives a different list as soon as two ancestors declare fields *)
Theorem C20_visit_order_refuted : exists tbl c l,
  chain tbl c l /\ class_fields (length l) tbl c = Some (spec_class_fields tbl l) /\
  visit_order_fields tbl l <> spec_class_fields tbl l.
Proof.
  destruct visit_order_refuted as [Hc [Hf [Hs [Hv Hne]]]].
  eexists _, 3, [3; 2; 1]. split; [exact Hc|]. split; [|exact Hne]. cbn [length]. rewrite Hf, Hs. reflexivity.
Qed.
Print Assumptions C20_visit_order_refuted.

(* the hypotheses above are satisfiable by non-trivial values *)
Example C20_nonvacuous_json :
  let t := TStruct [([120], TInt); ([115], TOpt TStr); ([108], TList (TDict TBool))] in
  let v := VStruct [([120], VInt (-5)); ([115], VSome (VStr [34; 233; 128512])); ([108], VList [VDict [([107], VBool true)]])] in
  wf_ty t /\ ~ Known_C20_nested_option t /\ has_type t v /\
  to_json v = [123;34;120;34;58;45;53;44;34;115;34;58;34;92;34;233;128512;34;44;34;108;34;58;91;123;34;107;34;58;116;114;117;101;125;93;125].
Proof.
  cbn zeta. split; [|split; [|split]].
  - cbn. split; [repeat constructor; cbn; intuition discriminate|repeat split; repeat constructor; reflexivity].
  - intros H. vm_compute in H. discriminate.
  - cbn. repeat split; repeat constructor; try reflexivity; cbn; try (intuition discriminate); unfold in_i64, MIN64, MAX64; lia.
  - vm_compute. reflexivity.
Qed.

Example C20_nonvacuous :
  ~ Known_C20_derive_display (filter (fun d => derive_eqb d DOrd || derive_eqb d DHash) decorators) /\
  emitted [DOrd; DHash] = [DOrd; DHash; DPartialOrd; DEq; DPartialEq; DDebug; DClone; DFieldInfo; DIncanClass] /\
  closed (emitted [DOrd; DHash]) = true.
Proof.
  split; [|split; vm_compute; reflexivity].
  intros H. vm_compute in H. discriminate.
Qed.
