(* C20/Props.v — the property theorems for C20, and nothing else.
   GenTable.v (imported through ProofsDerive) is regenerated from the real lowering + emitter on
   every run, so the derive theorems are re-proved on the current source. *)
From Verif Require Import Base.I64 C20.Model C20.GenTable C20.ProofsDerive.
From Coq Require Import ZArith List Bool.
Import ListNotations.
Open Scope Z_scope.

(* D1  for EVERY subset of the 13 decorators (given as a membership predicate), for models and for
       classes: the derive list the real compiler emits (row of the regenerated table) consists of
       vocabulary names, contains every requested derive (Validate aside), is closed under Rust's
       supertrait requirements unless the request is in the known class {PartialOrd without
       PartialEq/Eq/Ord}, and names only derivable macros unless Display was requested *)
Theorem C20_derive_closed : forall (f : derive -> bool) (tbl : list (list Z)),
  tbl = gen_table_model \/ tbl = gen_table_class ->
  let req := filter f decorators in
  exists row e, In (req, row) (combine (powerset decorators) tbl) /\ row_derives row = Some e /\
    (~ Known_C20_partialord_without_partialeq req -> closed e = true) /\
    sufficient req e = true /\
    (~ Known_C20_derive_display req -> resolvable e = true).
Proof.
  intros f tbl [-> | ->]; [exact (table_ok_rows _ table_model_ok f) | exact (table_ok_rows _ table_class_ok f)].
Qed.
Print Assumptions C20_derive_closed.

(* D2  the hand model of extract_derives + lower_model/lower_class + emit_struct, for ALL derive
       lists (any order, any multiplicity): closed outside the known class, sufficient, resolvable *)
Theorem C20_derive_model_closed : forall l : list derive,
  (known_partialordb l = false -> closed (emitted l) = true) /\
  sufficient l (emitted l) = true /\
  (has l DDisplay = false -> resolvable (emitted l) = true).
Proof.
  intros l. split; [exact (emitted_closed l)|]. split; [exact (emitted_sufficient l) | exact (emitted_resolvable l)].
Qed.
Print Assumptions C20_derive_model_closed.

(* D3  tie: the regenerated table equals the hand model on every subset, for both kinds *)
Theorem C20_derive_table_is_model :
  gen_table_model = map (fun req => map dcode (emitted req)) (powerset decorators) /\
  gen_table_class = map (fun req => map dcode (emitted req)) (powerset decorators).
Proof. exact table_is_model. Qed.
Print Assumptions C20_derive_table_is_model.

(* the hypotheses above are satisfiable by non-trivial values *)
Example C20_nonvacuous :
  ~ Known_C20_partialord_without_partialeq (filter (fun d => derive_eqb d DOrd || derive_eqb d DHash) decorators) /\
  emitted [DOrd; DHash] = [DOrd; DHash; DPartialOrd; DEq; DPartialEq; DDebug; DClone; DFieldInfo; DIncanClass] /\
  closed (emitted [DOrd; DHash]) = true.
Proof.
  split; [|split; vm_compute; reflexivity].
  intros [H _]. vm_compute in H. discriminate.
Qed.
