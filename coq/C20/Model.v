(* C20/Model.v — value model for derived JSON / equality / ordering / hashing / clone, and the
   decorator -> derive-list mapping of lower_model / lower_class + emit_struct.  Definitions only.

   H (hand-modelled, behaviour-checked on every run against compiled Incan programs):
     * values  int | bool | str | list | dict(str keys) | option | struct  with declared field lists
       (NO float constructor: a [TFloat] field has no well-typed value in this model, so floats are
        excluded from every theorem by the typing premise; they are covered by execution only);
     * serde_json's compact printer (escaping rules of serde_json::ser::format_escaped_str) and a
       JSON reader (whitespace, escapes incl. \uXXXX surrogate pairs, numbers) over code-point lists;
     * what serde's derived Serialize / Deserialize do for these shapes (field order and names,
       Option <-> null, missing Option field = None, unknown fields ignored, duplicate field = error,
       HashMap insert for dict members, positional array form of a struct);
     * derived PartialEq / PartialOrd+Ord / Hash / Clone as the field-wise definitions Rust's
       derives generate; [String] order = code-point order (UTF-8 preserves it);
     * extract_derives + lower_model/lower_class + the Validate filter of emit_struct as a function
       on derive-name lists; Rust's supertrait requirements as [closed].
   serde_json, serde_derive, rustc's builtin derives and HashMap are outside the model: their
   behaviour on these shapes is the assumed oracle the correspondence run checks. *)
From Verif Require Import Base.I64.
From Coq Require Import ZArith List Bool Lia.
Import ListNotations.
Open Scope Z_scope.

Definition str := list Z.   (* a Rust String seen through .chars(): Unicode scalar values *)

(* ------------------------------------------------------------------ types and values *)

Inductive ty :=
| TInt | TBool | TStr | TFloat
| TList (t : ty) | TDict (t : ty) | TOpt (t : ty)
| TStruct (fs : list (str * ty)).

Inductive value :=
| VInt (z : Z) | VBool (b : bool) | VStr (s : str)
| VList (l : list value)
| VDict (l : list (str * value))     (* HashMap<String,_>: entries in iteration order (an oracle) *)
| VNone | VSome (v : value)
| VStruct (l : list (str * value)).  (* fields in declaration order *)

Definition scalarb (c : Z) : bool :=
  ((0 <=? c) && (c <=? 55295)) || ((57344 <=? c) && (c <=? 1114111)).
Definition scalar (c : Z) : Prop := scalarb c = true.

Fixpoint str_eqb (a b : str) : bool :=
  match a, b with
  | [], [] => true
  | x :: a', y :: b' => (x =? y) && str_eqb a' b'
  | _, _ => false
  end.

Fixpoint mem_str (k : str) (l : list str) : bool :=
  match l with [] => false | x :: l' => str_eqb k x || mem_str k l' end.

(* declaration well-formedness: field names are distinct strings (the checker rejects duplicates) *)
Fixpoint wf_ty (t : ty) : Prop :=
  match t with
  | TList t' | TDict t' | TOpt t' => wf_ty t'
  | TStruct fs =>
      NoDup (map fst fs) /\
      (fix go (fs : list (str * ty)) : Prop :=
         match fs with [] => True | (n, ft) :: fs' => Forall scalar n /\ wf_ty ft /\ go fs' end) fs
  | _ => True
  end.

(* the typing premise of every theorem *)
Fixpoint has_type (t : ty) (v : value) {struct t} : Prop :=
  match t, v with
  | TInt, VInt z => in_i64 z
  | TBool, VBool _ => True
  | TStr, VStr s => Forall scalar s
  | TList t', VList l => Forall (has_type t') l
  | TDict t', VDict l =>
      NoDup (map fst l) /\ Forall (fun kv => Forall scalar (fst kv) /\ has_type t' (snd kv)) l
  | TOpt _, VNone => True
  | TOpt t', VSome v' => has_type t' v'
  | TStruct fs, VStruct l =>
      (fix go (fs : list (str * ty)) (l : list (str * value)) : Prop :=
         match fs, l with
         | [], [] => True
         | (n, ft) :: fs', (k, v') :: l' => n = k /\ has_type ft v' /\ go fs' l'
         | _, _ => False
         end) fs l
  | _, _ => False
  end.

(* class of the known finding nested-option: some Option[...] directly wraps an Option[...] *)
Fixpoint nested_opt (t : ty) : bool :=
  match t with
  | TOpt (TOpt _) => true
  | TOpt t' | TList t' | TDict t' => nested_opt t'
  | TStruct fs =>
      (fix go (fs : list (str * ty)) : bool :=
         match fs with [] => false | (_, ft) :: fs' => nested_opt ft || go fs' end) fs
  | _ => false
  end.
Definition Known_C20_nested_option (t : ty) : Prop := nested_opt t = true.

(* types whose derived Ord / Hash exist: no dict (HashMap has neither), no float *)
Fixpoint ord_ty (t : ty) : bool :=
  match t with
  | TInt | TBool | TStr => true
  | TFloat | TDict _ => false
  | TList t' | TOpt t' => ord_ty t'
  | TStruct fs =>
      (fix go (fs : list (str * ty)) : bool :=
         match fs with [] => true | (_, ft) :: fs' => ord_ty ft && go fs' end) fs
  end.

(* ------------------------------------------------------------------ JSON trees, printer *)

Inductive json :=
| JNull | JBool (b : bool) | JNum (z : Z)
| JFloat                      (* a number with fraction/exponent, or "-0": opaque, never an int *)
| JStr (s : str)
| JArr (l : list json)
| JObj (l : list (str * json)).

(* what derived Serialize hands to serde_json *)
Fixpoint encode (v : value) : json :=
  match v with
  | VInt z => JNum z
  | VBool b => JBool b
  | VStr s => JStr s
  | VList l => JArr (map encode l)
  | VDict l => JObj (map (fun kv => match kv with (k, x) => (k, encode x) end) l)
  | VNone => JNull
  | VSome x => encode x
  | VStruct l => JObj (map (fun kv => match kv with (k, x) => (k, encode x) end) l)
  end.

Definition hexd (n : Z) : Z := if n <? 10 then 48 + n else 87 + n.   (* lowercase, as serde_json *)

(* serde_json::ser::format_escaped_str_contents: only the double quote, the backslash and U+0000..U+001F are escaped *)
Definition esc_char (c : Z) : str :=
  if c =? 34 then [92; 34]
  else if c =? 92 then [92; 92]
  else if c =? 8 then [92; 98]
  else if c =? 12 then [92; 102]
  else if c =? 10 then [92; 110]
  else if c =? 13 then [92; 114]
  else if c =? 9 then [92; 116]
  else if (0 <=? c) && (c <? 32) then [92; 117; 48; 48; hexd (c / 16); hexd (c mod 16)]
  else [c].

Definition print_str (s : str) : str := 34 :: flat_map esc_char s ++ [34].

(* itoa: decimal digits, most significant first; 20 steps cover every |z| < 10^20 *)
Fixpoint dec_digits (fuel : nat) (n : Z) (acc : str) : str :=
  match fuel with
  | O => acc
  | S f => if n <? 10 then (48 + n) :: acc else dec_digits f (n / 10) ((48 + n mod 10) :: acc)
  end.
Definition print_nat (n : Z) : str := dec_digits 20 n [].
Definition print_int (z : Z) : str := if z <? 0 then 45 :: print_nat (- z) else print_nat z.

Definition s_null : str := [110; 117; 108; 108].
Definition s_true : str := [116; 114; 117; 101].
Definition s_false : str := [102; 97; 108; 115; 101].

Fixpoint print_json (j : json) : str :=
  match j with
  | JNull => s_null
  | JBool true => s_true
  | JBool false => s_false
  | JNum z => print_int z
  | JFloat => []                       (* never produced by [encode] *)
  | JStr s => print_str s
  | JArr l =>
      91 :: (fix elems (l : list json) : str :=
               match l with
               | [] => []
               | [x] => print_json x
               | x :: l' => print_json x ++ 44 :: elems l'
               end) l ++ [93]
  | JObj l =>
      123 :: (fix membs (l : list (str * json)) : str :=
                match l with
                | [] => []
                | [(k, x)] => print_str k ++ 58 :: print_json x
                | (k, x) :: l' => print_str k ++ 58 :: print_json x ++ 44 :: membs l'
                end) l ++ [125]
  end.

(* json_stringify(v) / v.to_json() *)
Definition to_json (v : value) : str := print_json (encode v).

(* ------------------------------------------------------------------ JSON reader *)

Inductive pres (A : Type) := POk (a : A) (rest : str) | PErr | PFuel.
Arguments POk {A} a rest.
Arguments PErr {A}.
Arguments PFuel {A}.

Definition is_ws (c : Z) : bool := (c =? 32) || (c =? 9) || (c =? 10) || (c =? 13).
Fixpoint skip_ws (s : str) : str :=
  match s with c :: r => if is_ws c then skip_ws r else s | [] => [] end.

Definition is_digit (c : Z) : bool := (48 <=? c) && (c <=? 57).
Fixpoint scan_digits (s : str) (a : Z) : Z * str :=
  match s with
  | c :: r => if is_digit c then scan_digits r (a * 10 + (c - 48)) else (a, s)
  | [] => (a, [])
  end.
Fixpoint skip_digits (s : str) : str :=
  match s with c :: r => if is_digit c then skip_digits r else s | [] => [] end.

Definition hexval (c : Z) : option Z :=
  if is_digit c then Some (c - 48)
  else if (97 <=? c) && (c <=? 102) then Some (c - 87)
  else if (65 <=? c) && (c <=? 70) then Some (c - 55)
  else None.
Definition hex4 (a b c d : Z) : option Z :=
  match hexval a, hexval b, hexval c, hexval d with
  | Some x, Some y, Some z, Some w => Some (((x * 16 + y) * 16 + z) * 16 + w)
  | _, _, _, _ => None
  end.

(* the characters after the opening quote, up to and including the closing quote *)
Fixpoint parse_str_body (s : str) (acc : str) : option (str * str) :=
  match s with
  | [] => None
  | c :: r =>
      if c =? 34 then Some (rev acc, r)
      else if c =? 92 then
        match r with
        | [] => None
        | e :: r2 =>
            if e =? 34 then parse_str_body r2 (34 :: acc)
            else if e =? 92 then parse_str_body r2 (92 :: acc)
            else if e =? 47 then parse_str_body r2 (47 :: acc)
            else if e =? 98 then parse_str_body r2 (8 :: acc)
            else if e =? 102 then parse_str_body r2 (12 :: acc)
            else if e =? 110 then parse_str_body r2 (10 :: acc)
            else if e =? 114 then parse_str_body r2 (13 :: acc)
            else if e =? 116 then parse_str_body r2 (9 :: acc)
            else if e =? 117 then
              match r2 with
              | h1 :: h2 :: h3 :: h4 :: r3 =>
                  match hex4 h1 h2 h3 h4 with
                  | None => None
                  | Some u =>
                      if (56320 <=? u) && (u <=? 57343) then None           (* lone trailing surrogate *)
                      else if (55296 <=? u) && (u <=? 56319) then
                        match r3 with
                        | b1 :: u1 :: l1 :: l2 :: l3 :: l4 :: r4 =>
                            if (b1 =? 92) && (u1 =? 117) then
                              match hex4 l1 l2 l3 l4 with
                              | Some lo =>
                                  if (56320 <=? lo) && (lo <=? 57343)
                                  then parse_str_body r4 ((65536 + (u - 55296) * 1024 + (lo - 56320)) :: acc)
                                  else None
                              | None => None
                              end
                            else None
                        | _ => None
                        end
                      else parse_str_body r3 (u :: acc)
                  end
              | _ => None
              end
            else None
        end
      else if (0 <=? c) && (c <? 32) then None       (* raw control character inside a string *)
      else parse_str_body r (c :: acc)
  end.

Fixpoint expect (lit s : str) : option str :=
  match lit with
  | [] => Some s
  | c :: lit' => match s with d :: s' => if c =? d then expect lit' s' else None | [] => None end
  end.

(* optional fraction and exponent after the integer part; Some rest if a float was read *)
Definition scan_exp (s : str) : option str :=
  match s with
  | c :: r =>
      if (c =? 101) || (c =? 69) then
        let r1 := match r with sg :: r' => if (sg =? 43) || (sg =? 45) then r' else r | [] => r end in
        match r1 with
        | d :: _ => if is_digit d then Some (skip_digits r1) else None
        | [] => None
        end
      else Some s
  | [] => Some s
  end.

Inductive numtok := NInt (z : Z) | NFloat.

(* s starts at '-' or a digit *)
Definition parse_number (s : str) : pres numtok :=
  let neg := match s with c :: _ => c =? 45 | [] => false end in
  let s1 := if neg then tl s else s in
  match s1 with
  | d :: r =>
      if negb (is_digit d) then PErr
      else
        let '(n, r1) := if d =? 48 then (0, r) else scan_digits s1 0 in
        match r1 with
        | c :: r2 =>
            if (d =? 48) && is_digit c then PErr                 (* leading zero *)
            else if c =? 46 then
              match r2 with
              | f :: _ =>
                  if is_digit f then
                    match scan_exp (skip_digits r2) with Some r3 => POk NFloat r3 | None => PErr end
                  else PErr
              | [] => PErr
              end
            else if (c =? 101) || (c =? 69) then
              match scan_exp r1 with Some r3 => POk NFloat r3 | None => PErr end
            else if neg && (n =? 0) then POk NFloat r1            (* "-0" is the float -0.0 *)
            else POk (NInt (if neg then - n else n)) r1
        | [] => if neg && (n =? 0) then POk NFloat r1 else POk (NInt (if neg then - n else n)) r1
        end
  | [] => PErr
  end.

Fixpoint parse_value (fuel : nat) (s : str) {struct fuel} : pres json :=
  match fuel with
  | O => PFuel
  | S f =>
      match skip_ws s with
      | [] => PErr
      | c :: r =>
          if c =? 110 then match expect (tl s_null) r with Some r' => POk JNull r' | None => PErr end
          else if c =? 116 then match expect (tl s_true) r with Some r' => POk (JBool true) r' | None => PErr end
          else if c =? 102 then match expect (tl s_false) r with Some r' => POk (JBool false) r' | None => PErr end
          else if c =? 34 then
            match parse_str_body r [] with Some (x, r') => POk (JStr x) r' | None => PErr end
          else if c =? 91 then
            match skip_ws r with
            | c2 :: r' =>
                if c2 =? 93 then POk (JArr []) r'
                else match parse_elems f r with POk l r'' => POk (JArr l) r'' | PErr => PErr | PFuel => PFuel end
            | [] => PErr
            end
          else if c =? 123 then
            match skip_ws r with
            | c2 :: r' =>
                if c2 =? 125 then POk (JObj []) r'
                else match parse_members f r with POk l r'' => POk (JObj l) r'' | PErr => PErr | PFuel => PFuel end
            | [] => PErr
            end
          else if (c =? 45) || is_digit c then
            match parse_number (c :: r) with
            | POk (NInt z) r' => POk (JNum z) r'
            | POk NFloat r' => POk JFloat r'
            | PErr => PErr
            | PFuel => PFuel
            end
          else PErr
      end
  end
with parse_elems (fuel : nat) (s : str) {struct fuel} : pres (list json) :=
  match fuel with
  | O => PFuel
  | S f =>
      match parse_value f s with
      | POk j r =>
          match skip_ws r with
          | c :: r' =>
              if c =? 44 then
                match parse_elems f r' with POk l r'' => POk (j :: l) r'' | PErr => PErr | PFuel => PFuel end
              else if c =? 93 then POk [j] r'
              else PErr
          | [] => PErr
          end
      | PErr => PErr
      | PFuel => PFuel
      end
  end
with parse_members (fuel : nat) (s : str) {struct fuel} : pres (list (str * json)) :=
  match fuel with
  | O => PFuel
  | S f =>
      match skip_ws s with
      | q :: r =>
          if q =? 34 then
            match parse_str_body r [] with
            | Some (k, r1) =>
                match skip_ws r1 with
                | c :: r2 =>
                    if c =? 58 then
                      match parse_value f r2 with
                      | POk j r3 =>
                          match skip_ws r3 with
                          | c3 :: r4 =>
                              if c3 =? 44 then
                                match parse_members f r4 with
                                | POk l r5 => POk ((k, j) :: l) r5 | PErr => PErr | PFuel => PFuel
                                end
                              else if c3 =? 125 then POk [(k, j)] r4
                              else PErr
                          | [] => PErr
                          end
                      | PErr => PErr
                      | PFuel => PFuel
                      end
                    else PErr
                | [] => PErr
                end
            | None => PErr
            end
          else PErr
      | [] => PErr
      end
  end.

Definition json_fuel (s : str) : nat := S (S (length s + length s)).

Inductive jres (A : Type) := JOk (a : A) | JErr | JOutOfFuel.
Arguments JOk {A} a.
Arguments JErr {A}.
Arguments JOutOfFuel {A}.

(* serde_json::from_str: one value, then only whitespace *)
Definition parse_json_fuel (fuel : nat) (s : str) : jres json :=
  match parse_value fuel s with
  | POk j r => match skip_ws r with [] => JOk j | _ => JErr end
  | PErr => JErr
  | PFuel => JOutOfFuel
  end.
Definition parse_json (s : str) : jres json := parse_json_fuel (json_fuel s) s.

(* ------------------------------------------------------------------ derived Deserialize *)

Fixpoint lookup_all {A} (k : str) (l : list (str * A)) : list A :=
  match l with
  | [] => []
  | (k', x) :: l' => if str_eqb k k' then x :: lookup_all k l' else lookup_all k l'
  end.

Fixpoint lookup {A} (k : str) (l : list (str * A)) : option A :=
  match l with
  | [] => None
  | (k', x) :: l' => if str_eqb k k' then Some x else lookup k l'
  end.

(* HashMap::insert seen on the entry list: overwrite in place, else append *)
Fixpoint dict_insert (k : str) (x : value) (l : list (str * value)) : list (str * value) :=
  match l with
  | [] => [(k, x)]
  | (k', y) :: l' => if str_eqb k k' then (k', x) :: l' else (k', y) :: dict_insert k x l'
  end.

Fixpoint mapM {A B} (f : A -> option B) (l : list A) : option (list B) :=
  match l with
  | [] => Some []
  | x :: l' => match f x with
               | Some y => match mapM f l' with Some r => Some (y :: r) | None => None end
               | None => None
               end
  end.

Fixpoint decode (t : ty) (j : json) {struct t} : option value :=
  match t with
  | TInt => match j with JNum z => if in_i64b z then Some (VInt z) else None | _ => None end
  | TBool => match j with JBool b => Some (VBool b) | _ => None end
  | TStr => match j with JStr s => Some (VStr s) | _ => None end
  | TFloat => None                                       (* outside the model *)
  | TList t' => match j with
                | JArr l => option_map VList (mapM (decode t') l)
                | _ => None
                end
  | TDict t' =>
      match j with
      | JObj ms =>
          option_map VDict
            (fold_left (fun acc kj =>
                          match acc with
                          | Some d => match decode t' (snd kj) with
                                      | Some x => Some (dict_insert (fst kj) x d)
                                      | None => None
                                      end
                          | None => None
                          end) ms (Some []))
      | _ => None
      end
  | TOpt t' => match j with JNull => Some VNone | _ => option_map VSome (decode t' j) end
  | TStruct fs =>
      match j with
      | JObj ms =>
          option_map VStruct
            ((fix fields (fs : list (str * ty)) : option (list (str * value)) :=
                match fs with
                | [] => Some []
                | (n, ft) :: fs' =>
                    let here :=
                      match lookup_all n ms with
                      | [] => match ft with TOpt _ => Some VNone | _ => None end   (* missing field *)
                      | [x] => decode ft x
                      | _ => None                                                  (* duplicate field *)
                      end in
                    match here with
                    | Some v => match fields fs' with Some r => Some ((n, v) :: r) | None => None end
                    | None => None
                    end
                end) fs)
      | JArr l =>                                         (* serde's visit_seq: positional *)
          option_map VStruct
            ((fix fields (fs : list (str * ty)) (l : list json) : option (list (str * value)) :=
                match fs, l with
                | [], [] => Some []
                | (n, ft) :: fs', x :: l' =>
                    match decode ft x with
                    | Some v => match fields fs' l' with Some r => Some ((n, v) :: r) | None => None end
                    | None => None
                    end
                | _, _ => None
                end) fs l)
      | _ => None
      end
  end.

(* T.from_json(text) *)
Definition from_json (t : ty) (s : str) : jres value :=
  match parse_json s with
  | JOk j => match decode t j with Some v => JOk v | None => JErr end
  | JErr => JErr
  | JOutOfFuel => JOutOfFuel
  end.

(* ------------------------------------------------------------------ derived PartialEq / Ord / Hash / Clone *)

Fixpoint veq (a b : value) {struct a} : bool :=
  match a, b with
  | VInt x, VInt y => x =? y
  | VBool x, VBool y => Bool.eqb x y
  | VStr x, VStr y => str_eqb x y
  | VList x, VList y =>
      (fix go (x y : list value) : bool :=
         match x, y with
         | [], [] => true
         | a' :: x', b' :: y' => veq a' b' && go x' y'
         | _, _ => false
         end) x y
  | VDict x, VDict y =>                                  (* HashMap ==: same size, every entry found *)
      (Z.of_nat (length x) =? Z.of_nat (length y)) &&
      (fix go (x : list (str * value)) : bool :=
         match x with
         | [] => true
         | (k, a') :: x' => match lookup k y with Some b' => veq a' b' | None => false end && go x'
         end) x
  | VNone, VNone => true
  | VSome x, VSome y => veq x y
  | VStruct x, VStruct y =>
      (fix go (x y : list (str * value)) : bool :=
         match x, y with
         | [], [] => true
         | (k, a') :: x', (k', b') :: y' => str_eqb k k' && veq a' b' && go x' y'
         | _, _ => false
         end) x y
  | _, _ => false
  end.

Fixpoint str_cmp (a b : str) : comparison :=
  match a, b with
  | [], [] => Eq
  | [], _ :: _ => Lt
  | _ :: _, [] => Gt
  | x :: a', y :: b' => match x ?= y with Eq => str_cmp a' b' | c => c end
  end.

Definition bool_cmp (a b : bool) : comparison :=
  match a, b with false, true => Lt | true, false => Gt | _, _ => Eq end.

(* derived PartialOrd/Ord: lexicographic, first differing field decides; None < Some *)
Fixpoint vcmp (a b : value) {struct a} : comparison :=
  match a, b with
  | VInt x, VInt y => x ?= y
  | VBool x, VBool y => bool_cmp x y
  | VStr x, VStr y => str_cmp x y
  | VList x, VList y =>
      (fix go (x y : list value) : comparison :=
         match x, y with
         | [], [] => Eq
         | [], _ :: _ => Lt
         | _ :: _, [] => Gt
         | a' :: x', b' :: y' => match vcmp a' b' with Eq => go x' y' | c => c end
         end) x y
  | VNone, VNone => Eq
  | VNone, VSome _ => Lt
  | VSome _, VNone => Gt
  | VSome x, VSome y => vcmp x y
  | VStruct x, VStruct y =>
      (fix go (x y : list (str * value)) : comparison :=
         match x, y with
         | [], [] => Eq
         | [], _ :: _ => Lt
         | _ :: _, [] => Gt
         | (_, a') :: x', (_, b') :: y' => match vcmp a' b' with Eq => go x' y' | c => c end
         end) x y
  | _, _ => Eq                                            (* not reachable for equal ord types *)
  end.

Definition vlt (a b : value) : bool := match vcmp a b with Lt => true | _ => false end.
Definition vle (a b : value) : bool := match vcmp a b with Gt => false | _ => true end.

(* derived Hash: the sequence of Hasher calls *)
Inductive hw := WI64 (z : Z) | WU8 (n : Z) | WStr (s : str) | WLen (n : Z) | WDiscr (n : Z).

Fixpoint hash_stream (v : value) : list hw :=
  match v with
  | VInt z => [WI64 z]
  | VBool b => [WU8 (if b then 1 else 0)]
  | VStr s => [WStr s]                                   (* write(bytes); write_u8(0xff) *)
  | VList l => WLen (Z.of_nat (length l)) :: flat_map hash_stream l
  | VDict l => []                                        (* HashMap has no Hash *)
  | VNone => [WDiscr 0]
  | VSome x => WDiscr 1 :: hash_stream x
  | VStruct l => flat_map (fun kv => match kv with (_, x) => hash_stream x end) l
  end.

(* number of distinct keys after inserting the values into a HashMap/HashSet in order *)
Fixpoint insert_distinct (v : value) (seen : list value) : list value :=
  match seen with
  | [] => [v]
  | w :: seen' => if veq v w then seen else w :: insert_distinct v seen'
  end.
Definition distinct_keys (l : list value) : list value := fold_left (fun s v => insert_distinct v s) l [].

(* derived Clone: a structural copy *)
Fixpoint vclone (v : value) : value :=
  match v with
  | VInt z => VInt z
  | VBool b => VBool b
  | VStr s => VStr (map (fun c => c) s)
  | VList l => VList (map vclone l)
  | VDict l => VDict (map (fun kv => match kv with (k, x) => (k, vclone x) end) l)
  | VNone => VNone
  | VSome x => VSome (vclone x)
  | VStruct l => VStruct (map (fun kv => match kv with (k, x) => (k, vclone x) end) l)
  end.

(* a store of owned values; a location is an index *)
Definition store := list value.
Fixpoint store_set (s : store) (i : nat) (v : value) : store :=
  match s, i with
  | [], _ => []
  | _ :: s', O => v :: s'
  | x :: s', S i' => x :: store_set s' i' v
  end.
(* `let c = f(a)` with the emitter's `a.clone()`: allocates the copy at the end of the store *)
Definition store_clone (s : store) (i : nat) : option (store * nat) :=
  match nth_error s i with
  | Some v => Some (s ++ [vclone v], length s)
  | None => None
  end.

(* ------------------------------------------------------------------ decorators -> derives *)

Inductive derive :=
| DDebug | DDisplay | DEq | DPartialEq | DOrd | DPartialOrd | DHash
| DClone | DCopy | DDefault | DSerialize | DDeserialize | DValidate
| DFieldInfo | DIncanClass.

Definition dcode (d : derive) : Z :=
  match d with
  | DDebug => 0 | DDisplay => 1 | DEq => 2 | DPartialEq => 3 | DOrd => 4 | DPartialOrd => 5
  | DHash => 6 | DClone => 7 | DCopy => 8 | DDefault => 9 | DSerialize => 10 | DDeserialize => 11
  | DValidate => 12 | DFieldInfo => 13 | DIncanClass => 14
  end.
Definition derive_eqb (a b : derive) : bool := dcode a =? dcode b.

(* the vocabulary of crates/incan_core/src/lang/derives.rs, in registry order *)
Definition decorators : list derive :=
  [DDebug; DDisplay; DEq; DPartialEq; DOrd; DPartialOrd; DHash; DClone; DCopy; DDefault;
   DSerialize; DDeserialize; DValidate].

Definition has (l : list derive) (d : derive) : bool := existsb (derive_eqb d) l.
Definition push_missing (l : list derive) (d : derive) : list derive := if has l d then l else l ++ [d].

(* lower/decl.rs extract_derives: Eq pulls PartialEq; Ord pulls PartialOrd, Eq, PartialEq; PartialOrd pulls
   PartialEq (`if has(PartialOrd) && !has(PartialEq) { push }` is [push_missing] under the test) *)
Definition extract_derives0 (l : list derive) : list derive :=
  let l1 := if has l DEq && negb (has l DPartialEq) then l ++ [DPartialEq] else l in
  if has l1 DOrd then
    let l2 := push_missing l1 DPartialOrd in
    let l3 := push_missing l2 DEq in
    push_missing l3 DPartialEq
  else l1.
Definition extract_derives (l : list derive) : list derive :=
  let l2 := extract_derives0 l in
  if has l2 DPartialOrd then push_missing l2 DPartialEq else l2.

(* lower_model / lower_class: always Debug, Clone, FieldInfo, IncanClass *)
Definition lower_derives (l : list derive) : list derive :=
  push_missing (push_missing (push_missing (push_missing (extract_derives l) DDebug) DClone) DFieldInfo) DIncanClass.

(* emit_struct: Validate is not a Rust derive *)
Definition emitted (l : list derive) : list derive :=
  filter (fun d => negb (derive_eqb d DValidate)) (lower_derives l).

(* Rust: trait Eq: PartialEq; PartialOrd: PartialEq; Ord: Eq + PartialOrd; Copy: Clone *)
Definition closed (e : list derive) : bool :=
  implb (has e DEq) (has e DPartialEq) &&
  implb (has e DPartialOrd) (has e DPartialEq) &&
  implb (has e DOrd) (has e DEq && has e DPartialOrd) &&
  implb (has e DCopy) (has e DClone).

(* every emitted name is a derive macro in scope of the generated file (std builtins, serde,
   incan_derive); `Display` is not derivable *)
Definition resolvable (e : list derive) : bool := negb (has e DDisplay).

(* every requested derive is emitted (Validate is handled by emit_impl instead) *)
Definition sufficient (req e : list derive) : bool :=
  forallb (fun d => derive_eqb d DValidate || has e d) req.

Fixpoint powerset {A} (l : list A) : list (list A) :=
  match l with
  | [] => [[]]
  | x :: l' => map (cons x) (powerset l') ++ powerset l'
  end.

(* classes on requested decorator lists. [partialord_alone] was the class of the repaired finding
   derive-partialord (kept for the regression theorem); Display is still a known finding *)
Definition partialord_alone (req : list derive) : bool :=
  has req DPartialOrd && negb (has req DPartialEq) && negb (has req DEq) && negb (has req DOrd).
Definition Known_C20_derive_display (req : list derive) : Prop := has req DDisplay = true.

(* to_json / from_json are generated by emit_impl for every model and class (an impl block is lowered for both,
   with or without methods): flags code = (to_json emitted ? 1 : 0) + (from_json emitted ? 2 : 0) *)
Definition json_methods_code (e : list derive) : Z :=
  (if has e DSerialize then 1 else 0) + (if has e DDeserialize then 2 else 0).

(* ------------------------------------------------------------------ class hierarchies (`class C extends B`) *)

(* the class declarations of a program: name -> (parent, own fields in source order). Names are numbers. *)
Definition cdecl : Type := option Z * list (str * ty).
Definition ctable : Type := list (Z * cdecl).

Fixpoint clookup (c : Z) (tbl : ctable) : option cdecl :=
  match tbl with
  | [] => None
  | (c', d) :: tbl' => if c =? c' then Some d else clookup c tbl'
  end.

(* lower/decl.rs collect_inherited_fields(class_name, fields): recursive — first the grandparent's
   inherited fields, then the parent's own fields. The real function recurses without bound; the
   model takes fuel and the theorem shows that the length of the `extends` chain suffices. *)
Fixpoint collect_inherited_fields (fuel : nat) (tbl : ctable) (c : Z) : option (list (str * ty)) :=
  match fuel with
  | O => None                                   (* out of fuel *)
  | S f =>
      match clookup c tbl with
      | None => Some []                         (* class_decls.get(name) = None: nothing to add *)
      | Some (parent, own) =>
          match parent with
          | Some g => match collect_inherited_fields f tbl g with
                      | Some up => Some (up ++ own)
                      | None => None
                      end
          | None => Some own
          end
      end
  end.

(* lower_class: inherited fields first, then the class's own fields *)
Definition class_fields (fuel : nat) (tbl : ctable) (c : Z) : option (list (str * ty)) :=
  match clookup c tbl with
  | None => Some []
  | Some (parent, own) =>
      match parent with
      | Some g => match collect_inherited_fields fuel tbl g with
                  | Some up => Some (up ++ own)
                  | None => None
                  end
      | None => Some own
      end
  end.

(* the `extends` chain of a declared class, from the class itself up to the root (finite = acyclic) *)
Inductive chain (tbl : ctable) : Z -> list Z -> Prop :=
| chain_root : forall c own, clookup c tbl = Some (None, own) -> chain tbl c [c]
| chain_open : forall c g own, clookup c tbl = Some (Some g, own) -> clookup g tbl = None -> chain tbl c [c]
| chain_step : forall c g own l, clookup c tbl = Some (Some g, own) -> chain tbl g l -> chain tbl c (c :: l).

Definition own_fields (tbl : ctable) (c : Z) : list (str * ty) :=
  match clookup c tbl with Some (_, own) => own | None => [] end.

(* the documented declaration order of a class's fields: the most distant ancestor's fields first,
   then each descendant's, the class's own fields last *)
Definition spec_class_fields (tbl : ctable) (chain_from_class : list Z) : list (str * ty) :=
  flat_map (own_fields tbl) (rev chain_from_class).

(* the visit-order variant (an iterative walk up the chain appending as it goes): parent, grandparent, ... *)
Definition visit_order_fields (tbl : ctable) (chain_from_class : list Z) : list (str * ty) :=
  match chain_from_class with
  | [] => []
  | c :: ancestors => flat_map (own_fields tbl) ancestors ++ own_fields tbl c
  end.

(* ------------------------------------------------------------------ rendering for the correspondence run *)

Definition render_jres (r : jres value) : Z * str :=
  match r with JOk v => (1, to_json v) | JErr => (0, []) | JOutOfFuel => (2, []) end.
Definition run_from_json (t : ty) (s : str) : Z * str := render_jres (from_json t s).
Definition cmp_code (c : comparison) : Z := match c with Lt => -1 | Eq => 0 | Gt => 1 end.
(* one pair: [==; <; <=; >; >=] *)
Definition run_pair (a b : value) : list bool :=
  [veq a b; vlt a b; vle a b; vlt b a; vle b a].
Definition run_distinct (l : list value) : Z := Z.of_nat (length (distinct_keys l)).

(* names of a field list, flattened with -1 as separator (for the correspondence run) *)
Definition run_class_fields (tbl : ctable) (c : Z) : list Z :=
  match class_fields (S (length tbl)) tbl c with
  | Some fs => flat_map (fun f => fst f ++ [-1]) fs
  | None => [-2]
  end.
