(* C12/Proofs.v — lemmas: the schemas of C12/Model.v as functions of the iteration order. *)
From Coq Require Import ZArith List Bool Lia String Ascii Permutation Sorted.
From Verif Require Import C15.Model C15.Proofs C12.Model.
Import ListNotations.
Open Scope Z_scope.

(* ------------------------------------------------------------------ schema E *)
Lemma emit_perm : forall (K D : Type) (f : K -> option D) l1 l2,
  Permutation l1 l2 -> Permutation (emit_site f l1) (emit_site f l2).
Proof. intros K D f l1 l2 H. unfold emit_site. now apply Permutation_flat_map. Qed.

Lemma perm_le1 : forall (A : Type) (l1 l2 : list A), Permutation l1 l2 -> (List.length l1 <= 1)%nat -> l1 = l2.
Proof.
  intros A l1 l2 P L. destruct l1 as [|a [|b r]].
  - symmetry. now apply Permutation_nil.
  - now apply Permutation_length_1_inv in P.
  - cbn in L. lia.
Qed.

(* at most one emitted item: the order cannot show *)
Lemma emit_le1 : forall (K D : Type) (f : K -> option D) l1 l2,
  Permutation l1 l2 -> (List.length (emit_site f l1) <= 1)%nat -> emit_site f l1 = emit_site f l2.
Proof. intros K D f l1 l2 P L. apply perm_le1; [now apply emit_perm | exact L]. Qed.

(* two keys that emit different items: the order shows *)
Lemma emit_two : forall (K D : Type) (f : K -> option D) k1 k2 d1 d2,
  f k1 = Some d1 -> f k2 = Some d2 -> d1 <> d2 ->
  Permutation [k1; k2] [k2; k1] /\ emit_site f [k1; k2] <> emit_site f [k2; k1].
Proof.
  intros K D f k1 k2 d1 d2 H1 H2 N. split; [apply perm_swap|].
  unfold emit_site. cbn. rewrite H1, H2. cbn. intros E. injection E as E _. contradiction.
Qed.

(* ------------------------------------------------------------------ schema S: insertion sort *)
Definition le (a b : str) : Prop := str_leb a b = true.

Lemma insert_perm : forall x l, Permutation (insert x l) (x :: l).
Proof.
  induction l as [|y l IH]; cbn; [apply Permutation_refl|].
  destruct (str_leb x y); [apply Permutation_refl|].
  eapply perm_trans; [apply perm_skip; exact IH | apply perm_swap].
Qed.

Lemma isort_perm : forall l, Permutation (isort l) l.
Proof.
  induction l as [|x l IH]; cbn; [apply perm_nil|].
  eapply perm_trans; [apply insert_perm | now apply perm_skip].
Qed.

Lemma insert_sorted : forall x l, StronglySorted le l -> StronglySorted le (insert x l).
Proof.
  induction l as [|y l IH]; cbn; intros H; [repeat constructor|].
  inversion H as [|? ? HS HF]; subst.
  destruct (str_leb x y) eqn:E.
  - constructor; [exact H|]. constructor; [exact E|].
    eapply Forall_impl; [|exact HF]. intros z Hz. eapply str_leb_trans; eauto.
  - constructor; [now apply IH|].
    assert (Hyx : le y x) by (destruct (str_leb_total x y) as [T|T]; [rewrite T in E; discriminate | exact T]).
    eapply Permutation_Forall; [apply Permutation_sym; apply insert_perm|]. constructor; assumption.
Qed.

Lemma isort_sorted : forall l, StronglySorted le (isort l).
Proof. induction l as [|x l IH]; cbn; [constructor | now apply insert_sorted]. Qed.

Lemma sorted_unique : forall l1 l2, StronglySorted le l1 -> StronglySorted le l2 -> Permutation l1 l2 -> l1 = l2.
Proof.
  induction l1 as [|a l1 IH]; intros l2 S1 S2 P.
  - symmetry. now apply Permutation_nil.
  - destruct l2 as [|b l2]; [apply Permutation_sym, Permutation_nil in P; discriminate|].
    inversion S1 as [|? ? S1' F1]; inversion S2 as [|? ? S2' F2]; subst.
    assert (E : a = b).
    { assert (Ia : In a (b :: l2)) by (eapply Permutation_in; [exact P | now left]).
      assert (Ib : In b (a :: l1)) by (eapply Permutation_in; [apply Permutation_sym; exact P | now left]).
      destruct Ia as [Ia|Ia]; [now symmetry|]. destruct Ib as [Ib|Ib]; [assumption|].
      apply str_leb_antisym.
      - exact (proj1 (Forall_forall _ _) F1 b Ib).
      - exact (proj1 (Forall_forall _ _) F2 a Ia). }
    subst b. f_equal. apply IH; try assumption. now apply Permutation_cons_inv in P.
Qed.

Lemma isort_order_free : forall l1 l2, Permutation l1 l2 -> isort l1 = isort l2.
Proof.
  intros l1 l2 P. apply sorted_unique; try apply isort_sorted.
  eapply perm_trans; [apply isort_perm|]. eapply perm_trans; [exact P|]. apply Permutation_sym, isort_perm.
Qed.

(* ------------------------------------------------------------------ generate_nested *)
Lemma dir_pushes_perm : forall dir l1 l2, Permutation l1 l2 -> Permutation (dir_pushes dir l1) (dir_pushes dir l2).
Proof. intros. unfold dir_pushes. now apply Permutation_flat_map. Qed.

(* ------------------------------------------------------------------ schema M *)
Lemma read_write_all_notin : forall (V : Type) (order : list (str * V)) m0 k,
  ~ In k (map fst order) -> read (write_all m0 order) k = read m0 k.
Proof.
  intros V order. unfold write_all. induction order as [|[k' v] r IH]; cbn; intros m0 k N; [reflexivity|].
  rewrite IH by tauto. cbn. destruct (str_eqb k k') eqn:E; [|reflexivity].
  apply str_eqb_eq in E. subst. exfalso. apply N. now left.
Qed.

Lemma read_write_all_in : forall (V : Type) (order : list (str * V)) m0 k v,
  NoDup (map fst order) -> In (k, v) order -> read (write_all m0 order) k = Some v.
Proof.
  intros V order. unfold write_all. induction order as [|[k' v'] r IH]; cbn; intros m0 k v ND I; [contradiction|].
  inversion ND as [|? ? N ND']; subst. destruct I as [I|I].
  - injection I as -> ->. fold (write_all ((k, v) :: m0) r). rewrite read_write_all_notin by assumption.
    cbn. now rewrite str_eqb_refl.
  - now apply IH.
Qed.

Lemma write_all_order_free : forall (V : Type) (l1 l2 : list (str * V)) m0 k,
  NoDup (map fst l1) -> Permutation l1 l2 -> read (write_all m0 l1) k = read (write_all m0 l2) k.
Proof.
  intros V l1 l2 m0 k ND P.
  assert (ND2 : NoDup (map fst l2)) by (eapply Permutation_NoDup; [apply Permutation_map; exact P | exact ND]).
  destruct (in_dec (list_eq_dec Z.eq_dec) k (map fst l1)) as [I|N].
  - apply in_map_iff in I as [[k' v] [E I]]. cbn in E. subst k'.
    rewrite (read_write_all_in V l1 m0 k v ND I).
    symmetry. apply read_write_all_in; [exact ND2 | eapply Permutation_in; eauto].
  - rewrite read_write_all_notin by assumption. symmetry. apply read_write_all_notin.
    intros I. apply N. eapply Permutation_in; [apply Permutation_sym, Permutation_map; exact P | exact I].
Qed.

(* ------------------------------------------------------------------ schema R *)
Lemma mem_perm : forall k l1 l2, Permutation l1 l2 -> mem k l1 = mem k l2.
Proof.
  intros k l1 l2 P. destruct (mem k l1) eqn:E1; destruct (mem k l2) eqn:E2; try reflexivity.
  - apply mem_In in E1. rewrite (In_mem k l2) in E2; [discriminate|]. eapply Permutation_in; eauto.
  - apply mem_In in E2. rewrite (In_mem k l1) in E1; [discriminate|]. eapply Permutation_in; [apply Permutation_sym|]; eauto.
Qed.

Lemma memo_read : forall (V : Type) (g : str -> option V) (order : list str) (m0 : store V) k,
  read (fold_left (fun m a => match g a with Some v => (a, v) :: m | None => m end) order m0) k =
  match (if mem k order then g k else None) with Some v => Some v | None => read m0 k end.
Proof.
  intros V g. induction order as [|a r IH]; intros m0 k; [reflexivity|].
  cbn [fold_left mem]. rewrite IH.
  destruct (str_eqb k a) eqn:E; destruct (mem k r) eqn:M; cbn [orb].
  - apply str_eqb_eq in E. subst a. destruct (g k) eqn:Gk; [reflexivity|reflexivity].
  - apply str_eqb_eq in E. subst a. destruct (g k) eqn:Gk; cbn [read]; [now rewrite str_eqb_refl | reflexivity].
  - destruct (g k); [reflexivity|]. destruct (g a); [cbn [read]; now rewrite E | reflexivity].
  - destruct (g a); [cbn [read]; now rewrite E | reflexivity].
Qed.

Lemma memo_all_order_free : forall (V : Type) (f : store V -> str -> option V) (g : str -> option V) o1 o2 k,
  (forall m a, f m a = g a) -> Permutation o1 o2 -> read (memo_all f o1) k = read (memo_all f o2) k.
Proof.
  intros V f g o1 o2 k H P. unfold memo_all.
  assert (E : forall o, fold_left (fun m a => match f m a with Some v => (a, v) :: m | None => m end) o [] =
                        fold_left (fun m a => match g a with Some v => (a, v) :: m | None => m end) o []).
  { intros o. generalize (@nil (str * V)). induction o as [|a r IH]; intros m0; [reflexivity|]. cbn [fold_left]. rewrite H. apply IH. }
  rewrite !E, !memo_read, (mem_perm k o1 o2 P). reflexivity.
Qed.

(* ------------------------------------------------------------------ the manifest site *)
Lemma manifest_site_order_free : forall g o1 o2,
  NoDup (map fst o1) -> Permutation o1 o2 -> manifest_site g o1 = manifest_site g o2.
Proof.
  intros g o1 o2 ND P. unfold manifest_site, generate_cargo_toml, manifest_lines, deps, rust_deps, with_crates.
  cbn [g_crates]. rewrite (ksort_order_free o1 o2 ND P). reflexivity.
Qed.
