(* C12/Model.v — every place of src/frontend, src/backend, src/cli where a HashMap/HashSet is
   iterated, as a function of the ITERATION ORDER (the list of keys/entries in the order the hash
   table yields them: some permutation of the key set, different in every process).
   The list of sites is re-derived from the source on every run (vharness run c12 scan) and compared
   with the table in checks/c12.py, which assigns each site to one of the schemas below.
   Definitions only. *)
From Coq Require Import ZArith List Bool Lia String Ascii Permutation.
From Verif Require Import C15.Model.
Import ListNotations.
Open Scope Z_scope.

(* ------------------------------------------------------------------ schema E: emit while iterating *)
(* `for k in map { if let Some(d) = f(k) { out.push(d) } }` — diagnostics, manifest lines, listings *)
Definition emit_site {K D : Type} (f : K -> option D) (order : list K) : list D :=
  flat_map (fun k => match f k with Some d => [d] | None => [] end) order.

(* ------------------------------------------------------------------ schema S: sort before output *)
Fixpoint insert (x : str) (l : list str) : list str :=
  match l with
  | [] => [x]
  | y :: r => if str_leb x y then x :: l else y :: insert x r
  end.

Fixpoint isort (l : list str) : list str :=
  match l with [] => [] | x :: r => insert x (isort r) end.

(* Vec::dedup — removes CONSECUTIVE duplicates *)
Fixpoint dedup_adj (l : list str) : list str :=
  match l with
  | [] => []
  | x :: r => match r with
              | y :: _ => if str_eqb x y then dedup_adj r else x :: dedup_adj r
              | [] => [x]
              end
  end.

Definition sorted_site {D : Type} (render : list str -> D) (order : list str) : D := render (isort order).

(* ------------------------------------------------------------------ schema M: insert into a map / write files *)
(* the result is only ever read by key; keys of the iterated table are distinct *)
Definition store (V : Type) := list (str * V).
Fixpoint read {V : Type} (m : store V) (k : str) : option V :=
  match m with [] => None | (k', v) :: r => if str_eqb k k' then Some v else read r k end.
Definition write_all {V : Type} (m0 : store V) (order : list (str * V)) : store V :=
  fold_left (fun m kv => kv :: m) order m0.

(* ------------------------------------------------------------------ schema R: memoised resolution *)
(* `for k in map.keys() { if let Some(v) = resolve(k, &mut cache) { cache.insert(k, v) } }`
   (emit_program: static-str consts).  The resolver may LOOK AT the memo; the site is order-free only
   if its answer does not depend on what is already memoised. *)
Definition memo_all {V : Type} (f : store V -> str -> option V) (order : list str) : store V :=
  fold_left (fun m k => match f m k with Some v => (k, v) :: m | None => m end) order [].

(* a resolver with a recursion limit: follows `parent` links, answers from the memo when it can, gives
   up when the fuel is exhausted (the shape of a depth-capped resolve_static_str_const) *)
Fixpoint resolve_bounded (fuel : nat) (parent : str -> option str) (cache : store str) (k : str) : option str :=
  match read cache k with
  | Some v => Some v
  | None =>
    match fuel with
    | O => None
    | S f =>
      match parent k with
      | None => Some k
      | Some p => match resolve_bounded f parent cache p with Some v => Some (v ++ k) | None => None end
      end
    end
  end.

(* ------------------------------------------------------------------ site: generate_cargo_toml (project.rs) *)
(* entries collected from the HashMap, sorted by crate name, then written (C15.Model.rust_deps) *)
Definition with_crates (g : gen) (order : list (str * option str)) : gen :=
  mkGen (g_name g) (g_bin g) (g_serde g) (g_tokio g) (g_axum g) order (g_root g) (g_version g).
Definition manifest_site (g : gen) (order : list (str * option str)) : str :=
  generate_cargo_toml (with_crates g order).

(* ------------------------------------------------------------------ site: constructor call, missing required fields *)
(* typechecker/check_expr/calls.rs: the missing fields are collected from the HashMap, SORTED by name, then reported *)
Definition missing_field_msg (ty field : str) : str :=
  s "Missing required field '" ++ field ++ s "' when constructing '" ++ ty ++ s "'".
Definition ctor_diag_of (ty : str) (provided : list str) (f : str * bool) : option str :=
  if negb (snd f) && negb (mem (fst f) provided) then Some (missing_field_msg ty (fst f)) else None.
Definition ctor_site (ty : str) (provided : list str) (order : list (str * bool)) : list str :=
  emit_site (ctor_diag_of ty provided) (ksort order).

(* ------------------------------------------------------------------ site: trait conformance, required methods *)
(* typechecker/check_decl.rs (model and class variant): the trait's methods are visited SORTED by name *)
Inductive impl_state := HasBody | Implemented | Missing | Mismatch.
Definition trait_missing_msg (tr m : str) : str :=
  s "Trait '" ++ tr ++ s "' requires method '" ++ m ++ s "' to be implemented".
Definition trait_mismatch_msg (tr ty m : str) : str :=
  s "Trait '" ++ tr ++ s "' requires '" ++ ty ++ s "'::" ++ m ++ s " to match its signature".
Definition trait_diag_of (tr ty : str) (m : str * impl_state) : option str :=
  match snd m with
  | HasBody | Implemented => None
  | Missing => Some (trait_missing_msg tr (fst m))
  | Mismatch => Some (trait_mismatch_msg tr ty (fst m))
  end.
Definition trait_site (tr ty : str) (order : list (str * impl_state)) : list str :=
  emit_site (trait_diag_of tr ty) (ksort order).

(* ------------------------------------------------------------------ site: ModuleCollector::collect (frontend/module.rs) *)
(* the result follows the Vec `load_order`; the HashMap is only read by key (and then cleared): the
   hash iteration order is not an input any more *)
Definition collector_site (entry : str) (load_order : list str) (hash_order : list str) : list str :=
  emit_site (fun p => if str_eqb p entry then None else Some p) load_order.
(* ModuleCollector::modules() still hands `self.loaded.values()` to its caller (no caller exists) *)
Definition collector_modules_site (order : list str) : list str := order.

(* ------------------------------------------------------------------ sites: test runner fixtures (cli/test_runner.rs) *)
(* verbose listing and get_autouse_fixtures: both sorted by fixture name *)
Definition fixture_listing_site (order : list (str * bool)) : list str :=
  emit_site (fun f : str * bool => Some (s "  - " ++ fst f)) (ksort order).
Definition autouse_site (order : list (str * bool)) : list str :=
  emit_site (fun f : str * bool => if snd f then Some (fst f) else None) (ksort order).

(* ------------------------------------------------------------------ sites: generate_multi / generate_nested (project.rs) *)
Definition path := list str.

(* mod declarations of main.rs: module_names.sort() / sorted_top.sort() *)
Definition mod_lines (names : list str) : str := List.concat (map (fun m => s "mod " ++ m ++ s ";" ++ [10]) names).
Definition multi_mods_site (order : list str) : str := sorted_site mod_lines order.

Fixpoint path_eqb (a b : path) : bool :=
  match a, b with
  | [], [] => true
  | x :: a', y :: b' => str_eqb x y && path_eqb a' b'
  | _, _ => false
  end.

(* for i in 0..segs.len(): dir_submodules[segs[..i]].push(segs[i])  — what one module path pushes into [dir] *)
Fixpoint pushes_of (pre : path) (segs : path) (dir : path) : list str :=
  match segs with
  | [] => []
  | x :: r => (if path_eqb pre dir then [x] else []) ++ pushes_of (pre ++ [x]) r dir
  end.
Definition dir_pushes (dir : path) (order : list path) : list str := flat_map (fun p => pushes_of [] p dir) order.
(* subs.sort(); subs.dedup(); then `pub mod x;` lines joined by \n, plus final \n *)
Definition mod_rs_site (dir : path) (order : list path) : str :=
  join [10] (map (fun x => s "pub mod " ++ x ++ s ";") (dedup_adj (isort (dir_pushes dir order)))) ++ [10].
(* top_level_modules: HashSet of first segments, then sorted; a set keeps one copy *)
Definition top_level_site (order : list path) : str :=
  mod_lines (dedup_adj (isort (dir_pushes [] order))).

(* validate_import_visibility hint: names.sort(); names.join(", ") *)
Definition hint_site (order : list str) : str := sorted_site (join (s ", ")) order.

(* ------------------------------------------------------------------ render for the correspondence run *)
Definition render_ctor (ty : str) (provided : list str) (fields : list (str * bool)) : list str :=
  ctor_site ty provided fields.
Definition render_trait (tr ty : str) (ms : list (str * Z)) : list str :=
  trait_site tr ty (map (fun m => (fst m, if snd m =? 0 then HasBody else if snd m =? 1 then Implemented
                                           else if snd m =? 2 then Missing else Mismatch)) ms).
Definition render_layout (dirs : list path) (order : list path) : str * list str :=
  (top_level_site order, map (fun d => mod_rs_site d order) dirs).
Definition render_manifest (name root ver : str) (serde tokio axum : bool) (order : list (str * option str)) : str :=
  manifest_site (mkGen name true serde tokio axum [] root ver) order.
