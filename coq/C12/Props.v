(* C12/Props.v — property theorems for C12 (compilation is deterministic) and nothing else.
   Every site where a hash table is iterated is a function of the iteration order; the theorem for a
   site says that two orders (two permutations of the same key set: two processes) give the same
   output.  It holds for the sorted / keyed sites and is refuted, with the exact class, for the sites
   that emit while iterating. *)
From Coq Require Import ZArith List Bool Lia String Ascii Permutation Sorted.
From Verif Require Import C15.Model C15.Proofs C12.Model C12.Proofs.
Import ListNotations.
Open Scope Z_scope.

Example C12_nonvacuous :
  let g := mkGen (s "a") true false false false [] (s "/repo") (s "0.1") in
  let o1 := [(s "regex", Some (s """1.0""")); (s "rand", Some (s """0.8"""))] in
  Permutation o1 (rev o1) /\ NoDup (map fst o1) /\ o1 <> rev o1 /\
  manifest_site g o1 = manifest_site g (rev o1) /\
  isort [s "b"; s "a"; s "c"] = [s "a"; s "b"; s "c"] /\
  mod_rs_site [s "db"] [[s "db"; s "models"]; [s "db"; s "conn"]; [s "util"]] = s "pub mod conn;" ++ [10] ++ s "pub mod models;" ++ [10].
Proof.
  cbv zeta. split; [apply Permutation_rev|]. split; [repeat constructor; cbn; intuition discriminate|].
  split; [vm_compute; discriminate|]. repeat split; vm_compute; reflexivity.
Qed.

(* ---- schema E: a loop that emits while iterating *)
(* S1 the emitted items are the same up to order, whatever the iteration order *)
Theorem C12_emit_same_items : forall (K D : Type) (f : K -> option D) o1 o2,
  Permutation o1 o2 -> Permutation (emit_site f o1) (emit_site f o2).
Proof. exact emit_perm. Qed.
Print Assumptions C12_emit_same_items.

(* S2 with at most one emitted item the output is order-independent (complement of the class) *)
Theorem C12_emit_deterministic_le1 : forall (K D : Type) (f : K -> option D) o1 o2,
  Permutation o1 o2 -> (List.length (emit_site f o1) <= 1)%nat -> emit_site f o1 = emit_site f o2.
Proof. exact emit_le1. Qed.
Print Assumptions C12_emit_deterministic_le1.

(* S3 refuted otherwise: any two keys that emit different items expose the order *)
Theorem C12_emit_refuted : forall (K D : Type) (f : K -> option D) k1 k2 d1 d2,
  f k1 = Some d1 -> f k2 = Some d2 -> d1 <> d2 ->
  exists o1 o2, Permutation o1 o2 /\ emit_site f o1 <> emit_site f o2.
Proof. intros K D f k1 k2 d1 d2 H1 H2 N. exists [k1; k2], [k2; k1]. exact (emit_two K D f k1 k2 d1 d2 H1 H2 N). Qed.
Print Assumptions C12_emit_refuted.

(* ---- sites that collect the entries of a HashMap (distinct keys), sort them by key, then emit *)
(* K1 sorting the entries by key removes the iteration order *)
Theorem C12_sorted_entries_deterministic : forall (V : Type) (o1 o2 : list (str * V)),
  NoDup (map fst o1) -> Permutation o1 o2 -> ksort o1 = ksort o2.
Proof. intros V o1 o2 ND P. exact (ksort_order_free o1 o2 ND P). Qed.
Print Assumptions C12_sorted_entries_deterministic.

(* M1 Cargo.toml: the text is the same for every iteration order of the rust_crate_deps table *)
Theorem C12_manifest_deterministic : forall g o1 o2,
  NoDup (map fst o1) -> Permutation o1 o2 -> manifest_site g o1 = manifest_site g o2.
Proof. exact manifest_site_order_free. Qed.
Print Assumptions C12_manifest_deterministic.

(* D1 missing-required-field diagnostics of a constructor call, for any number of missing fields *)
Theorem C12_ctor_diag_deterministic : forall ty provided o1 o2,
  NoDup (map fst o1) -> Permutation o1 o2 -> ctor_site ty provided o1 = ctor_site ty provided o2.
Proof. intros ty provided o1 o2 ND P. unfold ctor_site. now rewrite (ksort_order_free o1 o2 ND P). Qed.
Print Assumptions C12_ctor_diag_deterministic.

(* D2 trait-conformance diagnostics (model and class variant) *)
Theorem C12_trait_diag_deterministic : forall tr ty o1 o2,
  NoDup (map fst o1) -> Permutation o1 o2 -> trait_site tr ty o1 = trait_site tr ty o2.
Proof. intros tr ty o1 o2 ND P. unfold trait_site. now rewrite (ksort_order_free o1 o2 ND P). Qed.
Print Assumptions C12_trait_diag_deterministic.

(* F1 `incan test -v` fixture listing and the autouse fixture order *)
Theorem C12_fixture_sites_deterministic : forall o1 o2,
  NoDup (map fst o1) -> Permutation o1 o2 ->
  fixture_listing_site o1 = fixture_listing_site o2 /\ autouse_site o1 = autouse_site o2.
Proof.
  intros o1 o2 ND P. unfold fixture_listing_site, autouse_site. rewrite (ksort_order_free o1 o2 ND P). split; reflexivity.
Qed.
Print Assumptions C12_fixture_sites_deterministic.

(* C1 ModuleCollector::collect: the hash order is not an input of the result any more *)
Theorem C12_collector_deterministic : forall entry load_order h1 h2,
  collector_site entry load_order h1 = collector_site entry load_order h2.
Proof. reflexivity. Qed.
Print Assumptions C12_collector_deterministic.

(* C2 still refuted, library API without a caller: ModuleCollector::modules() exposes the table's order *)
Theorem C12_collector_modules_refuted : exists o1 o2,
  Permutation o1 o2 /\ collector_modules_site o1 <> collector_modules_site o2.
Proof. exists [s "a"; s "b"], [s "b"; s "a"]. split; [apply perm_swap | vm_compute; discriminate]. Qed.
Print Assumptions C12_collector_modules_refuted.

(* regression witnesses: the orders that used to give different outputs now give the same *)
Example C12_regression_witnesses :
  let g := mkGen (s "a") true false false false [] (s "/repo") (s "0.1") in
  manifest_site g [(s "rand", Some (s """0.8""")); (s "regex", Some (s """1.0"""))] =
  manifest_site g [(s "regex", Some (s """1.0""")); (s "rand", Some (s """0.8"""))] /\
  ctor_site (s "Pt") [] [(s "x", false); (s "y", false)] = ctor_site (s "Pt") [] [(s "y", false); (s "x", false)] /\
  List.length (ctor_site (s "Pt") [] [(s "x", false); (s "y", false)]) = 2%nat /\
  trait_site (s "Shape") (s "Sq") [(s "area", Missing); (s "name", Mismatch)] = trait_site (s "Shape") (s "Sq") [(s "name", Mismatch); (s "area", Missing)] /\
  fixture_listing_site [(s "db", true); (s "tmp", true)] = fixture_listing_site [(s "tmp", true); (s "db", true)] /\
  autouse_site [(s "db", true); (s "tmp", true)] = autouse_site [(s "tmp", true); (s "db", true)].
Proof. cbv zeta. repeat split; vm_compute; reflexivity. Qed.

(* ---- schema S: sorted before output *)
(* T1 sorting makes any rendering independent of the iteration order (mod lines of generate_multi,
      the hint of validate_import_visibility) *)
Theorem C12_sorted_site_deterministic : forall (D : Type) (render : list str -> D) o1 o2,
  Permutation o1 o2 -> sorted_site render o1 = sorted_site render o2.
Proof. intros D render o1 o2 P. unfold sorted_site. now rewrite (isort_order_free o1 o2 P). Qed.
Print Assumptions C12_sorted_site_deterministic.

(* T2 generate_nested: every mod.rs and the top-level mod lines, for any set of module paths *)
Theorem C12_nested_layout_deterministic : forall dir o1 o2,
  Permutation o1 o2 -> mod_rs_site dir o1 = mod_rs_site dir o2 /\ top_level_site o1 = top_level_site o2.
Proof.
  intros dir o1 o2 P. unfold mod_rs_site, top_level_site.
  rewrite (isort_order_free _ _ (dir_pushes_perm dir o1 o2 P)).
  rewrite (isort_order_free _ _ (dir_pushes_perm [] o1 o2 P)). split; reflexivity.
Qed.
Print Assumptions C12_nested_layout_deterministic.

(* T3 the sort really sorts (so "sorted" is not an empty word) *)
Theorem C12_isort_sorted_perm : forall l, StronglySorted (fun a b => str_leb a b = true) (isort l) /\ Permutation (isort l) l.
Proof. intros l. split; [exact (isort_sorted l) | exact (isort_perm l)]. Qed.
Print Assumptions C12_isort_sorted_perm.

(* ---- schema R: memoised resolution (static-str consts of emit_program) *)
(* R1 if the resolver's answer for a key does not depend on the memo state, the memo built by
      iterating the keys in ANY order answers every lookup the same way.  The hypothesis is the one
      thing the site needs; the check re-validates it on every run with a differential probe (the
      same long const chains generated 12 times in one process and in 8 processes). *)
Theorem C12_memo_site_deterministic : forall (V : Type) (f : store V -> str -> option V) (g : str -> option V) o1 o2 k,
  (forall m a, f m a = g a) -> Permutation o1 o2 -> read (memo_all f o1) k = read (memo_all f o2) k.
Proof. exact memo_all_order_free. Qed.
Print Assumptions C12_memo_site_deterministic.

(* R2 refuted without it: a resolver with a recursion limit answers from the memo when it can, so
      whether a deep key resolves depends on which keys were memoised before (chain a <- b <- c, limit 2) *)
Theorem C12_memo_site_refuted : exists (f : store str -> str -> option str) o1 o2 k,
  Permutation o1 o2 /\ NoDup o1 /\ read (memo_all f o1) k <> read (memo_all f o2) k.
Proof.
  exists (resolve_bounded 2 (fun k => if str_eqb k (s "c") then Some (s "b") else if str_eqb k (s "b") then Some (s "a") else None)),
         [s "a"; s "b"; s "c"], [s "c"; s "b"; s "a"], (s "c").
  split; [apply (Permutation_rev [s "a"; s "b"; s "c"])|].
  split; [repeat constructor; cbn; intuition discriminate|]. vm_compute. discriminate.
Qed.
Print Assumptions C12_memo_site_refuted.

(* ---- schema M: results that are only read by key (files written per module, maps merged into maps) *)
Theorem C12_keyed_writes_deterministic : forall (V : Type) (o1 o2 : list (str * V)) m0 k,
  NoDup (map fst o1) -> Permutation o1 o2 -> read (write_all m0 o1) k = read (write_all m0 o2) k.
Proof. exact write_all_order_free. Qed.
Print Assumptions C12_keyed_writes_deterministic.
