"""Shared plumbing for /verif checks: builds, rs2v, Coq gates, model evaluation inside Coq,
evidence, known findings, VIOLATION lines.  See DESIGN.md sections 2-4."""
import ast
import concurrent.futures
import fcntl
import hashlib
import json
import os
import random
import re
import shutil
import subprocess
import sys
import time

VERIF = os.path.dirname(os.path.dirname(os.path.abspath(__file__)))
REPO = os.environ.get("VERIF_REPO", "/repo")
COQ = os.path.join(VERIF, "coq")
BUILD = os.path.join(VERIF, "build")
HARNESS = os.path.join(VERIF, "harness")
EVIDENCE = os.path.join(VERIF, "evidence")
CFG = "incan_verif"
ALT = None
# build_harness adds --cfg incan_verif_gates itself when the LSP gate hook is in the repository
C18_GATES_IN_RUSTFLAGS = True


def _setup_alt():
    """VERIF_REPO=/some/scratch/worktree: run the checks against another copy of the repository
    (mutation experiments) WITHOUT touching /repo, /verif/coq, /verif/harness or /verif/evidence:
    private copies of coq/ and harness/ (paths rewritten) live under build/alt/<hash>/."""
    global COQ, HARNESS, EVIDENCE, ALT
    if os.path.realpath(REPO) == "/repo":
        return
    h = hashlib.sha1(os.path.realpath(REPO).encode()).hexdigest()[:10]
    ALT = os.path.join(BUILD, "alt", h)
    os.makedirs(ALT, exist_ok=True)
    # warm start: compiled files are copied too (make compares time stamps; everything that depends on the regenerated
    # Gen/ files, which are NOT copied, is rebuilt).  A .vo that may still be being written by a build in the main tree is
    # dropped again (it is rebuilt here).
    ex = ["--exclude=*.vok", "--exclude=*.vos", "--exclude=Gen/", "--exclude=scratch/",
          "--exclude=Makefile", "--exclude=Makefile.conf", "--exclude=.Makefile.d", "--exclude=_CoqProject", "--exclude=.lia.cache"]
    first = not os.path.isdir(os.path.join(ALT, "coq"))
    if not first:
        ex += ["--exclude=*.vo", "--exclude=*.glob", "--exclude=*.aux"]
    subprocess.run(["rsync", "-a"] + ex + [COQ + "/", os.path.join(ALT, "coq") + "/"], check=True)
    if first:
        now = time.time()
        for dp, _, fs in os.walk(os.path.join(ALT, "coq")):
            for f in fs:
                fp = os.path.join(dp, f)
                if f.endswith(".vo") and (now - os.path.getmtime(fp) < 180 or os.path.getsize(fp) == 0):
                    os.remove(fp)
    subprocess.run(["rsync", "-a", "--exclude=target/", "--exclude=Cargo.toml", "--exclude=Cargo.lock",
                    HARNESS + "/", os.path.join(ALT, "harness") + "/"], check=True)
    toml = open(os.path.join(HARNESS, "Cargo.toml")).read().replace('"/repo', '"' + os.path.realpath(REPO))
    tp = os.path.join(ALT, "harness", "Cargo.toml")
    if not os.path.exists(tp) or open(tp).read() != toml:
        open(tp, "w").write(toml)
    COQ = os.path.join(ALT, "coq")
    HARNESS = os.path.join(ALT, "harness")
    EVIDENCE = os.path.join(ALT, "evidence")
    os.environ["VERIF_COQ_DIR"] = COQ

FORBIDDEN = re.compile(
    r"\b(Admitted|admit|Axiom|Axioms|Parameter|Parameters|Conjecture|Conjectures|Hypothesis|Hypotheses|Variable|Variables|"
    r"Admit Obligations|bypass_check|native_compute)\b|Unset\s+Guard|Unset\s+Positivity|Unset\s+Universe|type-in-type|impredicative-set"
)


_setup_alt()


def _setup_private_harness():
    """VERIF_PRIVATE_HARNESS=c05,c07: build a private copy of harness/ in which every other
    property's runner is a stub — so that somebody else's half-written cNN.rs cannot break this
    check's build while several people work in /verif at once. Not used in normal runs."""
    global HARNESS
    only = os.environ.get("VERIF_PRIVATE_HARNESS")
    if not only:
        return
    keep = set(only.split(","))
    dst = os.path.join(BUILD, "priv-" + "-".join(sorted(keep)), "harness")
    os.makedirs(os.path.join(dst, "src"), exist_ok=True)
    subprocess.run(["rsync", "-a", "--exclude=target/", "--exclude=src/", HARNESS + "/", dst + "/"], check=True)
    for f in os.listdir(os.path.join(HARNESS, "src")):
        sp, dp = os.path.join(HARNESS, "src", f), os.path.join(dst, "src", f)
        if os.path.isdir(sp):
            subprocess.run(["rsync", "-a", sp + "/", dp + "/"], check=True)
            continue
        text = open(sp).read()
        m = re.match(r"^(c\d\d)\.rs$", f)
        if m and m.group(1) not in keep:
            text = "pub fn run(_args: &[String]) { eprintln!(\"stub\"); std::process::exit(2); }\n"
        if not os.path.exists(dp) or open(dp).read() != text:
            open(dp, "w").write(text)
    HARNESS = dst


_setup_private_harness()


class Infra(Exception):
    """Infrastructure failure: says nothing about the property (exit 2, no VIOLATION line)."""


def log(msg):
    print(msg, file=sys.stderr, flush=True)


def sh(cmd, cwd=None, env=None, timeout=None, input=None):
    e = dict(os.environ)
    e.setdefault("CARGO_NET_OFFLINE", "true")
    if env:
        e.update(env)
    p = subprocess.run(cmd, cwd=cwd, env=e, timeout=timeout, input=input, capture_output=True, text=True)
    return p.returncode, p.stdout, p.stderr


class Lock:
    def __init__(self, name):
        os.makedirs(BUILD, exist_ok=True)
        self.path = os.path.join(BUILD, name + ".lock")

    def __enter__(self):
        self.f = open(self.path, "w")
        fcntl.flock(self.f, fcntl.LOCK_EX)
        return self

    def __exit__(self, *a):
        fcntl.flock(self.f, fcntl.LOCK_UN)
        self.f.close()


# ----------------------------------------------------------------------------- harness

# harness modules a property's check drives (default: its own cNN); modules whose Rust source uses another module
PROP_HARNESS_MODULES = {"C02": {"c01"}, "C09": {"c08", "c09"}, "C11": {"c10", "c11"}}
HARNESS_MODULE_DEPS = {"c02": {"c01"}, "c11": {"c10"}, "c09": {"c08"}}
HARNESS_MISSING = {}
CURRENT_PROP = None


class TieBroken(Exception):
    """the machinery that ties the model to the code cannot be built against the tree under test: the property is no
    longer shown to hold (VIOLATION ... no-failing-input-found), unlike Infra (exit 2)"""
    def __init__(self, what, detail=""):
        Exception.__init__(self, what)
        self.what, self.detail = what, detail


def build_harness(profile="debug"):
    """Build vharness against the CURRENT /repo working tree (hooks on). Returns the binary path."""
    with Lock("cargo-%s-%s" % (profile, hashlib.sha1(HARNESS.encode()).hexdigest()[:8])):
        lock_src = os.path.join(REPO, "Cargo.lock")
        lock_dst = os.path.join(HARNESS, "Cargo.lock")
        if not os.path.exists(lock_dst):
            shutil.copy(lock_src, lock_dst)
        cmd = ["cargo", "build", "--offline", "--quiet"]
        if profile == "release":
            cmd.append("--release")
        flags = "--cfg %s --check-cfg=cfg(%s) -Awarnings" % (CFG, CFG)
        if os.path.exists(os.path.join(REPO, "src", "lsp", "verif_gate.rs")):
            # the LSP gate hook is present in the repository under test: compile the gated C18 driver
            flags += " --cfg incan_verif_gates --check-cfg=cfg(incan_verif_gates)"
        env = {"RUSTFLAGS": flags}
        t0 = time.time()
        rc, out, err = sh(cmd, cwd=HARNESS, env=env, timeout=3000)
        if rc != 0 and "Cargo.lock" in err:
            shutil.copy(lock_src, lock_dst)
            rc, out, err = sh(cmd, cwd=HARNESS, env=env, timeout=3000)
        if rc != 0:
            # Which property modules (harness/src/cNN.rs) no longer compile against the tree under test?  An API they call
            # was removed or changed: the tie of THOSE properties is broken (a violation with no failing input, DESIGN 4);
            # every other property's check goes on with a harness built without them.
            bad = set(re.findall(r"--> src/(c\d\d)\.rs", err))
            if not bad:
                raise Infra("harness does not build against the current /repo (%s):\n%s" % (profile, err[-3000:]))
            closure = set(bad)
            for m, deps in HARNESS_MODULE_DEPS.items():
                if deps & bad:
                    closure.add(m)
            keep = [m for m in ("c%02d" % i for i in range(1, 21)) if m not in closure]
            HARNESS_MISSING.update({m: err[-2500:] for m in closure})
            rc, out, err2 = sh(cmd + ["--no-default-features", "--features", ",".join(keep)], cwd=HARNESS, env=env, timeout=3000)
            if rc != 0:
                raise Infra("harness does not build against the current /repo (%s), also without %s:\n%s" % (profile, sorted(closure), err2[-3000:]))
            log("[build] harness %s WITHOUT modules %s (they do not compile against the tree)" % (profile, sorted(closure)))
        log("[build] harness %s in %.1fs" % (profile, time.time() - t0))
    need = PROP_HARNESS_MODULES.get(CURRENT_PROP, {CURRENT_PROP.lower()} if CURRENT_PROP else set())
    if need & set(HARNESS_MISSING):
        m = sorted(need & set(HARNESS_MISSING))
        raise TieBroken("harness module(s) %s (the adapter that runs the real code for this property) no longer compile against "
                        "the current tree" % ", ".join(m), HARNESS_MISSING[m[0]])
    return os.path.join(HARNESS, "target", profile, "vharness")


def run_harness(binary, args, stdin_text, timeout=600):
    rc, out, err = sh([binary] + args, input=stdin_text, timeout=timeout)
    if rc != 0:
        raise Infra("vharness %s failed (rc=%d): %s" % (" ".join(args), rc, err[-2000:]))
    return out


# ----------------------------------------------------------------------------- rs2v + Coq

def rs2v(units=None):
    """Regenerate coq/Gen/*.v from /repo. Returns (report list, list of tie-broken unit errors)."""
    binary = build_harness("debug")
    os.makedirs(os.path.join(COQ, "Gen"), exist_ok=True)
    env = {}
    if units:
        env["RS2V_ONLY"] = ",".join(units)
    spec = json.load(open(os.path.join(VERIF, "rs2v.json")))
    extra_dir = os.path.join(VERIF, "rs2v.d")
    if os.path.isdir(extra_dir):
        for f in sorted(os.listdir(extra_dir)):
            if f.endswith(".json"):
                spec.extend(json.load(open(os.path.join(extra_dir, f))))
    os.makedirs(BUILD, exist_ok=True)
    merged = os.path.join(BUILD, "rs2v.merged.%d.json" % os.getpid())
    json.dump(spec, open(merged, "w"))
    with Lock("coq-" + hashlib.sha1(COQ.encode()).hexdigest()[:8]):
        e = dict(os.environ)
        e.update(env)
        p = subprocess.run([binary, "rs2v", REPO, merged, os.path.join(COQ, "Gen")],
                           capture_output=True, text=True, env=e)
    os.remove(merged)
    if p.returncode not in (0, 3):
        raise Infra("rs2v crashed: " + p.stderr[-2000:])
    rep = json.loads(p.stdout)
    broken = [r for r in rep if "error" in r]
    return rep, broken


def coq_build(targets, timeout=1500):
    """Full .vo build of the given targets through coq_makefile. Returns (ok, log)."""
    rc, out, err = sh([os.path.join(VERIF, "bin", "coqbuild")] + list(targets), timeout=timeout + 600,
                      env={"COQ_TIMEOUT": str(timeout)})
    _coq_infra(rc, out + err)
    return rc == 0, out + err


def _coq_infra(rc, text):
    """coqbuild exit 3 (lock/makefile), 124 (timeout), or a failure without any Coq error text
    is an infrastructure failure, not a broken proof."""
    if rc in (3, 124, 137) or (rc != 0 and "Error" not in text):
        raise Infra("Coq build did not run to a verdict (rc=%d): %s" % (rc, text[-800:]))


def coq_error_summary(logtext):
    m = re.search(r'File "([^"]+)", line (\d+), characters [\d-]+:\s*\n(Error:.*?)(?:\n\n|\nmake|\Z)', logtext, re.S)
    if m:
        return {"file": m.group(1), "line": int(m.group(2)), "message": m.group(3)[:1500]}
    return {"file": None, "line": None, "message": logtext[-1500:]}


def theorem_at(path, line):
    """Name of the Theorem/Lemma enclosing `line` of a .v file."""
    try:
        lines = open(os.path.join(COQ, path) if not os.path.isabs(path) else path).read().split("\n")
    except OSError:
        return None
    for i in range(min(line, len(lines)) - 1, -1, -1):
        m = re.match(r"\s*(Theorem|Lemma|Corollary|Example|Definition|Fixpoint)\s+([A-Za-z0-9_']+)", lines[i])
        if m:
            return m.group(2)
    return None


def coq_props(prop_dir, allow=(), props="Props"):
    """(Re)check <prop_dir>/<props>.v, return dict theorem -> list of axioms (from Print Assumptions).
    Raises nothing on proof failure: returns (ok, theorems, log)."""
    vo = os.path.join(COQ, prop_dir, props + ".vo")
    if os.path.exists(vo):
        os.remove(vo)
    rc, out, err = sh([os.path.join(VERIF, "bin", "coqbuild"), prop_dir + "/" + props + ".vo"], timeout=2400)
    text = out + err
    _coq_infra(rc, text)
    if rc != 0:
        return False, {}, text
    src = open(os.path.join(COQ, prop_dir, props + ".v")).read()
    names = re.findall(r"^Print Assumptions\s+([A-Za-z0-9_']+)\s*\.", src, re.M)
    # split the output into one block per Print Assumptions, in order
    blocks = re.split(r"(?m)^(?=Closed under the global context|Axioms:)", out)
    blocks = [b for b in blocks if b.startswith("Closed under") or b.startswith("Axioms:")]
    theorems = {}
    for i, n in enumerate(names):
        if i >= len(blocks):
            theorems[n] = ["<no Print Assumptions output>"]
            continue
        b = blocks[i]
        if b.startswith("Closed under"):
            theorems[n] = []
        else:
            axs = [a for a in re.findall(r"(?m)^([A-Za-z0-9_.']+)\s*:", b) if a != "Axioms"]
            theorems[n] = axs
    return True, theorems, text


def theorem_statements(prop_dir, props="Props"):
    src = open(os.path.join(COQ, prop_dir, props + ".v")).read()
    return re.findall(r"(?m)^Theorem\s+([A-Za-z0-9_']+)", src)


def gate(paths=None):
    """Scan the development for forbidden constructs. Returns list of offending (file, line, text)."""
    bad = []
    for root, _, files in os.walk(COQ):
        if "/scratch" in root:
            continue
        for f in files:
            if not f.endswith(".v"):
                continue
            p = os.path.join(root, f)
            text = open(p).read()
            # strip comments (non-nested approximation good enough: nested handled by loop)
            prev = None
            while prev != text:
                prev = text
                text = re.sub(r"\(\*(?:(?!\(\*|\*\)).)*\*\)", lambda m: "\n" * m.group(0).count("\n"), text, flags=re.S)
            in_section = 0
            for i, line in enumerate(text.split("\n"), 1):
                if re.match(r"\s*Section\b", line):
                    in_section += 1
                if re.match(r"\s*End\b", line) and in_section:
                    in_section -= 1
                for m in FORBIDDEN.finditer(line):
                    w = m.group(0)
                    if w.startswith(("Variable", "Hypothes")) and in_section:
                        continue
                    bad.append((os.path.relpath(p, COQ), i, line.strip()[:160]))
    return bad


_Z_RE = re.compile(r"%[A-Za-z]+")


def parse_coq_value(s):
    """Parse the value printed by `Eval vm_compute` for nested lists/tuples of Z, bool, option."""
    s = _Z_RE.sub("", s)
    s = s.replace(";", ",")
    s = re.sub(r"\bSome\s+", "", s)
    s = s.replace("None", "None").replace("true", "True").replace("false", "False")
    return ast.literal_eval(s)


def coq_eval(requires, type_str, run_expr, case_terms, shard=400, tag="eval", extra_defs=""):
    """Evaluate `map (run_expr) cases` inside Coq with vm_compute, sharded over parallel coqc.
    case_terms: list of Gallina terms (strings) of type type_str. Returns list of parsed results."""
    scratch = os.path.join(BUILD, "coq-eval", "%s-%d" % (tag, os.getpid()))
    shutil.rmtree(scratch, ignore_errors=True)
    os.makedirs(scratch)
    shards = [case_terms[i:i + shard] for i in range(0, len(case_terms), shard)]
    files = []
    for k, sh_cases in enumerate(shards):
        p = os.path.join(scratch, "cases_%d.v" % k)
        with open(p, "w") as f:
            f.write(requires + "\n")
            f.write("Set Printing Width 1000000.\nSet Printing Depth 100000000.\n")
            f.write(extra_defs + "\n")
            # one Definition per case: a single huge list literal elaborates superlinearly in coqc
            for j, t in enumerate(sh_cases):
                f.write("Definition c_%d : %s := %s.\n" % (j, type_str, t))
            f.write("Definition cases : list (%s) := [%s].\n" % (type_str, "; ".join("c_%d" % j for j in range(len(sh_cases)))))
            f.write("Eval vm_compute in (map (%s) cases).\n" % run_expr)
        files.append(p)

    def one(p):
        rc, out, err = sh(["coqc", "-noglob", "-Q", COQ, "Verif", p], cwd=scratch, timeout=1200)
        if rc != 0:
            raise Infra("model evaluation failed in Coq (%s): %s" % (p, (out + err)[-2000:]))
        m = re.search(r"=\s*(\[.*\])\s*:\s*list", out, re.S)
        if not m:
            raise Infra("cannot parse Coq output: " + out[:500])
        return parse_coq_value(m.group(1))

    results = []
    with concurrent.futures.ThreadPoolExecutor(max_workers=16) as ex:
        for r in ex.map(one, files):
            results.extend(r)
    shutil.rmtree(scratch, ignore_errors=True)
    if len(results) != len(case_terms):
        raise Infra("Coq returned %d results for %d cases" % (len(results), len(case_terms)))
    return results


def zlit(z):
    return "(%d)" % z if z < 0 else "%d" % z


def optz(o):
    return "None" if o is None else "(Some %s)" % zlit(o)


def zlist(xs):
    return "[" + "; ".join(zlit(x) for x in xs) + "]"


# ----------------------------------------------------------------------------- known findings

def known_findings(prop):
    p = os.path.join(VERIF, "known_findings.json")
    if not os.path.exists(p):
        return []
    return [f for f in json.load(open(p)) if isinstance(f, dict) and f.get("property") == prop]


# ----------------------------------------------------------------------------- check driver

class Check:
    """One run of one property's check. Collects obligations, correspondence stats, violations."""

    def __init__(self, prop, tier, seed):
        global CURRENT_PROP
        CURRENT_PROP = prop
        self.prop = prop
        self.tier = tier
        self.seed = seed
        self.rng = random.Random(seed)
        self.t0 = time.time()
        self.violations = []      # dicts written to replay files
        self.known_hits = {}      # finding id -> description line
        self.coverage = {"samples": []}
        self.assumptions = []
        self.obligations = 0
        self.discharged = 0
        self.trusted = []
        self.checker_cmd = ""
        self.evaluations = 0
        self.distinct = set()
        self.notes = []
        self.findings = known_findings(prop)

    # --- bookkeeping
    def count_case(self, key, nontrivial=True):
        self.evaluations += 1
        if nontrivial:
            self.distinct.add(hashlib.sha1(repr(key).encode()).hexdigest()[:16])

    def sample(self, s, limit=12):
        if len(self.coverage["samples"]) < limit:
            self.coverage["samples"].append(s)

    def known(self, fid, line):
        self.known_hits[fid] = line

    def violation(self, kind, detail, no_input=False):
        """kind: 'failing-input' | 'proof-broken' | 'correspondence-broken' | 'tie-broken' | 'gate'."""
        self.violations.append({"kind": kind, "detail": detail, "no_failing_input_found": no_input})

    # --- standard proof stage
    def proof_stage(self, prop_dir, allow_axioms=(), rs2v_units=None, extra_props=()):
        """rs2v (if units given) -> gate -> build Props.vo -> Print Assumptions vs allowlist.
        extra_props: further property files of the same directory, as (basename, allow_axioms) pairs.
        Returns dict with 'proofs_ok', 'tie_ok'."""
        res = {"proofs_ok": True, "tie_ok": True, "broken": []}
        self.obligations = 0
        self.discharged = 0
        self.coverage.setdefault("theorems", {})
        first = True
        for props, allow in [("Props", allow_axioms)] + list(extra_props):
            r = self._proof_file(prop_dir, props, allow, rs2v_units if first else None, gate_too=first)
            first = False
            res["proofs_ok"] = res["proofs_ok"] and r["proofs_ok"]
            res["tie_ok"] = res["tie_ok"] and r["tie_ok"]
            res["broken"].extend(r["broken"])
        return res

    def _proof_file(self, prop_dir, props, allow_axioms, rs2v_units, gate_too=True):
        res = {"proofs_ok": True, "tie_ok": True, "broken": []}
        if rs2v_units is not None:
            rep, broken = rs2v(rs2v_units)
            self.coverage["rs2v"] = [{k: r.get(k) for k in ("coq", "source", "hash", "changed")} for r in rep if "error" not in r]
            if broken:
                res["tie_ok"] = False
                for b in broken:
                    res["broken"].append({"what": "translator", "unit": b["unit"], "message": b["error"]})
        bad = gate() if gate_too else []
        if bad:
            res["proofs_ok"] = False
            res["broken"].append({"what": "gate", "offending": bad[:20]})
        ok, theorems, text = coq_props(prop_dir, props=props)
        names = theorem_statements(prop_dir, props)
        self.obligations += len(names)
        if gate_too:
            self.checker_cmd = "bin/coqbuild %s/Props.vo  (coq_makefile + make, full .vo, coqc 8.16.1); Print Assumptions per theorem" % prop_dir
        else:
            self.checker_cmd += "; bin/coqbuild %s/%s.vo" % (prop_dir, props)
        if not ok:
            res["proofs_ok"] = False
            es = coq_error_summary(text)
            thm = theorem_at(es["file"], es["line"]) if es["file"] and es["line"] else None
            es["theorem"] = thm
            res["broken"].append({"what": "proof", **es})
        else:
            good = 0
            for n in names:
                axs = theorems.get(n)
                if axs is None:
                    res["proofs_ok"] = False
                    res["broken"].append({"what": "assumptions", "theorem": n, "message": "no Print Assumptions"})
                    continue
                extra = [a for a in axs if a not in allow_axioms]
                if extra:
                    res["proofs_ok"] = False
                    res["broken"].append({"what": "assumptions", "theorem": n, "message": "unexpected axioms: %s" % extra})
                else:
                    good += 1
            self.discharged += good
            self.coverage["theorems"].update({n: (theorems.get(n) or "closed") for n in names})
        return res

    # --- finish
    def finish(self, level="proof"):
        wall = time.time() - self.t0
        os.makedirs(os.path.join(EVIDENCE, "replays"), exist_ok=True)
        cov = dict(self.coverage)
        cov["obligations"] = self.obligations
        cov["discharged"] = self.discharged
        cov["checker_cmd"] = self.checker_cmd
        cov["trusted_base"] = self.trusted
        cov["evaluations"] = self.evaluations
        cov["distinct_nontrivial"] = len(self.distinct)
        cov.setdefault("rule", "")
        if not cov["samples"]:
            cov["samples"] = ["<none>"]
        if self.notes:
            cov["notes"] = self.notes
        cov["known_findings_reproduced"] = sorted(self.known_hits)
        ev = {
            "property_id": self.prop, "tier": self.tier, "seed": self.seed, "level": level,
            "coverage": cov, "assumptions": self.assumptions, "wall_s": round(wall, 2),
            "violations": len(self.violations),
        }
        with open(os.path.join(EVIDENCE, self.prop + ".json"), "w") as f:
            json.dump(ev, f, indent=1, default=str)
        for fid, line in sorted(self.known_hits.items()):
            print("KNOWN-FINDING: property=%s %s" % (self.prop, line))
        if not self.violations:
            print("OK property=%s tier=%s obligations=%d/%d evaluations=%d wall=%.1fs" %
                  (self.prop, self.tier, self.discharged, self.obligations, self.evaluations, wall))
            return 0
        # one replay file; prefer a concrete failing input
        self.violations.sort(key=lambda v: v["no_failing_input_found"])
        rp = os.path.join(EVIDENCE, "replays", "%s-%s-%d.json" % (self.prop, self.tier, int(time.time())))
        with open(rp, "w") as f:
            json.dump({"property": self.prop, "seed": self.seed, "tier": self.tier,
                       "replay_cmd": "bin/vcheck %s --replay %s" % (self.prop, rp),
                       "violations": self.violations[:50]}, f, indent=1, default=str)
        concrete = [v for v in self.violations if not v["no_failing_input_found"]]
        if concrete:
            print("VIOLATION property=%s replay=%s" % (self.prop, rp))
        else:
            print("VIOLATION property=%s replay=%s no-failing-input-found" % (self.prop, rp))
        return 1
