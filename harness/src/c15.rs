//! C15 runner.
//!
//! `vharness run c15 table <repo>` — the known-good version table, extracted with `syn` from the
//!     `match crate_name { .. }` of ProjectGenerator::add_rust_crate: JSON [[crate, spec-text], ..]
//!     (+ {"error":..} if the function no longer has that shape).
//! `vharness run c15 scan`  — stdin: one JSON {"src": incan source} per line.  Parses with the REAL
//!     lexer/parser, runs the REAL detect_serde_usage / detect_async_usage / detect_web_usage and
//!     cli::commands::collect_rust_crates, and prints the uniform tree of coq/C15/Model.v
//!     ([kind, tag, label, [[slot, child]..]]) built from the real AST.  A node's trigger bits are the
//!     union of (a) the real scanners' verdicts on that node alone and (b) a definition taken from the AST and
//!     the incan_core tables only (any @derive decorator / any argument, is_async, await, builtin and surface
//!     function names, `web` imports, @route), so a scanner that overlooks a trigger disagrees with the tree.
//! `vharness run c15 build` — stdin: one JSON {"entry": file, "out": dir} per line.  Calls the real
//!     cli::commands::build_file (a stub `cargo` must be first on PATH), then prints
//!     `@@C15 {"ok","err","manifest","roots":[..],"mods":[..]}`: Cargo.toml text and, from the
//!     generated src/**/*.rs, every identifier that starts a `a::b` path (token level: covers `use`
//!     items, attributes, expressions and macro bodies) plus the declared `mod` names.
use std::collections::{BTreeMap, BTreeSet, HashMap};
use std::io::BufRead;
use std::path::Path;
use std::str::FromStr;

use incan::backend::ir::scanners::{detect_async_usage, detect_serde_usage, detect_web_usage};
use incan::frontend::ast::*;
use serde_json::{json, Value};

use crate::common::catch;

// ------------------------------------------------------------------------------------------------
// table
// ------------------------------------------------------------------------------------------------

fn lit_of(e: &syn::Expr) -> Option<String> {
    // Some(r#"..."#.to_string())
    match e {
        syn::Expr::Call(c) => c.args.first().and_then(lit_of),
        syn::Expr::MethodCall(m) => lit_of(&m.receiver),
        syn::Expr::Lit(l) => match &l.lit {
            syn::Lit::Str(s) => Some(s.value()),
            _ => None,
        },
        syn::Expr::Block(b) => match b.block.stmts.last() {
            Some(syn::Stmt::Expr(e, None)) => lit_of(e),
            _ => None,
        },
        syn::Expr::Paren(p) => lit_of(&p.expr),
        _ => None,
    }
}

fn table(repo: &str) -> i32 {
    let p = Path::new(repo).join("src/backend/project.rs");
    let text = match std::fs::read_to_string(&p) {
        Ok(t) => t,
        Err(e) => {
            println!("{}", json!({"error": format!("cannot read {}: {}", p.display(), e)}));
            return 0;
        }
    };
    let file = match syn::parse_file(&text) {
        Ok(f) => f,
        Err(e) => {
            println!("{}", json!({"error": format!("parse: {}", e)}));
            return 0;
        }
    };
    let mut out: Vec<Value> = vec![];
    let mut found = false;
    let mut default_none = false;
    for it in &file.items {
        let syn::Item::Impl(im) = it else { continue };
        for ii in &im.items {
            let syn::ImplItem::Fn(f) = ii else { continue };
            if f.sig.ident != "add_rust_crate" {
                continue;
            }
            for st in &f.block.stmts {
                let syn::Stmt::Local(l) = st else { continue };
                let Some(init) = &l.init else { continue };
                let syn::Expr::Match(m) = &*init.expr else { continue };
                found = true;
                for arm in &m.arms {
                    let mut names = vec![];
                    fn pat_names(p: &syn::Pat, out: &mut Vec<Option<String>>) {
                        match p {
                            syn::Pat::Lit(l) => match &l.lit {
                                syn::Lit::Str(s) => out.push(Some(s.value())),
                                _ => out.push(None),
                            },
                            syn::Pat::Or(o) => o.cases.iter().for_each(|c| pat_names(c, out)),
                            syn::Pat::Wild(_) => out.push(None),
                            _ => out.push(None),
                        }
                    }
                    pat_names(&arm.pat, &mut names);
                    let body = quote::ToTokens::to_token_stream(&arm.body).to_string();
                    for n in names {
                        match n {
                            Some(name) => match lit_of(&arm.body) {
                                Some(spec) if body.trim_start_matches(|c: char| c == '{' || c.is_whitespace()).starts_with("Some") => out.push(json!([name, spec])),
                                _ => out.push(json!([name, Value::Null])),
                            },
                            None => {
                                if body.trim() == "None" {
                                    default_none = true;
                                } else {
                                    out.push(json!(["<default>", body]));
                                }
                            }
                        }
                    }
                }
            }
        }
    }
    if !found {
        println!("{}", json!({"error": "add_rust_crate: no `let .. = match crate_name {..}` found"}));
    } else {
        println!("{}", json!({"table": out, "default_none": default_none}));
    }
    0
}

// ------------------------------------------------------------------------------------------------
// tree
// ------------------------------------------------------------------------------------------------

struct Conv {
    call_cache: HashMap<String, i64>,
    await_bits: i64,
    synth_model: Option<ModelDecl>,
}

fn sp<T>(node: T) -> Spanned<T> {
    Spanned::new(node, Span::default())
}

fn bits_of(p: &Program) -> i64 {
    let s = catch(|| detect_serde_usage(p)).unwrap_or(false) as i64;
    let a = catch(|| detect_async_usage(p)).unwrap_or(false) as i64;
    let w = catch(|| detect_web_usage(p)).unwrap_or(false) as i64;
    s | (a << 1) | (w << 2)
}

fn parse_src(src: &str) -> Result<Program, String> {
    let toks = incan::lexer::lex(src).map_err(|e| format!("lex: {}", e.first().map(|x| x.message.clone()).unwrap_or_default()))?;
    incan::parser::parse(&toks).map_err(|e| format!("parse: {}", e.first().map(|x| x.message.clone()).unwrap_or_default()))
}

fn node(kind: &str, tag: i64, label: &str, kids: Vec<(String, Value)>) -> Value {
    json!([kind, tag, label, kids.into_iter().map(|(s, c)| json!([s, c])).collect::<Vec<_>>()])
}

/// Declaration-level triggers computed from the AST alone (NOT through the scanners under test):
/// ANY `@derive(..)` decorator, ANY positional argument naming Serialize/Deserialize; ANY `@route`.
fn spec_decorator_bits(decorators: &[Spanned<Decorator>], allow_route: bool) -> i64 {
    use incan_core::lang::decorators::{self as decos, DecoratorId};
    use incan_core::lang::derives::{self, DeriveId};
    let mut bits = 0;
    for d in decorators {
        match decos::from_str(d.node.name.as_str()) {
            Some(DecoratorId::Derive) => {
                for a in &d.node.args {
                    if let DecoratorArg::Positional(e) = a {
                        if let Expr::Ident(n) = &e.node {
                            if matches!(derives::from_str(n.as_str()), Some(DeriveId::Serialize | DeriveId::Deserialize)) {
                                bits |= 1;
                            }
                        }
                    }
                }
            }
            Some(DecoratorId::Route) if allow_route => bits |= 4,
            _ => {}
        }
    }
    bits
}

impl Conv {
    fn new() -> Conv {
        let await_bits = parse_src("def f() -> None:\n  await g\n").map(|p| bits_of(&p)).unwrap_or(0);
        let synth_model = parse_src("model M__:\n  x: int\n").ok().and_then(|p| {
            p.declarations.into_iter().find_map(|d| if let Declaration::Model(m) = d.node { Some(m) } else { None })
        });
        Conv { call_cache: HashMap::new(), await_bits, synth_model }
    }

    fn call_bits(&mut self, name: &str) -> i64 {
        if let Some(b) = self.call_cache.get(name) {
            return *b;
        }
        let b = parse_src(&format!("def f() -> None:\n  {}()\n", name)).map(|p| bits_of(&p)).unwrap_or(0);
        self.call_cache.insert(name.to_string(), b);
        b
    }

    fn stmts(&mut self, slot: &str, body: &[Spanned<Statement>], out: &mut Vec<(String, Value)>) {
        for s in body {
            let v = self.stmt(&s.node);
            out.push((slot.to_string(), v));
        }
    }

    fn args(&mut self, slot: &str, args: &[CallArg], out: &mut Vec<(String, Value)>) {
        for a in args {
            match a {
                CallArg::Positional(e) => out.push((format!("{}.pos", slot), self.expr(&e.node))),
                CallArg::Named(_, e) => out.push((format!("{}.named", slot), self.expr(&e.node))),
            }
        }
    }

    fn stmt(&mut self, s: &Statement) -> Value {
        let mut k = vec![];
        let kind = match s {
            Statement::Assignment(a) => {
                k.push(("value".to_string(), self.expr(&a.value.node)));
                "S.Assignment"
            }
            Statement::FieldAssignment(a) => {
                k.push(("object".to_string(), self.expr(&a.object.node)));
                k.push(("value".to_string(), self.expr(&a.value.node)));
                "S.FieldAssignment"
            }
            Statement::IndexAssignment(a) => {
                k.push(("object".to_string(), self.expr(&a.object.node)));
                k.push(("index".to_string(), self.expr(&a.index.node)));
                k.push(("value".to_string(), self.expr(&a.value.node)));
                "S.IndexAssignment"
            }
            Statement::Return(e) => {
                if let Some(e) = e {
                    k.push(("0".to_string(), self.expr(&e.node)));
                }
                "S.Return"
            }
            Statement::If(i) => {
                k.push(("condition".to_string(), self.expr(&i.condition.node)));
                self.stmts("then_body", &i.then_body, &mut k);
                for (c, b) in &i.elif_branches {
                    k.push(("elif.cond".to_string(), self.expr(&c.node)));
                    self.stmts("elif.body", b, &mut k);
                }
                if let Some(b) = &i.else_body {
                    self.stmts("else_body", b, &mut k);
                }
                "S.If"
            }
            Statement::While(w) => {
                k.push(("condition".to_string(), self.expr(&w.condition.node)));
                self.stmts("body", &w.body, &mut k);
                "S.While"
            }
            Statement::For(f) => {
                k.push(("iter".to_string(), self.expr(&f.iter.node)));
                self.stmts("body", &f.body, &mut k);
                "S.For"
            }
            Statement::Expr(e) => {
                k.push(("0".to_string(), self.expr(&e.node)));
                "S.Expr"
            }
            Statement::Pass => "S.Pass",
            Statement::Break => "S.Break",
            Statement::Continue => "S.Continue",
            Statement::CompoundAssignment(a) => {
                k.push(("value".to_string(), self.expr(&a.value.node)));
                "S.CompoundAssignment"
            }
            Statement::TupleUnpack(a) => {
                k.push(("value".to_string(), self.expr(&a.value.node)));
                "S.TupleUnpack"
            }
            Statement::TupleAssign(a) => {
                for t in &a.targets {
                    k.push(("targets".to_string(), self.expr(&t.node)));
                }
                k.push(("value".to_string(), self.expr(&a.value.node)));
                "S.TupleAssign"
            }
            Statement::ChainedAssignment(a) => {
                k.push(("value".to_string(), self.expr(&a.value.node)));
                "S.ChainedAssignment"
            }
        };
        node(kind, 0, "", k)
    }

    fn expr(&mut self, e: &Expr) -> Value {
        let mut k = vec![];
        let mut tag = 0;
        let kind = match e {
            Expr::Ident(_) => "E.Ident",
            Expr::Literal(_) => "E.Literal",
            Expr::SelfExpr => "E.SelfExpr",
            Expr::Binary(l, _, r) => {
                k.push(("0".to_string(), self.expr(&l.node)));
                k.push(("2".to_string(), self.expr(&r.node)));
                "E.Binary"
            }
            Expr::Unary(_, x) => {
                k.push(("1".to_string(), self.expr(&x.node)));
                "E.Unary"
            }
            Expr::Call(f, args) => {
                let mut kind = "E.Call";
                if let Expr::Ident(name) = &f.node {
                    tag = self.call_bits(name);
                    // independent of the scanners: the builtin / surface tables of incan_core
                    match incan_core::lang::builtins::from_str(name.as_str()) {
                        Some(incan_core::lang::builtins::BuiltinFnId::JsonStringify) => tag |= 1,
                        Some(incan_core::lang::builtins::BuiltinFnId::Sleep) => tag |= 2,
                        _ => {}
                    }
                    if incan_core::lang::surface::functions::from_str(name.as_str()).is_some() {
                        tag |= 2;
                    }
                    // the async scanner returns early (arguments unscanned) for surface functions
                    if incan_core::lang::surface::functions::from_str(name.as_str()).is_some() {
                        kind = "E.CallSurface";
                    }
                }
                k.push(("0".to_string(), self.expr(&f.node)));
                self.args("1", args, &mut k);
                kind
            }
            Expr::Index(b, i) => {
                k.push(("0".to_string(), self.expr(&b.node)));
                k.push(("1".to_string(), self.expr(&i.node)));
                "E.Index"
            }
            Expr::Slice(b, sl) => {
                k.push(("0".to_string(), self.expr(&b.node)));
                if let Some(x) = &sl.start {
                    k.push(("start".to_string(), self.expr(&x.node)));
                }
                if let Some(x) = &sl.end {
                    k.push(("end".to_string(), self.expr(&x.node)));
                }
                if let Some(x) = &sl.step {
                    k.push(("step".to_string(), self.expr(&x.node)));
                }
                "E.Slice"
            }
            Expr::Field(b, _) => {
                k.push(("0".to_string(), self.expr(&b.node)));
                "E.Field"
            }
            Expr::MethodCall(b, _, args) => {
                k.push(("0".to_string(), self.expr(&b.node)));
                self.args("2", args, &mut k);
                "E.MethodCall"
            }
            Expr::Await(x) => {
                tag = self.await_bits | 2;
                k.push(("0".to_string(), self.expr(&x.node)));
                "E.Await"
            }
            Expr::Try(x) => {
                k.push(("0".to_string(), self.expr(&x.node)));
                "E.Try"
            }
            Expr::Match(sc, arms) => {
                k.push(("0".to_string(), self.expr(&sc.node)));
                for a in arms {
                    if let Some(g) = &a.node.guard {
                        k.push(("arm.guard".to_string(), self.expr(&g.node)));
                    }
                    match &a.node.body {
                        MatchBody::Expr(x) => k.push(("arm.expr".to_string(), self.expr(&x.node))),
                        MatchBody::Block(b) => self.stmts("arm.block", b, &mut k),
                    }
                }
                "E.Match"
            }
            Expr::If(i) => {
                k.push(("condition".to_string(), self.expr(&i.condition.node)));
                self.stmts("then_body", &i.then_body, &mut k);
                if let Some(b) = &i.else_body {
                    self.stmts("else_body", b, &mut k);
                }
                "E.If"
            }
            Expr::ListComp(c) => {
                k.push(("expr".to_string(), self.expr(&c.expr.node)));
                k.push(("iter".to_string(), self.expr(&c.iter.node)));
                if let Some(f) = &c.filter {
                    k.push(("filter".to_string(), self.expr(&f.node)));
                }
                "E.ListComp"
            }
            Expr::DictComp(c) => {
                k.push(("key".to_string(), self.expr(&c.key.node)));
                k.push(("value".to_string(), self.expr(&c.value.node)));
                k.push(("iter".to_string(), self.expr(&c.iter.node)));
                if let Some(f) = &c.filter {
                    k.push(("filter".to_string(), self.expr(&f.node)));
                }
                "E.DictComp"
            }
            Expr::Closure(ps, b) => {
                for p in ps {
                    if let Some(d) = &p.node.default {
                        k.push(("param.default".to_string(), self.expr(&d.node)));
                    }
                }
                k.push(("1".to_string(), self.expr(&b.node)));
                "E.Closure"
            }
            Expr::Tuple(xs) => {
                for x in xs {
                    k.push(("0".to_string(), self.expr(&x.node)));
                }
                "E.Tuple"
            }
            Expr::List(xs) => {
                for x in xs {
                    k.push(("0".to_string(), self.expr(&x.node)));
                }
                "E.List"
            }
            Expr::Set(xs) => {
                for x in xs {
                    k.push(("0".to_string(), self.expr(&x.node)));
                }
                "E.Set"
            }
            Expr::Dict(ps) => {
                for (a, b) in ps {
                    k.push(("k".to_string(), self.expr(&a.node)));
                    k.push(("v".to_string(), self.expr(&b.node)));
                }
                "E.Dict"
            }
            Expr::Paren(x) => {
                k.push(("0".to_string(), self.expr(&x.node)));
                "E.Paren"
            }
            Expr::Constructor(_, args) => {
                self.args("1", args, &mut k);
                "E.Constructor"
            }
            Expr::FString(parts) => {
                for p in parts {
                    if let FStringPart::Expr(x) = p {
                        k.push(("part".to_string(), self.expr(&x.node)));
                    }
                }
                "E.FString"
            }
            Expr::Yield(x) => {
                if let Some(x) = x {
                    k.push(("0".to_string(), self.expr(&x.node)));
                }
                "E.Yield"
            }
            Expr::Range { start, end, .. } => {
                k.push(("start".to_string(), self.expr(&start.node)));
                k.push(("end".to_string(), self.expr(&end.node)));
                "E.Range"
            }
        };
        node(kind, tag, "", k)
    }

    fn method(&mut self, m: &MethodDecl) -> Value {
        // trigger bits of the method alone: inside a synthetic model (a scanned position)
        let mut tag = 0;
        if let Some(sm) = &self.synth_model {
            let mut mm = sm.clone();
            let mut only = m.clone();
            only.body = Some(vec![]);
            only.params = vec![];
            mm.methods = vec![sp(only)];
            tag = bits_of(&Program { declarations: vec![sp(Declaration::Model(mm))] });
        }
        if m.is_async {
            tag |= 2;
        }
        let mut k = vec![];
        for p in &m.params {
            if let Some(d) = &p.node.default {
                k.push(("param.default".to_string(), self.expr(&d.node)));
            }
        }
        if let Some(b) = &m.body {
            self.stmts("body", b, &mut k);
        }
        node("D.Method", tag, "", k)
    }

    fn decl(&mut self, d: &Declaration) -> (String, Value) {
        match d {
            Declaration::Import(i) => {
                let mut tag = bits_of(&Program { declarations: vec![sp(d.clone())] });
                match &i.kind {
                    ImportKind::Module(p) if p.segments.first().map(|s| s.as_str()) == Some(incan_core::lang::stdlib::STDLIB_WEB) => tag |= 4,
                    ImportKind::From { module, .. } if module.segments.first().map(|s| s.as_str()) == Some(incan_core::lang::stdlib::STDLIB_WEB) => tag |= 4,
                    _ => {}
                }
                match &i.kind {
                    ImportKind::RustCrate { crate_name, .. } | ImportKind::RustFrom { crate_name, .. } => {
                        ("decl.rust_import".to_string(), node("D.RustImport", tag, crate_name, vec![]))
                    }
                    _ => ("decl.import".to_string(), node("D.Import", tag, "", vec![])),
                }
            }
            Declaration::Const(c) => {
                let k = vec![("value".to_string(), self.expr(&c.value.node))];
                ("decl.const".to_string(), node("D.Const", 0, "", k))
            }
            Declaration::Model(m) => {
                let mut alone = m.clone();
                alone.methods = vec![];
                for f in alone.fields.iter_mut() {
                    f.node.default = None;
                }
                let tag = bits_of(&Program { declarations: vec![sp(Declaration::Model(alone))] }) | spec_decorator_bits(&m.decorators, false);
                let mut k = vec![];
                for f in &m.fields {
                    if let Some(dv) = &f.node.default {
                        k.push(("field.default".to_string(), self.expr(&dv.node)));
                    }
                }
                for me in &m.methods {
                    k.push(("methods".to_string(), self.method(&me.node)));
                }
                ("decl.model".to_string(), node("D.Model", tag, "", k))
            }
            Declaration::Class(c) => {
                let mut alone = c.clone();
                alone.methods = vec![];
                for f in alone.fields.iter_mut() {
                    f.node.default = None;
                }
                let tag = bits_of(&Program { declarations: vec![sp(Declaration::Class(alone))] }) | spec_decorator_bits(&c.decorators, false);
                let mut k = vec![];
                for f in &c.fields {
                    if let Some(dv) = &f.node.default {
                        k.push(("field.default".to_string(), self.expr(&dv.node)));
                    }
                }
                for me in &c.methods {
                    k.push(("methods".to_string(), self.method(&me.node)));
                }
                ("decl.class".to_string(), node("D.Class", tag, "", k))
            }
            Declaration::Trait(t) => {
                let mut k = vec![];
                for me in &t.methods {
                    k.push(("methods".to_string(), self.method(&me.node)));
                }
                ("decl.trait".to_string(), node("D.Trait", 0, "", k))
            }
            Declaration::Newtype(n) => {
                let mut k = vec![];
                for me in &n.methods {
                    k.push(("methods".to_string(), self.method(&me.node)));
                }
                ("decl.newtype".to_string(), node("D.Newtype", 0, "", k))
            }
            Declaration::Enum(_) => ("decl.enum".to_string(), node("D.Enum", 0, "", vec![])),
            Declaration::Function(f) => {
                let mut alone = f.clone();
                alone.body = vec![];
                alone.params = vec![];
                let tag = bits_of(&Program { declarations: vec![sp(Declaration::Function(alone))] })
                    | spec_decorator_bits(&f.decorators, true)
                    | if f.is_async { 2 } else { 0 };
                let mut k = vec![];
                for p in &f.params {
                    if let Some(dv) = &p.node.default {
                        k.push(("param.default".to_string(), self.expr(&dv.node)));
                    }
                }
                self.stmts("body", &f.body, &mut k);
                ("decl.function".to_string(), node("D.Function", tag, "", k))
            }
            Declaration::Docstring(_) => ("decl.docstring".to_string(), node("D.Docstring", 0, "", vec![])),
        }
    }

    fn program(&mut self, p: &Program) -> Value {
        let mut k = vec![];
        for d in &p.declarations {
            k.push(self.decl(&d.node));
        }
        node("Program", 0, "", k)
    }
}

fn scan() -> i32 {
    let mut conv = Conv::new();
    let stdin = std::io::stdin();
    for line in stdin.lock().lines() {
        let Ok(line) = line else { break };
        if line.trim().is_empty() {
            continue;
        }
        let v: Value = match serde_json::from_str(&line) {
            Ok(v) => v,
            Err(e) => {
                println!("{}", json!({"ok": false, "err": format!("bad case json: {}", e)}));
                continue;
            }
        };
        let src = v["src"].as_str().unwrap_or("");
        let r = catch(|| parse_src(src));
        match r {
            Ok(Ok(p)) => {
                let tree = conv.program(&p);
                let real = [
                    catch(|| detect_serde_usage(&p)).unwrap_or(false),
                    catch(|| detect_async_usage(&p)).unwrap_or(false),
                    catch(|| detect_web_usage(&p)).unwrap_or(false),
                ];
                let crates = incan::cli::commands::collect_rust_crates(&p);
                println!("{}", json!({"ok": true, "tree": tree, "real": real, "crates": crates}));
            }
            Ok(Err(e)) => println!("{}", json!({"ok": false, "err": e})),
            Err(p) => println!("{}", json!({"ok": false, "err": format!("panic: {}", p)})),
        }
    }
    0
}

// ------------------------------------------------------------------------------------------------
// build + inspect
// ------------------------------------------------------------------------------------------------

fn walk_tokens(ts: proc_macro2::TokenStream, roots: &mut BTreeSet<String>, mods: &mut BTreeSet<String>) {
    use proc_macro2::TokenTree as TT;
    let toks: Vec<TT> = ts.into_iter().collect();
    let is_colon2 = |i: usize| -> bool {
        matches!((toks.get(i), toks.get(i + 1)), (Some(TT::Punct(a)), Some(TT::Punct(b))) if a.as_char() == ':' && b.as_char() == ':' && a.spacing() == proc_macro2::Spacing::Joint)
    };
    let mut skip_until = 0usize;
    for i in 0..toks.len() {
        if i < skip_until {
            continue;
        }
        // `use a::{b::c, d};` — only `a` starts a path; the nested names are not crate roots
        if let TT::Ident(id) = &toks[i] {
            if id == "use" {
                let end = (i..toks.len()).find(|&j| matches!(&toks[j], TT::Punct(p) if p.as_char() == ';')).unwrap_or(toks.len());
                if let Some(TT::Ident(root)) = toks[i + 1..end].iter().find(|t| matches!(t, TT::Ident(_))) {
                    roots.insert(root.to_string().trim_start_matches("r#").to_string());
                }
                skip_until = end;
                continue;
            }
        }
        match &toks[i] {
            TT::Group(g) => walk_tokens(g.stream(), roots, mods),
            TT::Ident(id) => {
                let name = id.to_string();
                if name == "mod" {
                    if let (Some(TT::Ident(m)), Some(TT::Punct(p))) = (toks.get(i + 1), toks.get(i + 2)) {
                        if p.as_char() == ';' || p.as_char() == '{' {
                            mods.insert(m.to_string());
                        }
                    }
                }
                if is_colon2(i + 1) {
                    // start of a path? not if preceded by `::` or `.`
                    let preceded = i >= 2 && is_colon2(i - 2);
                    let dotted = i >= 1 && matches!(&toks[i - 1], TT::Punct(p) if p.as_char() == '.');
                    if !preceded && !dotted {
                        roots.insert(name.trim_start_matches("r#").to_string());
                    }
                }
            }
            _ => {}
        }
    }
}

/// second segments of `incan_stdlib::<module>` paths (feature-gated modules: web, json)
fn stdlib_modules(ts: proc_macro2::TokenStream, out: &mut BTreeSet<String>) {
    use proc_macro2::TokenTree as TT;
    let toks: Vec<TT> = ts.into_iter().collect();
    for i in 0..toks.len() {
        match &toks[i] {
            TT::Group(g) => stdlib_modules(g.stream(), out),
            TT::Ident(id) if id == "incan_stdlib" => {
                if let (Some(TT::Punct(a)), Some(TT::Punct(b)), Some(TT::Ident(m))) = (toks.get(i + 1), toks.get(i + 2), toks.get(i + 3)) {
                    if a.as_char() == ':' && b.as_char() == ':' {
                        out.insert(m.to_string());
                    }
                }
            }
            _ => {}
        }
    }
}

fn rs_files(dir: &Path, out: &mut Vec<std::path::PathBuf>) {
    let Ok(rd) = std::fs::read_dir(dir) else { return };
    let mut es: Vec<_> = rd.flatten().map(|e| e.path()).collect();
    es.sort();
    for p in es {
        if p.is_dir() {
            rs_files(&p, out);
        } else if p.extension().is_some_and(|e| e == "rs") {
            out.push(p);
        }
    }
}

fn build() -> i32 {
    let stdin = std::io::stdin();
    for line in stdin.lock().lines() {
        let Ok(line) = line else { break };
        if line.trim().is_empty() {
            continue;
        }
        let v: Value = serde_json::from_str(&line).unwrap_or(Value::Null);
        let entry = v["entry"].as_str().unwrap_or("").to_string();
        let out = v["out"].as_str().unwrap_or("").to_string();
        let _ = std::fs::remove_dir_all(&out);
        let r = catch(|| incan::cli::commands::build_file(&entry, Some(&out)));
        let (ok, err) = match r {
            Ok(Ok(code)) => (code.0 == 0, String::new()),
            Ok(Err(e)) => (false, e.message),
            Err(p) => (false, format!("panic: {}", p)),
        };
        let manifest = std::fs::read_to_string(Path::new(&out).join("Cargo.toml")).ok();
        let mut roots = BTreeSet::new();
        let mut mods = BTreeSet::new();
        let mut stdlib_mods = BTreeSet::new();
        let mut files: BTreeMap<String, usize> = BTreeMap::new();
        let mut unparsed = vec![];
        let mut fs = vec![];
        rs_files(&Path::new(&out).join("src"), &mut fs);
        for f in fs {
            let rel = f.strip_prefix(&out).unwrap_or(&f).to_string_lossy().to_string();
            let Ok(text) = std::fs::read_to_string(&f) else { continue };
            files.insert(rel.clone(), text.len());
            if syn::parse_file(&text).is_err() {
                unparsed.push(rel.clone());
            }
            match proc_macro2::TokenStream::from_str(&text) {
                Ok(ts) => {
                    stdlib_modules(ts.clone(), &mut stdlib_mods);
                    walk_tokens(ts, &mut roots, &mut mods)
                }
                Err(_) => unparsed.push(rel),
            }
        }
        println!(
            "@@C15 {}",
            json!({"ok": ok, "err": err, "manifest": manifest, "roots": roots, "mods": mods, "stdlib_mods": stdlib_mods, "files": files, "unparsed": unparsed})
        );
    }
    0
}

/// Direct use of the manifest writer: stdin lines {"name","bin","serde","tokio","axum","crates":[[name, spec|null]..],"out"}.
/// `null` spec = add_rust_crate (table lookup, may be refused), otherwise add_rust_crate_with_version.
fn gen() -> i32 {
    let stdin = std::io::stdin();
    for line in stdin.lock().lines() {
        let Ok(line) = line else { break };
        if line.trim().is_empty() {
            continue;
        }
        let v: Value = serde_json::from_str(&line).unwrap_or(Value::Null);
        let out = v["out"].as_str().unwrap_or("").to_string();
        let _ = std::fs::remove_dir_all(&out);
        let r = catch(|| {
            let mut g = incan::ProjectGenerator::new(&out, v["name"].as_str().unwrap_or(""), v["bin"].as_bool().unwrap_or(true));
            g.set_needs_serde(v["serde"].as_bool().unwrap_or(false));
            g.set_needs_tokio(v["tokio"].as_bool().unwrap_or(false));
            g.set_needs_axum(v["axum"].as_bool().unwrap_or(false));
            let mut refused: Vec<String> = vec![];
            for c in v["crates"].as_array().cloned().unwrap_or_default() {
                let name = c[0].as_str().unwrap_or("").to_string();
                match c[1].as_str() {
                    Some(spec) => g.add_rust_crate_with_version(&name, spec),
                    None => {
                        if g.add_rust_crate(&name).is_err() {
                            refused.push(name);
                        }
                    }
                }
            }
            let ok = g.generate("").is_ok();
            (ok, refused)
        });
        let manifest = std::fs::read_to_string(Path::new(&out).join("Cargo.toml")).ok();
        let files: Vec<String> = {
            let mut fs = vec![];
            rs_files(&Path::new(&out).join("src"), &mut fs);
            fs.iter().map(|f| f.strip_prefix(&out).unwrap_or(f).to_string_lossy().to_string()).collect()
        };
        match r {
            Ok((ok, refused)) => println!("@@C15 {}", json!({"ok": ok, "refused": refused, "manifest": manifest, "files": files})),
            Err(p) => println!("@@C15 {}", json!({"ok": false, "err": format!("panic: {}", p), "manifest": manifest, "files": files})),
        }
    }
    0
}

pub fn run(args: &[String]) {
    let code = match args.first().map(|s| s.as_str()).unwrap_or("") {
        "table" => table(args.get(1).map(|s| s.as_str()).unwrap_or("/repo")),
        "scan" => scan(),
        "build" => build(),
        "gen" => gen(),
        other => {
            eprintln!("c15: unknown mode {:?} (table|scan|build)", other);
            2
        }
    };
    std::process::exit(code);
}
