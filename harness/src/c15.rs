//! C15 runner (stub). Replace the body; keep the signature `pub fn run(args: &[String])`.
#[allow(unused_imports)]
use crate::common::{catch, each_line, opt_i64};

pub fn run(_args: &[String]) {
    eprintln!("c15: runner not implemented");
    std::process::exit(2);
}
