//! C08/C09: drive the REAL lexer, parser and formatter of /repo.
//! Input: one JSON object per line `{"op": ..., "src": ...}`; output: one JSON object per line.
//!
//! op "decls": parse `src`; for every top-level declaration d: format the one-declaration program
//!   with the real `Formatter`, re-lex/re-parse the text, compare the span-erased AST with
//!   `norm(transforms(d))` (documented normalisation + the listed meaning-changing finding classes,
//!   each applied to a clone of the ORIGINAL AST and reported only when it changed something), format
//!   the output again (idempotence), check text hygiene.  Also the whole file through `format_source`
//!   (compositionality with the blank-line policy, idempotence, hygiene, `check_formatted`,
//!   `format_diff`).
//! op "tie": `src` is `def f() -> None:` + simple statements; returns the real lexer's tokens of the
//!   source body, the tokens of the formatted body, and the parsed statements as JSON (core subset).
use crate::common::{catch, each_line};
use incan::ast::*;
use incan::format::{FormatConfig, Formatter};
use incan::lexer::{self, TokenKind};
use incan::parser;
use serde_json::{json, Value};
use std::collections::BTreeSet;

// ---------------------------------------------------------------------------------- dumps

/// Debug dump with every `Span { start: a, end: b }` replaced by `_`.
fn erase_spans(s: &str) -> String {
    let pat = "Span { start: ";
    let mut out = String::with_capacity(s.len());
    let mut rest = s;
    while let Some(i) = rest.find(pat) {
        out.push_str(&rest[..i]);
        let tail = &rest[i..];
        match tail.find(" }") {
            Some(j) => {
                out.push('_');
                rest = &tail[j + 2..];
            }
            None => {
                out.push_str(tail);
                rest = "";
            }
        }
    }
    out.push_str(rest);
    out
}

fn dump<T: std::fmt::Debug>(t: &T) -> String {
    erase_spans(&format!("{:?}", t))
}

/// Constructor names and `field: Some/None` tags appearing in a Debug dump (coverage evidence).
fn tags(d: &str, acc: &mut BTreeSet<String>) {
    let b = d.as_bytes();
    let mut i = 0;
    let mut in_str = false;
    while i < b.len() {
        let c = b[i];
        if in_str {
            if c == b'\\' {
                i += 2;
                continue;
            }
            if c == b'"' {
                in_str = false;
            }
            i += 1;
            continue;
        }
        if c == b'"' {
            in_str = true;
            i += 1;
            continue;
        }
        if c.is_ascii_alphabetic() || c == b'_' {
            let st = i;
            while i < b.len() && (b[i].is_ascii_alphanumeric() || b[i] == b'_') {
                i += 1;
            }
            let w = &d[st..i];
            if b[st].is_ascii_uppercase() {
                acc.insert(w.to_string());
            } else if i + 6 <= b.len() && &d[i..i + 2] == ": " {
                if d[i + 2..].starts_with("Some(") {
                    acc.insert(format!("{}:Some", w));
                } else if d[i + 2..].starts_with("None") {
                    acc.insert(format!("{}:None", w));
                } else if d[i + 2..].starts_with("[]") {
                    acc.insert(format!("{}:[]", w));
                } else if d[i + 2..].starts_with("[") {
                    acc.insert(format!("{}:[..]", w));
                } else if d[i + 2..].starts_with("true") {
                    acc.insert(format!("{}:true", w));
                } else if d[i + 2..].starts_with("false") {
                    acc.insert(format!("{}:false", w));
                }
            }
            continue;
        }
        i += 1;
    }
}

// ---------------------------------------------------------------------------------- AST walk

/// Ladder level of an expression's top node (parser/expr.rs): 0 or, 1 and, 2 not, 3 comparison,
/// 4 range, 5 additive, 6 multiplicative, 7 power, 8 unary, 9 postfix/primary.
fn lvl(e: &Expr) -> u8 {
    match e {
        Expr::Binary(_, op, _) => match op {
            BinaryOp::Or => 0,
            BinaryOp::And => 1,
            BinaryOp::Eq | BinaryOp::NotEq | BinaryOp::Lt | BinaryOp::Gt | BinaryOp::LtEq | BinaryOp::GtEq
            | BinaryOp::In | BinaryOp::NotIn | BinaryOp::Is => 3,
            BinaryOp::Add | BinaryOp::Sub => 5,
            BinaryOp::Mul | BinaryOp::Div | BinaryOp::FloorDiv | BinaryOp::Mod => 6,
            BinaryOp::Pow => 7,
        },
        Expr::Unary(UnaryOp::Not, _) => 2,
        Expr::Range { .. } => 4,
        Expr::Unary(UnaryOp::Neg, _) | Expr::Await(_) => 8,
        // greedy primaries: swallow everything to their right
        Expr::Yield(Some(_)) | Expr::Closure(..) => 0,
        _ => 9,
    }
}

struct Walk {
    /// apply the meaning-changing transforms (else only collect)
    apply: bool,
    /// ids of transforms that changed something / features found
    hits: BTreeSet<&'static str>,
    in_fstring: u32,
    /// number of match arms with a block body (each prints `pattern => ` + newline)
    block_arms: u32,
    /// number of `if` expressions (each prints `cond if ` and stops)
    if_exprs: u32,
}

fn float_display_int(f: f64) -> Option<Option<i64>> {
    let s = f.to_string();
    if s.contains('.') {
        None
    } else {
        Some(s.parse::<i64>().ok())
    }
}

impl Walk {
    fn lit(&mut self, l: &mut Literal) {
        if self.in_fstring > 0 {
            // a string inside an f-string expression is printed with `"`; the lexer's brace scanner does not look at
            // quotes, so only braces inside such a string confuse it
            if let Literal::String(t) = l {
                if t.contains('{') || t.contains('}') {
                    self.hits.insert("F:fmt-fstring-nested-brace");
                }
            }
        }
        match l {
            Literal::Float(f) => {
                // a literal such as 1e999 lexes to infinity, which is printed `inf` (an identifier)
                if !f.is_finite() {
                    self.hits.insert("F:fmt-float-nonfinite");
                }
            }
            _ => {}
        }
    }

    fn ty(&mut self, t: &mut Spanned<Type>) {
        match &mut t.node {
            Type::Simple(_) | Type::SelfType => {}
            Type::Generic(_, args) => args.iter_mut().for_each(|a| self.ty(a)),
            Type::Function(ps, r) => {
                ps.iter_mut().for_each(|a| self.ty(a));
                self.ty(r);
            }
            Type::Unit => {}
            Type::Tuple(ts) => ts.iter_mut().for_each(|a| self.ty(a)),
        }
    }

    fn params(&mut self, ps: &mut Vec<Spanned<Param>>) {
        for p in ps.iter_mut() {
            self.ty(&mut p.node.ty);
            if let Some(d) = &mut p.node.default {
                self.expr(d);
            }
        }
    }

    fn args(&mut self, args: &mut Vec<CallArg>) {
        for a in args.iter_mut() {
            match a {
                CallArg::Positional(e) | CallArg::Named(_, e) => self.expr(e),
            }
        }
    }

    /// A `match` (or `if`) expression followed by more text of the same statement: the parser lets the
    /// line after the arms continue the expression (`match ..` newline arms, then `- 1`), the printer
    /// then writes the continuation at line start with indentation + " - 1".
    fn match_operand(&mut self, e: &Spanned<Expr>) {
        let mut x = &e.node;
        loop {
            match x {
                Expr::Match(..) | Expr::If(..) => {
                    self.hits.insert("F:fmt-match-operand");
                    return;
                }
                // the printed text of these ends with the text of the sub-expression
                Expr::Binary(_, _, r) => x = &r.node,
                Expr::Unary(_, r) | Expr::Await(r) => x = &r.node,
                Expr::Range { end, .. } => x = &end.node,
                _ => return,
            }
        }
    }

    fn pattern(&mut self, p: &mut Spanned<Pattern>) {
        match &mut p.node {
            Pattern::Wildcard | Pattern::Binding(_) => {}
            Pattern::Literal(l) => self.lit(l),
            Pattern::Constructor(name, ps) => {
                let _ = name;
                ps.iter_mut().for_each(|q| self.pattern(q));
            }
            Pattern::Tuple(ps) => ps.iter_mut().for_each(|q| self.pattern(q)),
        }
    }

    fn block(&mut self, b: &mut Vec<Spanned<Statement>>) {
        b.iter_mut().for_each(|s| self.stmt(s));
    }

    fn expr(&mut self, e: &mut Spanned<Expr>) {
        match &mut e.node {
            Expr::Ident(_) | Expr::SelfExpr => {}
            Expr::Literal(l) => self.lit(l),
            Expr::Binary(l, _, r) => {
                self.match_operand(l);
                self.expr(l);
                self.expr(r);
            }
            Expr::Try(x) => {
                self.match_operand(x);
                self.expr(x)
            }
            Expr::Unary(_, x) | Expr::Await(x) | Expr::Paren(x) => self.expr(x),
            Expr::Call(f, args) => {
                self.match_operand(f);
                self.expr(f);
                self.args(args);
            }
            Expr::Index(b, i) => {
                self.match_operand(b);
                self.expr(b);
                self.expr(i);
            }
            Expr::Slice(b, s) => {
                self.match_operand(b);
                self.expr(b);
                if s.end.is_none() && s.step.is_some() {
                    self.hits.insert("F:colon-colon");
                }
                for x in [&mut s.start, &mut s.end, &mut s.step].into_iter().flatten() {
                    self.expr(x);
                }
            }
            Expr::Field(b, _) => {
                self.match_operand(b);
                self.expr(b)
            }
            Expr::MethodCall(b, _, args) => {
                self.match_operand(b);
                self.expr(b);
                self.args(args);
            }
            Expr::Match(v, arms) => {
                self.expr(v);
                for arm in arms.iter_mut() {
                    self.pattern(&mut arm.node.pattern);
                    if let Some(g) = &mut arm.node.guard {
                        self.expr(g);
                    }
                    match &mut arm.node.body {
                        MatchBody::Expr(x) => self.expr(x),
                        MatchBody::Block(b) => {
                            self.block_arms += 1;
                            self.block(b)
                        }
                    }
                }
            }
            Expr::If(ie) => {
                self.if_exprs += 1;
                self.expr(&mut ie.condition);
                self.block(&mut ie.then_body);
                if let Some(b) = &mut ie.else_body {
                    self.block(b);
                }
            }
            Expr::ListComp(c) => {
                self.expr(&mut c.expr);
                self.expr(&mut c.iter);
                if let Some(f) = &mut c.filter {
                    self.expr(f);
                }
            }
            Expr::DictComp(c) => {
                self.expr(&mut c.key);
                self.expr(&mut c.value);
                self.expr(&mut c.iter);
                if let Some(f) = &mut c.filter {
                    self.expr(f);
                }
            }
            Expr::Closure(ps, body) => {
                self.params(ps);
                self.expr(body);
            }
            Expr::Tuple(xs) | Expr::List(xs) | Expr::Set(xs) => xs.iter_mut().for_each(|x| self.expr(x)),
            Expr::Dict(kvs) => {
                for (k, v) in kvs.iter_mut() {
                    self.expr(k);
                    self.expr(v);
                }
            }
            Expr::Constructor(_, args) => self.args(args),
            Expr::FString(parts) => {
                for p in parts.iter_mut() {
                    match p {
                        FStringPart::Literal(_) => {}
                        FStringPart::Expr(x) => {
                            self.in_fstring += 1;
                            self.expr(x);
                            self.in_fstring -= 1;
                        }
                    }
                }
            }
            Expr::Yield(x) => {
                if let Some(x) = x {
                    self.expr(x);
                }
            }
            Expr::Range { start, end, .. } => {
                self.match_operand(start);
                self.expr(start);
                self.expr(end);
            }
        }
    }

    /// `a.f op= rhs` / `a[i] op= rhs` are desugared by the parser into `a.f = a.f op rhs` WITHOUT a
    /// Paren node around rhs; the printed text re-associates when rhs binds no tighter than op.
    fn desugared(&mut self, target_is: impl Fn(&Expr) -> bool, value: &Spanned<Expr>) {
        if let Expr::Binary(l, op, r) = &value.node {
            let l_op = lvl(&Expr::Binary(l.clone(), *op, r.clone()));
            if (l_op == 5 || l_op == 6) && l.span == value.span && target_is(&l.node) && lvl(&r.node) <= l_op {
                self.hits.insert("F:fmt-compound-desugar");
            }
        }
    }

    fn stmt(&mut self, s: &mut Spanned<Statement>) {
        match &mut s.node {
            Statement::Assignment(a) => {
                if let Some(t) = &mut a.ty {
                    self.ty(t);
                }
                self.expr(&mut a.value);
            }
            Statement::FieldAssignment(a) => {
                let (o, f) = (dump(&a.object.node), a.field.clone());
                self.desugared(
                    |l| matches!(l, Expr::Field(b, g) if *g == f && dump(&b.node) == o),
                    &a.value,
                );
                self.expr(&mut a.object);
                self.expr(&mut a.value);
            }
            Statement::IndexAssignment(a) => {
                let (o, ix) = (dump(&a.object.node), dump(&a.index.node));
                self.desugared(
                    |l| matches!(l, Expr::Index(b, j) if dump(&b.node) == o && dump(&j.node) == ix),
                    &a.value,
                );
                self.expr(&mut a.object);
                self.expr(&mut a.index);
                self.expr(&mut a.value);
            }
            Statement::Return(e) => {
                if let Some(e) = e {
                    self.expr(e);
                }
            }
            Statement::If(i) => {
                self.expr(&mut i.condition);
                self.block(&mut i.then_body);
                for (c, b) in i.elif_branches.iter_mut() {
                    self.expr(c);
                    self.block(b);
                }
                if let Some(b) = &mut i.else_body {
                    self.block(b);
                }
            }
            Statement::While(w) => {
                self.expr(&mut w.condition);
                self.block(&mut w.body);
            }
            Statement::For(f) => {
                self.expr(&mut f.iter);
                self.block(&mut f.body);
            }
            Statement::Expr(e) => self.expr(e),
            Statement::Pass | Statement::Break | Statement::Continue => {}
            Statement::CompoundAssignment(c) => self.expr(&mut c.value),
            Statement::TupleUnpack(u) => self.expr(&mut u.value),
            Statement::TupleAssign(t) => {
                t.targets.iter_mut().for_each(|x| self.expr(x));
                self.expr(&mut t.value);
            }
            Statement::ChainedAssignment(c) => self.expr(&mut c.value),
        }
    }

    fn decorators(&mut self, ds: &mut Vec<Spanned<Decorator>>) {
        for d in ds.iter_mut() {
            for a in d.node.args.iter_mut() {
                match a {
                    DecoratorArg::Positional(e) => self.expr(e),
                    DecoratorArg::Named(_, DecoratorArgValue::Expr(e)) => self.expr(e),
                    DecoratorArg::Named(_, DecoratorArgValue::Type(t)) => self.ty(t),
                }
            }
        }
    }

    fn method(&mut self, m: &mut Spanned<MethodDecl>) {
        self.decorators(&mut m.node.decorators);
        self.params(&mut m.node.params);
        self.ty(&mut m.node.return_type);
        if let Some(b) = &mut m.node.body {
            self.block(b);
        }
    }

    fn fields(&mut self, fs: &mut Vec<Spanned<FieldDecl>>) {
        for f in fs.iter_mut() {
            self.ty(&mut f.node.ty);
            if let Some(d) = &mut f.node.default {
                self.expr(d);
            }
        }
    }

    fn decl(&mut self, d: &mut Declaration) {
        match d {
            Declaration::Import(_) => {}
            Declaration::Const(c) => {
                if let Some(t) = &mut c.ty {
                    self.ty(t);
                }
                self.expr(&mut c.value);
            }
            Declaration::Model(m) => {
                self.decorators(&mut m.decorators);
                self.fields(&mut m.fields);
                m.methods.iter_mut().for_each(|x| self.method(x));
            }
            Declaration::Class(m) => {
                self.decorators(&mut m.decorators);
                self.fields(&mut m.fields);
                m.methods.iter_mut().for_each(|x| self.method(x));
            }
            Declaration::Trait(t) => {
                self.decorators(&mut t.decorators);
                t.methods.iter_mut().for_each(|x| self.method(x));
            }
            Declaration::Newtype(n) => {
                self.ty(&mut n.underlying);
                n.methods.iter_mut().for_each(|x| self.method(x));
            }
            Declaration::Enum(e) => {
                for v in e.variants.iter_mut() {
                    v.node.fields.iter_mut().for_each(|t| self.ty(t));
                }
            }
            Declaration::Function(f) => {
                self.decorators(&mut f.decorators);
                self.params(&mut f.params);
                self.ty(&mut f.return_type);
                self.block(&mut f.body);
            }
            Declaration::Docstring(s) => {
                if s.trim() != s.as_str() {
                    self.hits.insert("N:docstring-trim");
                    if self.apply {
                        *s = s.trim().to_string();
                    }
                }
            }
        }
    }
}

/// Replace every named decorator argument's value by a placeholder (applied to BOTH sides when
/// the declaration carries the `name: Type` decorator form, which is printed `name=Type`).
fn mask_decorators(d: &mut Declaration) {
    fn m(ds: &mut Vec<Spanned<Decorator>>) {
        for d in ds.iter_mut() {
            for a in d.node.args.iter_mut() {
                if let DecoratorArg::Named(_, v) = a {
                    *v = DecoratorArgValue::Expr(Spanned::new(Expr::Ident("<named-arg>".into()), Span::default()));
                }
            }
        }
    }
    fn mm(ms: &mut Vec<Spanned<MethodDecl>>) {
        ms.iter_mut().for_each(|x| m(&mut x.node.decorators));
    }
    match d {
        Declaration::Model(x) => {
            m(&mut x.decorators);
            mm(&mut x.methods)
        }
        Declaration::Class(x) => {
            m(&mut x.decorators);
            mm(&mut x.methods)
        }
        Declaration::Trait(x) => {
            m(&mut x.decorators);
            mm(&mut x.methods)
        }
        Declaration::Newtype(x) => mm(&mut x.methods),
        Declaration::Function(x) => m(&mut x.decorators),
        _ => {}
    }
}

// ---------------------------------------------------------------------------------- helpers

fn parse_src(src: &str) -> Result<Program, String> {
    let toks = lexer::lex(src).map_err(|e| format!("lex: {}", e.iter().map(|x| x.message.clone()).collect::<Vec<_>>().join("; ")))?;
    parser::parse(&toks).map_err(|e| format!("parse: {}", e.iter().map(|x| x.message.clone()).collect::<Vec<_>>().join("; ")))
}

thread_local! {
    /// (indent_width, line_length) of the current request; (4, 120) is FormatConfig::default()
    static CFG: std::cell::Cell<(usize, usize)> = std::cell::Cell::new((4, 120));
}

fn cfg() -> FormatConfig {
    let (w, l) = CFG.with(|c| c.get());
    FormatConfig::default().with_indent_width(w).with_line_length(l)
}

fn default_cfg() -> bool {
    CFG.with(|c| c.get()) == (4, 120)
}

fn fmt_prog(p: &Program) -> String {
    Formatter::new(cfg()).format(p)
}

/// the public entry point with the request's configuration
fn fmt_src(src: &str) -> Result<String, incan::format::FormatError> {
    if default_cfg() {
        incan::format_source(src)
    } else {
        incan::format_source_with_config(src, cfg())
    }
}

/// Hygiene of a formatted text: (#final newlines, tabs outside string tokens, lines with trailing
/// blanks outside string tokens). String tokens are located with the real lexer.
fn hygiene(text: &str) -> Value {
    let finals = text.len() - text.trim_end_matches('\n').len();
    let mut in_string = vec![false; text.len() + 1];
    let lexed = lexer::lex(text);
    if let Ok(toks) = &lexed {
        for t in toks {
            if matches!(t.kind, TokenKind::String(_) | TokenKind::Bytes(_) | TokenKind::FString(_)) {
                for i in t.span.start..t.span.end.min(text.len()) {
                    in_string[i] = true;
                }
            }
        }
    }
    let mut tabs = 0;
    let mut trailing = 0;
    let mut first_bad: Option<String> = None;
    let mut off = 0;
    for line in text.split('\n') {
        for (i, c) in line.char_indices() {
            if c == '\t' && !in_string[off + i] {
                tabs += 1;
                first_bad.get_or_insert_with(|| line.to_string());
            }
        }
        if let Some(c) = line.chars().last() {
            let pos = off + line.len() - c.len_utf8();
            if (c == ' ' || c == '\t' || c == '\r') && !in_string[pos] {
                trailing += 1;
                first_bad.get_or_insert_with(|| line.to_string());
            }
        }
        off += line.len() + 1;
    }
    json!({"final_newlines": finals, "tabs": tabs, "trailing": trailing, "lexed": lexed.is_ok(), "bad_line": first_bad})
}

fn first_diff(a: &str, b: &str) -> Value {
    let n = a.bytes().zip(b.bytes()).take_while(|(x, y)| x == y).count();
    let lo = |s: &str| {
        let mut st = n.saturating_sub(60);
        while !s.is_char_boundary(st) {
            st -= 1;
        }
        let mut en = (n + 100).min(s.len());
        while !s.is_char_boundary(en) {
            en += 1;
        }
        s[st..en].to_string()
    };
    json!([lo(a), lo(b)])
}

/// How many extra newlines the printer leaves at the very end of a declaration: a `match` whose arms
/// end the declaration is followed by the newline of the statement that contains it, once per nesting.
fn tail_expr(e: &Expr) -> u32 {
    match e {
        Expr::Match(_, arms) => {
            1 + match arms.last().map(|a| &a.node.body) {
                Some(MatchBody::Block(b)) => trail(b),
                Some(MatchBody::Expr(x)) => tail_expr(&x.node),
                None => 0,
            }
        }
        // an `if` expression is printed in block form and, like `match`, ends its own last line
        Expr::If(ie) => 1 + trail(ie.else_body.as_deref().unwrap_or(&ie.then_body)),
        _ => 0,
    }
}

fn trail(b: &[Spanned<Statement>]) -> u32 {
    match b.last().map(|s| &s.node) {
        Some(Statement::Expr(e)) | Some(Statement::Return(Some(e))) => tail_expr(&e.node),
        Some(Statement::Assignment(a)) => tail_expr(&a.value.node),
        Some(Statement::If(i)) => {
            if let Some(eb) = &i.else_body {
                trail(eb)
            } else if let Some((_, eb)) = i.elif_branches.last() {
                trail(eb)
            } else {
                trail(&i.then_body)
            }
        }
        Some(Statement::While(w)) => trail(&w.body),
        Some(Statement::For(f)) => trail(&f.body),
        _ => 0,
    }
}

fn decl_trail(d: &Declaration) -> u32 {
    let m = |ms: &Vec<Spanned<MethodDecl>>| ms.last().and_then(|x| x.node.body.as_ref()).map(|b| trail(b)).unwrap_or(0);
    match d {
        Declaration::Function(f) => trail(&f.body),
        Declaration::Model(x) => m(&x.methods),
        Declaration::Class(x) => m(&x.methods),
        Declaration::Trait(x) => m(&x.methods),
        Declaration::Newtype(x) => m(&x.methods),
        Declaration::Const(c) => tail_expr(&c.value.node),
        _ => 0,
    }
}

fn decl_kind(d: &Declaration) -> &'static str {
    match d {
        Declaration::Import(_) => "Import",
        Declaration::Const(_) => "Const",
        Declaration::Model(_) => "Model",
        Declaration::Class(_) => "Class",
        Declaration::Trait(_) => "Trait",
        Declaration::Newtype(_) => "Newtype",
        Declaration::Enum(_) => "Enum",
        Declaration::Function(_) => "Function",
        Declaration::Docstring(_) => "Docstring",
    }
}

fn check_decl(d: &Spanned<Declaration>, want_text: bool) -> Value {
    let one = Program { declarations: vec![d.clone()] };
    let text = fmt_prog(&one);
    // features / transforms of the ORIGINAL declaration
    let mut w = Walk { apply: true, hits: BTreeSet::new(), in_fstring: 0, block_arms: 0, if_exprs: 0 };
    let mut expect = d.node.clone();
    w.decl(&mut expect);
    let mask = w.hits.contains("M:fmt-decorator-type-arg");
    if mask {
        mask_decorators(&mut expect);
    }
    let raw = dump(&d.node);
    let exp = dump(&expect);
    let mut out = json!({"kind": decl_kind(&d.node), "classes": w.hits.iter().collect::<Vec<_>>(), "hyg": hygiene(&text),
                         "block_arms": w.block_arms, "if_exprs": w.if_exprs, "trail": decl_trail(&d.node)});
    if want_text {
        out["text"] = json!(text);
    }
    match parse_src(&text) {
        Err(e) => {
            out["reparse"] = json!(e);
            out["text"] = json!(text);
        }
        Ok(p2) => {
            out["reparse"] = json!("ok");
            if p2.declarations.len() != 1 {
                out["equal"] = json!(false);
                out["equal_raw"] = json!(false);
                out["diff"] = json!([format!("1 declaration"), format!("{} declarations", p2.declarations.len())]);
                out["text"] = json!(text);
            } else {
                let mut got = p2.declarations[0].node.clone();
                let got_raw = dump(&got);
                if let Declaration::Docstring(s) = &mut got {
                    // documented normalisation: docstring whitespace is trimmed (multi-line form re-parses with
                    // the newlines that follow/precede the quotes)
                    *s = s.trim().to_string();
                }
                if mask {
                    mask_decorators(&mut got);
                }
                let got_d = dump(&got);
                out["equal_raw"] = json!(got_raw == raw);
                out["equal"] = json!(got_d == exp);
                if got_d != exp {
                    out["diff"] = first_diff(&exp, &got_d);
                    out["text"] = json!(text);
                }
            }
            let text2 = fmt_prog(&p2);
            out["idem"] = json!(text2 == text);
            if text2 != text {
                out["idem_diff"] = first_diff(&text, &text2);
            }
        }
    }
    out
}

fn op_decls(src: &str, want_text: bool) -> Value {
    let prog = match parse_src(src) {
        Ok(p) => p,
        Err(e) => return json!({"parse": e}),
    };
    let mut tagset = BTreeSet::new();
    tags(&dump(&prog), &mut tagset);
    let decls: Vec<Value> = prog.declarations.iter().map(|d| check_decl(d, want_text)).collect();
    // whole file through the public entry points
    let whole = fmt_src(src);
    let mut wj = json!({});
    match whole {
        Err(e) => wj["fmt"] = json!(format!("error: {}", e)),
        Ok(text) => {
            // compositionality: format_program = declarations joined by the blank-line policy + "\n"
            // each declaration ends its own last line (plus one blank line per trailing `match`, which is
            // trimmed only at the end of the file)
            let mut joined = String::new();
            let mut prev_doc = false;
            let n = prog.declarations.len();
            for (i, d) in prog.declarations.iter().enumerate() {
                if i > 0 {
                    joined.push_str(if prev_doc { "\n" } else { "\n\n" });
                }
                prev_doc = matches!(d.node, Declaration::Docstring(_));
                let t = fmt_prog(&Program { declarations: vec![d.clone()] });
                joined.push_str(t.trim_end_matches('\n'));
                joined.push('\n');
                if i + 1 < n {
                    for _ in 0..decl_trail(&d.node) {
                        joined.push('\n');
                    }
                }
            }
            if joined.trim_matches('\n').is_empty() {
                joined.clear();
            }
            wj["compositional"] = json!(joined == text);
            wj["hyg"] = hygiene(&text);
            wj["check_formatted_src"] = if default_cfg() { json!(incan::check_formatted(src).ok()) } else { json!(src == text) };
            wj["src_eq_fmt"] = json!(src == text);
            wj["diff_is_none"] = if default_cfg() { json!(incan::format_diff(src).ok().map(|d| d.is_none())) } else { json!(src == text) };
            match fmt_src(&text) {
                Ok(t2) => {
                    wj["idem"] = json!(t2 == text);
                    wj["check_formatted_out"] = if default_cfg() { json!(incan::check_formatted(&text).ok()) } else { json!(t2 == text) };
                    if t2 != text {
                        wj["idem_diff"] = first_diff(&text, &t2);
                    }
                }
                Err(e) => wj["refmt"] = json!(format!("error: {}", e).chars().take(300).collect::<String>()),
            }
            if want_text {
                wj["text"] = json!(text);
            }
        }
    }
    // the whole formatted file re-parses into the same declarations as the one-declaration programs do
    if let Some(text) = fmt_src(src).ok() {
        let per: Option<Vec<String>> = prog
            .declarations
            .iter()
            .map(|d| parse_src(&fmt_prog(&Program { declarations: vec![d.clone()] })).ok().filter(|p| p.declarations.len() == 1).map(|p| dump(&p.declarations[0].node)))
            .collect();
        if let Some(per) = per {
            wj["reparse_consistent"] = match parse_src(&text) {
                Ok(p) => json!(p.declarations.iter().map(|d| dump(&d.node)).collect::<Vec<_>>() == per),
                Err(e) => json!(e),
            };
        }
    }
    json!({"parse": "ok", "n": prog.declarations.len(), "decls": decls, "whole": wj, "tags": tagset.iter().collect::<Vec<_>>()})
}

// ---------------------------------------------------------------------------------- tie

fn tok_json(k: &TokenKind) -> Value {
    match k {
        TokenKind::Keyword(id) => json!(["kw", format!("{:?}", id)]),
        TokenKind::Operator(id) => json!(["op", format!("{:?}", id)]),
        TokenKind::Punctuation(id) => json!(["pu", format!("{:?}", id)]),
        TokenKind::Ident(s) => json!(["id", s]),
        TokenKind::Int(n) => json!(["int", n.to_string()]),
        TokenKind::Float(f) => json!(["float", f.to_bits().to_string(), float_display_int(*f).map(|o| o.map(|k| k.to_string()))]),
        TokenKind::String(s) => json!(["str", s]),
        TokenKind::Bytes(b) => json!(["bytes", b]),
        TokenKind::FString(_) => json!(["other", "FString"]),
        TokenKind::Newline => json!(["nl"]),
        TokenKind::Indent => json!(["other", "Indent"]),
        TokenKind::Dedent => json!(["other", "Dedent"]),
        TokenKind::Ellipsis => json!(["other", "Ellipsis"]),
        TokenKind::Eof => json!(["other", "Eof"]),
    }
}

/// tokens strictly between the first Indent and its matching Dedent
fn body_tokens(src: &str) -> Result<Vec<Value>, String> {
    let toks = lexer::lex(src).map_err(|e| format!("lex: {}", e[0].message))?;
    let mut out = Vec::new();
    let mut depth = 0;
    for t in &toks {
        match t.kind {
            TokenKind::Indent => {
                depth += 1;
                if depth == 1 {
                    continue;
                }
            }
            TokenKind::Dedent => {
                depth -= 1;
                if depth == 0 {
                    break;
                }
            }
            _ => {}
        }
        if depth >= 1 {
            out.push(tok_json(&t.kind));
        }
    }
    Ok(out)
}

fn lit_json(l: &Literal) -> Value {
    match l {
        Literal::Int(n) => json!(["Int", n.to_string()]),
        Literal::Float(f) => json!(["Float", f.to_bits().to_string(), float_display_int(*f).map(|o| o.map(|k| k.to_string()))]),
        Literal::String(s) => json!(["Str", s]),
        Literal::Bytes(b) => json!(["Bytes", b]),
        Literal::Bool(b) => json!(["Bool", b]),
        Literal::None => json!(["None"]),
    }
}

fn args_json(a: &[CallArg]) -> Value {
    Value::Array(
        a.iter()
            .map(|x| match x {
                CallArg::Positional(e) => json!([Value::Null, expr_json(&e.node)]),
                CallArg::Named(n, e) => json!([n, expr_json(&e.node)]),
            })
            .collect(),
    )
}

fn oe(o: &Option<Box<Spanned<Expr>>>) -> Value {
    match o {
        Some(e) => expr_json(&e.node),
        None => Value::Null,
    }
}

fn expr_json(e: &Expr) -> Value {
    let l = |xs: &Vec<Spanned<Expr>>| Value::Array(xs.iter().map(|x| expr_json(&x.node)).collect());
    match e {
        Expr::Ident(n) => json!(["Ident", n]),
        Expr::Literal(x) => json!(["Lit", lit_json(x)]),
        Expr::SelfExpr => json!(["Self"]),
        Expr::Binary(a, op, b) => json!(["Binary", expr_json(&a.node), format!("{:?}", op), expr_json(&b.node)]),
        Expr::Unary(op, a) => json!(["Unary", format!("{:?}", op), expr_json(&a.node)]),
        Expr::Call(f, a) => json!(["Call", expr_json(&f.node), args_json(a)]),
        Expr::Index(b, i) => json!(["Index", expr_json(&b.node), expr_json(&i.node)]),
        Expr::Slice(b, s) => json!(["Slice", expr_json(&b.node), oe(&s.start), oe(&s.end), oe(&s.step)]),
        Expr::Field(b, f) => json!(["Field", expr_json(&b.node), f]),
        Expr::MethodCall(b, m, a) => json!(["Method", expr_json(&b.node), m, args_json(a)]),
        Expr::Await(a) => json!(["Await", expr_json(&a.node)]),
        Expr::Try(a) => json!(["Try", expr_json(&a.node)]),
        Expr::Tuple(xs) => json!(["Tuple", l(xs)]),
        Expr::List(xs) => json!(["List", l(xs)]),
        Expr::Set(xs) => json!(["Set", l(xs)]),
        Expr::Dict(kvs) => json!(["Dict", Value::Array(kvs.iter().map(|(k, v)| json!([expr_json(&k.node), expr_json(&v.node)])).collect())]),
        Expr::Paren(a) => json!(["Paren", expr_json(&a.node)]),
        Expr::Range { start, end, inclusive } => json!(["Range", expr_json(&start.node), expr_json(&end.node), inclusive]),
        Expr::Closure(ps, b) => json!(["Closure", Value::Array(ps.iter().map(|p| json!(p.node.name)).collect()), expr_json(&b.node)]),
        other => json!(["Unsupported", format!("{:?}", std::mem::discriminant(other))]),
    }
}

fn binding_json(b: &BindingKind) -> Value {
    json!(format!("{:?}", b))
}

fn stmt_json(s: &Statement) -> Value {
    match s {
        Statement::Expr(e) => json!(["Expr", expr_json(&e.node)]),
        Statement::Assignment(a) => match &a.ty {
            None => json!(["Assign", binding_json(&a.binding), a.name, expr_json(&a.value.node)]),
            Some(_) => json!(["Unsupported", "typed assignment"]),
        },
        Statement::FieldAssignment(a) => json!(["FieldAssign", expr_json(&a.object.node), a.field, expr_json(&a.value.node)]),
        Statement::IndexAssignment(a) => json!(["IndexAssign", expr_json(&a.object.node), expr_json(&a.index.node), expr_json(&a.value.node)]),
        Statement::CompoundAssignment(c) => json!(["Compound", c.name, format!("{:?}", c.op), expr_json(&c.value.node)]),
        Statement::Return(None) => json!(["Return", Value::Null]),
        Statement::Return(Some(e)) => json!(["Return", expr_json(&e.node)]),
        Statement::Pass => json!(["Pass"]),
        Statement::Break => json!(["Break"]),
        Statement::Continue => json!(["Continue"]),
        _ => json!(["Unsupported", "statement"]),
    }
}

fn op_tie(src: &str) -> Value {
    let prog = match parse_src(src) {
        Ok(p) => p,
        Err(e) => return json!({"parse": e}),
    };
    let body: Vec<Value> = match prog.declarations.first().map(|d| &d.node) {
        Some(Declaration::Function(f)) => f.body.iter().map(|s| stmt_json(&s.node)).collect(),
        _ => return json!({"parse": "not a function"}),
    };
    let text = fmt_prog(&prog);
    json!({"parse": "ok", "ast": body, "toks_src": body_tokens(src).unwrap_or_default(),
           "toks_fmt": body_tokens(&text).map(Value::Array).unwrap_or_else(|e| json!(e)), "text": text})
}

pub fn run(_args: &[String]) {
    each_line(|line| {
        let req: Value = match serde_json::from_str(line) {
            Ok(v) => v,
            Err(e) => return json!({"error": format!("bad request: {}", e)}).to_string(),
        };
        let op = req["op"].as_str().unwrap_or("").to_string();
        let src = req["src"].as_str().unwrap_or("").to_string();
        let want_text = req["text"].as_bool().unwrap_or(false);
        CFG.with(|c| c.set((req["indent_width"].as_u64().unwrap_or(4) as usize, req["line_length"].as_u64().unwrap_or(120) as usize)));
        let r = catch(|| match op.as_str() {
            "decls" => op_decls(&src, want_text),
            "tie" => op_tie(&src),
            _ => json!({"error": "unknown op"}),
        });
        match r {
            Ok(v) => v.to_string(),
            Err(p) => json!({"panic": p}).to_string(),
        }
    });
}
