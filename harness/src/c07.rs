//! C07 runner: the type of an arithmetic/comparison expression in every phase of the REAL compiler.
//! Input line: `<kind>\t<expr with a,b:int x,y:float>\t<same expr with consts CI,CF>[\t<op>]`
//!   kind = expr | cmp | compound (then 4th field is the compound operator, e.g. `/=`, and the
//!   expression is the right-hand side; the target is `zi: int` and `zf: float`)
//! Output for expr/cmp: `chk const ir rust accI accF` with codes 0 int, 1 float, 2 bool,
//!   7 rejected/ill-typed, 8 other type, 9 unknown;  for compound: `accI rustI accF rustF`.
use crate::common::{catch, each_line};
use incan::backend::ir::{AstLowering, IrCodegen, IrDeclKind, IrStmtKind, IrType};
use incan::frontend::symbols::ResolvedType;
use incan::frontend::typechecker::TypeChecker;
use incan_syntax::ast::{Declaration, Program, Statement};

fn parse(src: &str) -> Result<Program, String> {
    let tokens = incan_syntax::lexer::lex(src).map_err(|e| format!("lex: {:?}", e.first().map(|x| x.message.clone())))?;
    incan_syntax::parser::parse(&tokens).map_err(|e| format!("parse: {:?}", e.first().map(|x| x.message.clone())))
}

fn code_res(t: &ResolvedType) -> u8 {
    match t {
        ResolvedType::Int => 0,
        ResolvedType::Float => 1,
        ResolvedType::Bool => 2,
        ResolvedType::Unknown => 9,
        _ => 8,
    }
}

fn code_ir(t: &IrType) -> u8 {
    match t {
        IrType::Int => 0,
        IrType::Float => 1,
        IrType::Bool => 2,
        IrType::Unknown => 9,
        _ => 8,
    }
}

fn accepted(src: &str) -> bool {
    match parse(src) {
        Ok(p) => TypeChecker::new().check_program(&p).is_ok(),
        Err(_) => false,
    }
}

// ---- a small Rust typer for the emitted expression (i64 / f64 / bool) ----
fn rust_ty(e: &syn::Expr) -> Option<u8> {
    use syn::{BinOp, Expr, Lit, UnOp};
    match e {
        Expr::Lit(l) => match &l.lit {
            Lit::Int(i) => match i.suffix() {
                "" | "i64" => Some(0),
                _ => None,
            },
            Lit::Float(_) => Some(1),
            Lit::Bool(_) => Some(2),
            _ => None,
        },
        Expr::Path(p) => match p.path.get_ident().map(|i| i.to_string()).as_deref() {
            Some("a") | Some("b") | Some("zi") => Some(0),
            Some("x") | Some("y") | Some("zf") => Some(1),
            _ => None,
        },
        Expr::Paren(p) => rust_ty(&p.expr),
        Expr::Group(g) => rust_ty(&g.expr),
        Expr::Unary(u) => match u.op {
            UnOp::Neg(_) => rust_ty(&u.expr).filter(|t| *t < 2),
            UnOp::Not(_) => rust_ty(&u.expr).filter(|t| *t == 2),
            _ => None,
        },
        Expr::Cast(c) => {
            let inner = rust_ty(&c.expr)?;
            let to = quote::ToTokens::to_token_stream(&c.ty).to_string();
            match (inner, to.as_str()) {
                (0 | 1, "f64") => Some(1),
                (0 | 1, "i64") => Some(0),
                (0 | 1, "u32") => Some(5), // only valid as the argument of pow
                _ => None,
            }
        }
        Expr::Binary(b) => {
            let l = rust_ty(&b.left)?;
            let r = rust_ty(&b.right)?;
            match b.op {
                BinOp::Add(_) | BinOp::Sub(_) | BinOp::Mul(_) | BinOp::Div(_) | BinOp::Rem(_) => {
                    if l == r && l < 2 { Some(l) } else { None }
                }
                BinOp::Eq(_) | BinOp::Ne(_) | BinOp::Lt(_) | BinOp::Le(_) | BinOp::Gt(_) | BinOp::Ge(_) => {
                    if l == r && l < 2 { Some(2) } else { None }
                }
                _ => None,
            }
        }
        Expr::Call(c) => {
            let f = quote::ToTokens::to_token_stream(&c.func).to_string().replace(' ', "");
            let args: Vec<Option<u8>> = c.args.iter().map(rust_ty).collect();
            if args.len() != 2 {
                return None;
            }
            let (l, r) = (args[0]?, args[1]?);
            let num = |t: u8| t < 2;
            match f.as_str() {
                "incan_stdlib::num::py_div" if num(l) && num(r) => Some(1),
                "incan_stdlib::num::py_mod" | "incan_stdlib::num::py_floor_div" if num(l) && num(r) => {
                    Some(if l == 0 && r == 0 { 0 } else { 1 })
                }
                "incan_stdlib::num::py_mod_i64" | "incan_stdlib::num::py_floor_div_i64" if l == 0 && r == 0 => Some(0),
                "incan_stdlib::num::py_mod_f64" | "incan_stdlib::num::py_floor_div_f64" if l == 1 && r == 1 => Some(1),
                _ => None,
            }
        }
        Expr::MethodCall(m) => {
            let recv = rust_ty(&m.receiver)?;
            let name = m.method.to_string();
            if m.args.len() != 1 {
                return None;
            }
            let a = rust_ty(&m.args[0])?;
            match (name.as_str(), recv, a) {
                ("pow", 0, 5) => Some(0),
                ("powf", 1, 1) => Some(1),
                _ => None,
            }
        }
        _ => None,
    }
}

/// Find `let <name> ... = <expr>;` or `<name> = <expr>;` in fn f of the generated Rust.
fn find_rust_expr(rust: &str, name: &str, assign: bool) -> Option<syn::Expr> {
    let file = syn::parse_file(rust).ok()?;
    for it in &file.items {
        if let syn::Item::Fn(f) = it {
            if f.sig.ident != "f" {
                continue;
            }
            for st in &f.block.stmts {
                match st {
                    syn::Stmt::Local(l) if !assign => {
                        let pat = quote::ToTokens::to_token_stream(&l.pat).to_string();
                        if pat.split_whitespace().any(|w| w == name) {
                            return l.init.as_ref().map(|i| (*i.expr).clone());
                        }
                    }
                    syn::Stmt::Expr(syn::Expr::Assign(a), _) if assign => {
                        let lhs = quote::ToTokens::to_token_stream(&a.left).to_string();
                        if lhs.trim() == name {
                            return Some((*a.right).clone());
                        }
                    }
                    _ => {}
                }
            }
        }
    }
    None
}

fn fn_prog(body: &str) -> String {
    format!("def f(a: int, b: int, x: float, y: float) -> None:\n{}", body)
}

fn phases(expr: &str, cexpr: &str) -> String {
    // --- checker + lowering + emission on `v = <expr>` ---
    let src = fn_prog(&format!("    v = {}\n", expr));
    let prog = match parse(&src) {
        Ok(p) => p,
        Err(e) => return format!("7 7 7 7 0 0 {}", e),
    };
    let mut tc = TypeChecker::new();
    let ok = tc.check_program(&prog).is_ok();
    let mut chk = 7u8;
    let mut span = None;
    for d in &prog.declarations {
        if let Declaration::Function(f) = &d.node {
            for st in &f.body {
                if let Statement::Assignment(a) = &st.node {
                    span = Some(a.value.span);
                }
            }
        }
    }
    if let Some(sp) = span {
        if let Some(t) = tc.type_info().expr_type(sp) {
            chk = code_res(t);
        }
    }
    if !ok {
        chk = 7;
    }
    let mut ir = 7u8;
    let mut rust = 7u8;
    let mut emitted = String::new();
    if ok {
        let mut lowering = AstLowering::new_with_type_info(tc.type_info().clone());
        if let Ok(irp) = lowering.lower_program(&prog) {
            for d in &irp.declarations {
                if let IrDeclKind::Function(f) = &d.kind {
                    if f.name == "f" {
                        for st in &f.body {
                            match &st.kind {
                                IrStmtKind::Let { value, .. } => ir = code_ir(&value.ty),
                                IrStmtKind::Assign { value, .. } => ir = code_ir(&value.ty),
                                _ => {}
                            }
                        }
                    }
                }
            }
        }
        let gen = IrCodegen::new().try_generate(&prog);
        if let Err(e) = &gen {
            rust = 6;
            emitted = format!("codegen error: {}", e).replace('\n', " ");
        }
        if let Ok(text) = gen {
            if syn::parse_file(&text).is_err() {
                rust = 6; // the emitted Rust is not even syntactically valid
                emitted = text.lines().find(|l| l.trim_start().starts_with("let v")).unwrap_or("").trim().to_string();
            } else if let Some(e) = find_rust_expr(&text, "v", false) {
                rust = rust_ty(&e).filter(|t| *t < 3).unwrap_or(7);
                emitted = quote::ToTokens::to_token_stream(&e).to_string();
            }
        }
    }
    // --- const evaluator: which annotation does `const K: T = <cexpr>` accept ---
    let cpre = "const CI: int = 3\nconst CF: float = 2.5\n";
    let ci = accepted(&format!("{}const K: int = {}\n", cpre, cexpr));
    let cf = accepted(&format!("{}const K: float = {}\n", cpre, cexpr));
    let cb = accepted(&format!("{}const K: bool = {}\n", cpre, cexpr));
    let cst = match (ci, cf, cb) {
        (true, false, false) => 0,
        (false, true, false) => 1,
        (false, false, true) => 2,
        (false, false, false) => 7,
        _ => 8,
    };
    // --- annotated bindings ---
    let acc_i = accepted(&fn_prog(&format!("    v: int = {}\n", expr))) as u8;
    let acc_f = accepted(&fn_prog(&format!("    v: float = {}\n", expr))) as u8;
    format!("{} {} {} {} {} {} | {}", chk, cst, ir, rust, acc_i, acc_f, emitted)
}

fn compound(expr: &str, op: &str) -> String {
    let mut out = Vec::new();
    for (var, init) in [("zi", "mut zi: int = 1"), ("zf", "mut zf: float = 1.5")] {
        let src = fn_prog(&format!("    {}\n    {} {} {}\n", init, var, op, expr));
        let prog = match parse(&src) {
            Ok(p) => p,
            Err(e) => return format!("0 7 0 7 {}", e),
        };
        let ok = TypeChecker::new().check_program(&prog).is_ok();
        let mut rust = 7u8;
        if ok {
            if let Ok(text) = IrCodegen::new().try_generate(&prog) {
                if syn::parse_file(&text).is_err() {
                    rust = 6;
                } else if let Some(e) = find_rust_expr(&text, var, true) {
                    rust = rust_ty(&e).filter(|t| *t < 3).unwrap_or(7);
                }
            }
        }
        out.push(format!("{} {}", ok as u8, rust));
    }
    out.join(" ")
}

pub fn run(_args: &[String]) {
    each_line(|line| {
        let p: Vec<&str> = line.split('\t').collect();
        let r = catch(|| match p[0] {
            "expr" | "cmp" => phases(p[1], p[2]),
            "compound" => compound(p[1], p[3]),
            _ => "bad-kind".to_string(),
        });
        r.unwrap_or_else(|m| format!("PANIC {}", m))
    });
}
