//! C13 runner.
//!
//! `vharness run c13 sites <repo>`
//!     Re-extract from the CURRENT source (with `syn`/`proc_macro2`): RUST_KEYWORDS and `is_keyword`,
//!     Incan's KEYWORDS (canonical spellings + aliases), the lexer's identifier character classes,
//!     `escape_keyword` (as a small decision list), every `format_ident!` / `Ident::new` site under
//!     `src/backend/ir/emit/**` (file, enclosing fn, format string, fed expression, whether the
//!     fed expression goes through `escape_keyword`), and the `__`-prefixed identifiers the emitter
//!     writes literally into `quote!` bodies (generated temporaries). One JSON object on stdout.
//!     Anything whose shape is not recognised is reported in `"errors"` (the check turns that into
//!     "tie broken"), never silently skipped.
//!
//! `vharness run c13 vocab`
//!     stdin: one name per line -> the REAL `keywords::from_str`, `rust_keywords::is_keyword` and the
//!     vocabulary registries (`builtins`, `surface::*`, `types::*`, ...) that know the name.
//!
//! `vharness run c13 emit`
//!     stdin: one JSON object per line `{"id": .., "src": "<incan source>", "modules": [[name, src]..]?}`.
//!     Runs the REAL pipeline lex -> parse -> typecheck -> lower -> IrEmitter (through
//!     `IrCodegen::try_generate`), re-parses the output with `syn::parse_file`, flattens it to a
//!     token list. stdout: one JSON object per line
//!     `{"id", "stage": "ok|lex|parse|typecheck|lower|emit|panic", "msg", "syn_ok", "syn_msg", "tokens", "rust"}`.
use crate::common::{catch, each_line};
use proc_macro2::{Delimiter, TokenStream, TokenTree};
use quote::ToTokens;
use serde_json::{json, Value};
use std::path::{Path, PathBuf};
use std::str::FromStr;

pub fn run(args: &[String]) {
    match args.first().map(|s| s.as_str()).unwrap_or("") {
        "sites" => {
            let repo = args.get(1).map(|s| s.as_str()).unwrap_or("/repo");
            println!("{}", extract(Path::new(repo)));
        }
        "emit" => emit_mode(),
        "vocab" => vocab_mode(),
        other => {
            eprintln!("c13: unknown mode {:?} (sites <repo> | emit)", other);
            std::process::exit(2);
        }
    }
}

// ------------------------------------------------------------------------------------------------
// emit mode: the real pipeline
// ------------------------------------------------------------------------------------------------

fn flatten(ts: TokenStream, out: &mut Vec<String>) {
    for tt in ts {
        match tt {
            TokenTree::Group(g) => {
                let (o, c) = match g.delimiter() {
                    Delimiter::Parenthesis => ("(", ")"),
                    Delimiter::Brace => ("{", "}"),
                    Delimiter::Bracket => ("[", "]"),
                    Delimiter::None => ("", ""),
                };
                if !o.is_empty() {
                    out.push(o.to_string());
                }
                flatten(g.stream(), out);
                if !c.is_empty() {
                    out.push(c.to_string());
                }
            }
            TokenTree::Ident(i) => out.push(i.to_string()),
            TokenTree::Punct(p) => out.push(p.as_char().to_string()),
            TokenTree::Literal(l) => out.push(l.to_string()),
        }
    }
}

fn first_msg(errs: &[incan::frontend::diagnostics::CompileError]) -> String {
    errs.first().map(|e| e.message.clone()).unwrap_or_default()
}

fn pipeline(src: &str, modules: &[(String, String)]) -> (String, String, Option<String>) {
    use incan::frontend::{lexer, parser};
    let lexparse = |s: &str| -> Result<incan::frontend::ast::Program, (String, String)> {
        let toks = lexer::lex(s).map_err(|e| ("lex".to_string(), first_msg(&e)))?;
        parser::parse(&toks).map_err(|e| ("parse".to_string(), first_msg(&e)))
    };
    let mut dep_asts = Vec::new();
    for (name, msrc) in modules {
        match lexparse(msrc) {
            Ok(a) => dep_asts.push((name.clone(), a)),
            Err((st, m)) => return (format!("dep-{}", st), m, None),
        }
    }
    let ast = match lexparse(src) {
        Ok(a) => a,
        Err((st, m)) => return (st, m, None),
    };
    let mut cg = incan::IrCodegen::new();
    for (name, a) in &dep_asts {
        cg.add_module(name, a);
    }
    match cg.try_generate(&ast) {
        Ok(code) => ("ok".to_string(), String::new(), Some(code)),
        Err(incan::backend::GenerationError::TypeCheck(errs)) => ("typecheck".to_string(), first_msg(&errs), None),
        Err(incan::backend::GenerationError::Lowering(e)) => ("lower".to_string(), e.to_string(), None),
        Err(incan::backend::GenerationError::Emission(e)) => ("emit".to_string(), e.to_string(), None),
    }
}

fn emit_mode() {
    each_line(|line| {
        let v: Value = match serde_json::from_str(line) {
            Ok(v) => v,
            Err(e) => return json!({"id": null, "stage": "bad-input", "msg": e.to_string()}).to_string(),
        };
        let id = v["id"].clone();
        let src = v["src"].as_str().unwrap_or("").to_string();
        let modules: Vec<(String, String)> = v["modules"]
            .as_array()
            .map(|a| {
                a.iter()
                    .map(|p| (p[0].as_str().unwrap_or("").to_string(), p[1].as_str().unwrap_or("").to_string()))
                    .collect()
            })
            .unwrap_or_default();
        let r = catch(|| pipeline(&src, &modules));
        let (stage, msg, code) = match r {
            Ok(t) => t,
            Err(p) => ("panic".to_string(), p, None),
        };
        let mut syn_ok = false;
        let mut syn_msg = String::new();
        let mut tokens: Vec<String> = Vec::new();
        if let Some(code) = &code {
            match syn::parse_file(code) {
                Ok(_) => syn_ok = true,
                Err(e) => syn_msg = e.to_string(),
            }
            match TokenStream::from_str(code) {
                Ok(ts) => flatten(ts, &mut tokens),
                Err(e) => {
                    syn_ok = false;
                    syn_msg = format!("lex: {}", e);
                }
            }
        }
        json!({"id": id, "stage": stage, "msg": msg, "syn_ok": syn_ok, "syn_msg": syn_msg,
               "tokens": tokens, "rust": code.unwrap_or_default()})
        .to_string()
    });
}

// ------------------------------------------------------------------------------------------------
// vocab mode: which of Incan's own vocabulary registries (the real `from_str` functions) know a name,
// and what the real `rust_keywords::is_keyword` / `keywords::from_str` say about it.
// stdin: one name per line; stdout: JSON {"name", "incan_keyword", "rust_keyword", "vocab": [registry..]}
// ------------------------------------------------------------------------------------------------

fn vocab_mode() {
    use incan_core::lang;
    each_line(|name| {
        let mut v: Vec<&str> = Vec::new();
        if lang::builtins::from_str(name).is_some() {
            v.push("builtins");
        }
        if lang::surface::constructors::from_str(name).is_some() {
            v.push("constructors");
        }
        if lang::surface::functions::from_str(name).is_some() {
            v.push("surface_functions");
        }
        if lang::surface::types::from_str(name).is_some() {
            v.push("surface_types");
        }
        if lang::types::collections::from_str(name).is_some() {
            v.push("collections");
        }
        if lang::types::numerics::from_str(name).is_some() {
            v.push("numerics");
        }
        if lang::types::stringlike::from_str(name).is_some() {
            v.push("stringlike");
        }
        if lang::errors::from_str(name).is_some() {
            v.push("errors");
        }
        if lang::traits::from_str(name).is_some() {
            v.push("traits");
        }
        if lang::derives::from_str(name).is_some() {
            v.push("derives");
        }
        if lang::magic_methods::from_str(name).is_some() {
            v.push("magic_methods");
        }
        {
            use lang::surface::methods as m;
            if m::string_methods::from_str(name).is_some()
                || m::set_methods::from_str(name).is_some()
                || m::list_methods::from_str(name).is_some()
                || m::dict_methods::from_str(name).is_some()
                || m::frozen_set_methods::from_str(name).is_some()
                || m::frozen_list_methods::from_str(name).is_some()
                || m::frozen_dict_methods::from_str(name).is_some()
                || m::frozen_bytes_methods::from_str(name).is_some()
                || m::float_methods::from_str(name).is_some()
                || m::option_methods::from_str(name).is_some()
            {
                v.push("surface_methods");
            }
        }
        if lang::surface::math::fn_from_str(name).is_some() || lang::surface::math::const_from_str(name).is_some() {
            v.push("math");
        }
        if lang::decorators::from_str(name).is_some() {
            v.push("decorators");
        }
        json!({"name": name,
               "incan_keyword": lang::keywords::from_str(name).is_some(),
               "rust_keyword": lang::rust_keywords::is_keyword(name),
               "vocab": v})
        .to_string()
    });
}

// ------------------------------------------------------------------------------------------------
// sites mode: extraction from source
// ------------------------------------------------------------------------------------------------

fn norm_into(ts: TokenStream, out: &mut Vec<String>, glue: &mut bool) {
    for tt in ts {
        let piece = match tt {
            TokenTree::Group(g) => {
                let (o, c) = match g.delimiter() {
                    Delimiter::Parenthesis => ("(", ")"),
                    Delimiter::Brace => ("{", "}"),
                    Delimiter::Bracket => ("[", "]"),
                    Delimiter::None => ("", ""),
                };
                if !o.is_empty() {
                    out.push(o.to_string());
                }
                *glue = false;
                norm_into(g.stream(), out, glue);
                *glue = false;
                if !c.is_empty() {
                    out.push(c.to_string());
                }
                continue;
            }
            TokenTree::Ident(i) => (i.to_string(), false),
            TokenTree::Literal(l) => (l.to_string(), false),
            TokenTree::Punct(p) => (p.as_char().to_string(), p.spacing() == proc_macro2::Spacing::Joint),
        };
        if *glue {
            if let Some(last) = out.last_mut() {
                last.push_str(&piece.0);
            }
        } else {
            out.push(piece.0);
        }
        *glue = piece.1;
    }
}

/// Token text with single spaces; multi-character operators (`::`, `==`, `..`) kept together.
fn norm(ts: &TokenStream) -> String {
    let mut v = Vec::new();
    let mut glue = false;
    norm_into(ts.clone(), &mut v, &mut glue);
    v.join(" ")
}

fn read_file(p: &Path, errors: &mut Vec<String>) -> Option<syn::File> {
    let text = match std::fs::read_to_string(p) {
        Ok(t) => t,
        Err(e) => {
            errors.push(format!("cannot read {}: {}", p.display(), e));
            return None;
        }
    };
    match syn::parse_file(&text) {
        Ok(f) => Some(f),
        Err(e) => {
            errors.push(format!("cannot parse {}: {}", p.display(), e));
            None
        }
    }
}

fn str_lits(ts: TokenStream, out: &mut Vec<String>) {
    for tt in ts {
        match tt {
            TokenTree::Group(g) => str_lits(g.stream(), out),
            TokenTree::Literal(l) => {
                if let Ok(s) = syn::parse_str::<syn::LitStr>(&l.to_string()) {
                    out.push(s.value());
                }
            }
            _ => {}
        }
    }
}

fn find_const<'a>(f: &'a syn::File, name: &str) -> Option<&'a syn::ItemConst> {
    f.items.iter().find_map(|it| match it {
        syn::Item::Const(c) if c.ident == name => Some(c),
        _ => None,
    })
}

fn find_fn<'a>(f: &'a syn::File, name: &str) -> Option<&'a syn::ItemFn> {
    f.items.iter().find_map(|it| match it {
        syn::Item::Fn(c) if c.sig.ident == name => Some(c),
        _ => None,
    })
}

/// `c.is_ascii_alphabetic() || c == '_'`  ->  ["alpha", "ch:95"]
fn char_class(e: &syn::Expr, out: &mut Vec<String>) -> Result<(), String> {
    match e {
        syn::Expr::Binary(b) if matches!(b.op, syn::BinOp::Or(_)) => {
            char_class(&b.left, out)?;
            char_class(&b.right, out)
        }
        syn::Expr::Paren(p) => char_class(&p.expr, out),
        syn::Expr::MethodCall(m) if m.args.is_empty() => {
            let k = match m.method.to_string().as_str() {
                "is_ascii_alphabetic" => "alpha",
                "is_ascii_alphanumeric" => "alnum",
                "is_ascii_digit" => "digit",
                "is_ascii_lowercase" => "lower",
                "is_ascii_uppercase" => "upper",
                other => return Err(format!("unknown char predicate {}", other)),
            };
            out.push(k.to_string());
            Ok(())
        }
        syn::Expr::Binary(b) if matches!(b.op, syn::BinOp::Eq(_)) => {
            if let syn::Expr::Lit(syn::ExprLit { lit: syn::Lit::Char(c), .. }) = &*b.right {
                out.push(format!("ch:{}", c.value() as u32));
                Ok(())
            } else {
                Err("char comparison with a non-literal".to_string())
            }
        }
        other => Err(format!("unrecognised character-class expression `{}`", norm(&other.to_token_stream()))),
    }
}

fn fn_tail_expr(f: &syn::ItemFn) -> Option<&syn::Expr> {
    if f.block.stmts.len() != 1 {
        return None;
    }
    match &f.block.stmts[0] {
        syn::Stmt::Expr(e, None) => Some(e),
        _ => None,
    }
}

/// condition of escape_keyword: `matches!(name, "a" | "b")` -> {"in": [..]};
/// `rust_keywords::is_keyword(name)` -> {"rust_keyword": true}
fn esc_cond(e: &syn::Expr) -> Result<Value, String> {
    match e {
        syn::Expr::Macro(m) if m.mac.path.is_ident("matches") => {
            let mut lits = Vec::new();
            str_lits(m.mac.tokens.clone(), &mut lits);
            let toks = norm(&m.mac.tokens);
            // only `name , "a" | "b" ...`
            let expect = std::iter::once("name".to_string())
                .chain(std::iter::once(",".to_string()))
                .chain(lits.iter().enumerate().flat_map(|(i, l)| {
                    let mut v = Vec::new();
                    if i > 0 {
                        v.push("|".to_string());
                    }
                    v.push(format!("{:?}", l));
                    v
                }))
                .collect::<Vec<_>>()
                .join(" ");
            if toks != expect {
                return Err(format!("unrecognised matches! in escape_keyword: `{}`", toks));
            }
            Ok(json!({"in": lits}))
        }
        syn::Expr::Call(c) => {
            let f = norm(&c.func.to_token_stream());
            let a = norm(&c.args.to_token_stream());
            if (f == "rust_keywords :: is_keyword" || f == "is_keyword") && a == "name" {
                Ok(json!({"rust_keyword": true}))
            } else {
                Err(format!("unrecognised call in escape_keyword condition: `{} ( {} )`", f, a))
            }
        }
        syn::Expr::Paren(p) => esc_cond(&p.expr),
        other => Err(format!("unrecognised escape_keyword condition `{}`", norm(&other.to_token_stream()))),
    }
}

/// result of escape_keyword: `name.to_string()` -> ["", ""]; `format!("r#{}", name)` -> ["r#", ""]
fn esc_result(e: &syn::Expr) -> Result<Value, String> {
    let e = match e {
        syn::Expr::Return(r) => match &r.expr {
            Some(x) => &**x,
            None => return Err("bare return".to_string()),
        },
        x => x,
    };
    match e {
        syn::Expr::MethodCall(m)
            if (m.method == "to_string" || m.method == "to_owned" || m.method == "into")
                && norm(&m.receiver.to_token_stream()) == "name"
                && m.args.is_empty() =>
        {
            Ok(json!(["", ""]))
        }
        syn::Expr::Macro(m) if m.mac.path.is_ident("format") => {
            let mut lits = Vec::new();
            str_lits(m.mac.tokens.clone(), &mut lits);
            let toks = norm(&m.mac.tokens);
            if lits.len() != 1 || toks != format!("{:?} , name", lits[0]) {
                return Err(format!("unrecognised format! in escape_keyword: `{}`", toks));
            }
            let parts: Vec<&str> = lits[0].split("{}").collect();
            if parts.len() != 2 || parts.iter().any(|p| p.contains('{') || p.contains('}')) {
                return Err(format!("unrecognised format string {:?}", lits[0]));
            }
            Ok(json!([parts[0], parts[1]]))
        }
        other => Err(format!("unrecognised escape_keyword result `{}`", norm(&other.to_token_stream()))),
    }
}

fn escape_keyword_rules(f: &syn::ImplItemFn) -> Result<Value, String> {
    let mut rules = Vec::new();
    let n = f.block.stmts.len();
    for (i, st) in f.block.stmts.iter().enumerate() {
        let last = i + 1 == n;
        match st {
            syn::Stmt::Expr(syn::Expr::If(ifx), _) if !last && ifx.else_branch.is_none() => {
                if ifx.then_branch.stmts.len() != 1 {
                    return Err("escape_keyword: if-body with more than one statement".to_string());
                }
                let body = match &ifx.then_branch.stmts[0] {
                    syn::Stmt::Expr(e @ syn::Expr::Return(_), _) => e,
                    _ => return Err("escape_keyword: if-body is not a return".to_string()),
                };
                rules.push(json!({"cond": esc_cond(&ifx.cond)?, "result": esc_result(body)?}));
            }
            syn::Stmt::Expr(e, None) if last => {
                rules.push(json!({"cond": {"always": true}, "result": esc_result(e)?}));
            }
            syn::Stmt::Expr(e @ syn::Expr::Return(_), Some(_)) if last => {
                rules.push(json!({"cond": {"always": true}, "result": esc_result(e)?}));
            }
            other => {
                return Err(format!("escape_keyword: unrecognised statement `{}`", norm(&other.to_token_stream())));
            }
        }
    }
    Ok(Value::Array(rules))
}

fn rs_files(dir: &Path, out: &mut Vec<PathBuf>) {
    if let Ok(rd) = std::fs::read_dir(dir) {
        let mut es: Vec<_> = rd.filter_map(|e| e.ok()).map(|e| e.path()).collect();
        es.sort();
        for p in es {
            if p.is_dir() {
                rs_files(&p, out);
            } else if p.extension().map(|e| e == "rs").unwrap_or(false) {
                out.push(p);
            }
        }
    }
}

struct FnTokens {
    name: String,
    tokens: TokenStream,
    is_test: bool,
}

fn has_test_attr(attrs: &[syn::Attribute]) -> bool {
    attrs.iter().any(|a| {
        let s = norm(&a.to_token_stream());
        s.contains("test")
    })
}

fn collect_fns(items: &[syn::Item], in_test: bool, out: &mut Vec<FnTokens>, esc: &mut Option<syn::ImplItemFn>) {
    for it in items {
        match it {
            syn::Item::Fn(f) => out.push(FnTokens {
                name: f.sig.ident.to_string(),
                tokens: f.block.to_token_stream(),
                is_test: in_test || has_test_attr(&f.attrs),
            }),
            syn::Item::Impl(im) => {
                for ii in &im.items {
                    if let syn::ImplItem::Fn(f) = ii {
                        if f.sig.ident == "escape_keyword" {
                            *esc = Some(f.clone());
                        }
                        out.push(FnTokens {
                            name: f.sig.ident.to_string(),
                            tokens: f.block.to_token_stream(),
                            is_test: in_test || has_test_attr(&f.attrs),
                        });
                    }
                }
            }
            syn::Item::Mod(m) => {
                if let Some((_, its)) = &m.content {
                    collect_fns(its, in_test || has_test_attr(&m.attrs), out, esc);
                }
            }
            _ => {}
        }
    }
}

/// `let v = <.. escape_keyword ..> ;` anywhere in the function: v counts as escaped.
fn escaped_lets(ts: &TokenStream, out: &mut Vec<String>) {
    let v: Vec<TokenTree> = ts.clone().into_iter().collect();
    let mut i = 0;
    while i < v.len() {
        if let TokenTree::Group(g) = &v[i] {
            escaped_lets(&g.stream(), out);
        }
        if let TokenTree::Ident(id) = &v[i] {
            if id == "let" {
                // let [mut] name [: ty] = ... ;
                let mut j = i + 1;
                if let Some(TokenTree::Ident(m)) = v.get(j) {
                    if m == "mut" {
                        j += 1;
                    }
                }
                if let Some(TokenTree::Ident(name)) = v.get(j) {
                    let mut k = j + 1;
                    let mut rhs = Vec::new();
                    let mut seen_eq = false;
                    while k < v.len() {
                        if let TokenTree::Punct(p) = &v[k] {
                            if p.as_char() == ';' {
                                break;
                            }
                            if p.as_char() == '=' && !seen_eq {
                                seen_eq = true;
                                k += 1;
                                continue;
                            }
                        }
                        if seen_eq {
                            rhs.push(v[k].clone());
                        }
                        k += 1;
                    }
                    let rhs_ts: TokenStream = rhs.into_iter().collect();
                    if norm(&rhs_ts).split(' ').any(|t| t == "escape_keyword") {
                        out.push(name.to_string());
                    }
                }
            }
        }
        i += 1;
    }
}

fn split_top_commas(ts: TokenStream) -> Vec<TokenStream> {
    let mut parts = vec![Vec::new()];
    for tt in ts {
        if let TokenTree::Punct(p) = &tt {
            if p.as_char() == ',' {
                parts.push(Vec::new());
                continue;
            }
        }
        parts.last_mut().unwrap().push(tt);
    }
    parts.into_iter().map(|v| v.into_iter().collect()).collect()
}

struct RawSite {
    kind: &'static str,
    fmt: String,
    expr: String,
    escaped: bool,
    via_let: bool,
    nargs: usize,
}

fn scan_sites(ts: &TokenStream, esc_lets: &[String], sites: &mut Vec<RawSite>, fixed: &mut Vec<String>, in_quote: bool) {
    let v: Vec<TokenTree> = ts.clone().into_iter().collect();
    let mut i = 0;
    while i < v.len() {
        match &v[i] {
            TokenTree::Ident(id) => {
                let s = id.to_string();
                if in_quote && s.starts_with("__") {
                    fixed.push(s.clone());
                }
                let bang = matches!(v.get(i + 1), Some(TokenTree::Punct(p)) if p.as_char() == '!');
                if bang {
                    if let Some(TokenTree::Group(g)) = v.get(i + 2) {
                        if s == "format_ident" {
                            let parts = split_top_commas(g.stream());
                            let mut lits = Vec::new();
                            if let Some(p0) = parts.first() {
                                str_lits(p0.clone(), &mut lits);
                            }
                            let fmt = lits.first().cloned().unwrap_or_else(|| "<non-literal>".to_string());
                            let args: Vec<String> = parts.iter().skip(1).map(norm).filter(|a| !a.is_empty()).collect();
                            let expr = args.join(" , ");
                            let direct = expr.split(' ').any(|t| t == "escape_keyword");
                            let bare = expr.trim_start_matches("& ").to_string();
                            let via_let = !direct && esc_lets.iter().any(|l| *l == bare);
                            sites.push(RawSite {
                                kind: "format_ident",
                                fmt,
                                expr,
                                escaped: direct || via_let,
                                via_let,
                                nargs: args.len(),
                            });
                            // arguments may contain further sites
                            scan_sites(&g.stream(), esc_lets, sites, fixed, false);
                            i += 3;
                            continue;
                        }
                        let q = s == "quote" || s == "quote_spanned" || s == "parse_quote";
                        scan_sites(&g.stream(), esc_lets, sites, fixed, q || in_quote);
                        i += 3;
                        continue;
                    }
                }
                // Ident :: new ( expr , span )
                if s == "Ident" {
                    let c1 = matches!(v.get(i + 1), Some(TokenTree::Punct(p)) if p.as_char() == ':');
                    let c2 = matches!(v.get(i + 2), Some(TokenTree::Punct(p)) if p.as_char() == ':');
                    let nw = matches!(v.get(i + 3), Some(TokenTree::Ident(n)) if n == "new" || n == "new_raw");
                    if c1 && c2 && nw {
                        if let Some(TokenTree::Group(g)) = v.get(i + 4) {
                            let parts = split_top_commas(g.stream());
                            let expr = parts.first().map(norm).unwrap_or_default();
                            let direct = expr.split(' ').any(|t| t == "escape_keyword");
                            let bare = expr.trim_start_matches("& ").to_string();
                            let via_let = !direct && esc_lets.iter().any(|l| *l == bare);
                            sites.push(RawSite {
                                kind: "Ident::new",
                                fmt: "{}".to_string(),
                                expr,
                                escaped: direct || via_let,
                                via_let,
                                nargs: 1,
                            });
                        }
                    }
                }
            }
            TokenTree::Group(g) => scan_sites(&g.stream(), esc_lets, sites, fixed, in_quote),
            _ => {}
        }
        i += 1;
    }
}


// ------------------------------------------------------------------------------------------------
// name-keyed LOOKUPS: `<table>.get(key)` / `.contains(key)` / `.contains_key(key)` / `.get_mut(key)` in emit/** and
// lower/**. The tables are keyed by the plain Incan name, so a key derived from `escape_keyword` misses for
// keyword names. A light, flow-insensitive taint: an identifier is "escaped" if it is bound by a `let` (or
// `if let` / `while let` pattern, or closure parameter) whose right-hand side / receiver statement mentions
// `escape_keyword` or another escaped identifier.
// ------------------------------------------------------------------------------------------------

fn toks(ts: &TokenStream) -> Vec<String> {
    let mut v = Vec::new();
    let mut glue = false;
    norm_into(ts.clone(), &mut v, &mut glue);
    v
}

fn is_open(t: &str) -> bool {
    t == "(" || t == "[" || t == "{"
}
fn is_close(t: &str) -> bool {
    t == ")" || t == "]" || t == "}"
}

fn pattern_idents(pat: &[String], out: &mut Vec<String>) {
    // cut a type annotation `: T` at depth 0
    let mut depth = 0i32;
    let mut end = pat.len();
    for (i, t) in pat.iter().enumerate() {
        if is_open(t) {
            depth += 1;
        } else if is_close(t) {
            depth -= 1;
        } else if t == ":" && depth == 0 {
            end = i;
            break;
        }
    }
    let pat = &pat[..end];
    for (i, t) in pat.iter().enumerate() {
        let c = t.chars().next().unwrap_or(' ');
        let is_field_label = pat.get(i + 1).map(|n| n == ":").unwrap_or(false);
        if (c.is_ascii_lowercase() || c == '_') && t != "mut" && t != "ref" && t != "_" && !is_field_label
            && t.chars().all(|c| c.is_ascii_alphanumeric() || c == '_')
            && !pat.get(i + 1).map(|n| n == "::" || n == "(" || n == "{").unwrap_or(false)
        {
            out.push(t.clone());
        }
    }
}

fn mentions(ts: &[String], tainted: &[String]) -> bool {
    // a token right after `.` is a field or method name, not a variable
    ts.iter().enumerate().any(|(i, t)| {
        t == "escape_keyword" || (tainted.iter().any(|x| x == t) && !(i > 0 && ts[i - 1] == "."))
    })
}

fn tainted_idents(v: &[String]) -> Vec<String> {
    let mut tainted: Vec<String> = Vec::new();
    for _pass in 0..4 {
        let before = tainted.len();
        let mut i = 0;
        while i < v.len() {
            if v[i] == "let" {
                let cond = i > 0 && (v[i - 1] == "if" || v[i - 1] == "while");
                // pattern up to `=` at depth 0
                let mut j = i + 1;
                let mut depth = 0i32;
                while j < v.len() {
                    if is_open(&v[j]) {
                        depth += 1;
                    } else if is_close(&v[j]) {
                        depth -= 1;
                    } else if v[j] == "=" && depth == 0 {
                        break;
                    }
                    j += 1;
                }
                let pat = &v[i + 1..j.min(v.len())];
                // right-hand side
                let mut k = j + 1;
                let mut d = 0i32;
                while k < v.len() {
                    if cond && v[k] == "{" && d == 0 {
                        break;
                    }
                    if is_open(&v[k]) {
                        d += 1;
                    } else if is_close(&v[k]) {
                        if d == 0 {
                            break;
                        }
                        d -= 1;
                    } else if v[k] == ";" && d == 0 {
                        break;
                    }
                    k += 1;
                }
                let rhs = &v[(j + 1).min(v.len())..k.min(v.len())];
                if mentions(rhs, &tainted) {
                    let mut ids = Vec::new();
                    pattern_idents(pat, &mut ids);
                    for id in ids {
                        if !tainted.contains(&id) {
                            tainted.push(id);
                        }
                    }
                }
            }
            // closure parameters: `|pat|` right after `(` `,` or `=`; tainted if the statement so far mentions a tainted name
            if v[i] == "|" && i > 0 && (v[i - 1] == "(" || v[i - 1] == "," || v[i - 1] == "=") {
                if let Some(off) = v[i + 1..].iter().position(|t| t == "|") {
                    let pat = &v[i + 1..i + 1 + off];
                    let mut b = i;
                    // the receiver chain of the call the closure is passed to: back to the start of the expression
                    while b > 0 && v[b - 1] != ";" && v[b - 1] != "=" && v[b - 1] != "{" && v[b - 1] != "}" {
                        b -= 1;
                    }
                    if mentions(&v[b..i], &tainted) {
                        let mut ids = Vec::new();
                        pattern_idents(pat, &mut ids);
                        for id in ids {
                            if !tainted.contains(&id) {
                                tainted.push(id);
                            }
                        }
                    }
                }
            }
            i += 1;
        }
        if tainted.len() == before {
            break;
        }
    }
    tainted
}

struct RawLookup {
    table: String,
    method: String,
    key: String,
    escaped: bool,
}

fn scan_lookups(ts: &TokenStream, out: &mut Vec<RawLookup>) {
    let v = toks(ts);
    let tainted = tainted_idents(&v);
    let mut i = 0;
    while i + 3 < v.len() {
        let m = v[i + 2].as_str();
        if v[i + 1] == "." && matches!(m, "get" | "contains" | "contains_key" | "get_mut") && v[i + 3] == "(" {
            let recv = &v[i];
            let c = recv.chars().next().unwrap_or(' ');
            if (c.is_ascii_lowercase() || c == '_') && recv.chars().all(|c| c.is_ascii_alphanumeric() || c == '_') {
                let mut k = i + 4;
                let mut d = 0i32;
                while k < v.len() {
                    if is_open(&v[k]) {
                        d += 1;
                    } else if is_close(&v[k]) {
                        if d == 0 {
                            break;
                        }
                        d -= 1;
                    }
                    k += 1;
                }
                let key = &v[i + 4..k.min(v.len())];
                let literal_key = key.len() == 1 && (key[0].starts_with('"') || key[0].starts_with('\'') || key[0].chars().all(|c| c.is_ascii_digit()));
                let literal_key = literal_key || (key.len() == 2 && key[0] == "&" && key[1].starts_with('"'));
                if !key.is_empty() && !literal_key {
                    out.push(RawLookup {
                        table: recv.clone(),
                        method: m.to_string(),
                        key: key.join(" "),
                        escaped: mentions(key, &tainted),
                    });
                }
            }
        }
        i += 1;
    }
}


// ------------------------------------------------------------------------------------------------
// SPELLING-dependent decisions: places outside `quote!` bodies where the text of a name is sorted, compared,
// prefix/suffix/case/character-tested or split -- i.e. where the SPELLING of a user identifier can influence the
// STRUCTURE of the emitted program (not just the spelling of one token).
// ------------------------------------------------------------------------------------------------

const SPELLING_METHODS: &[&str] = &[
    "sort", "sort_by", "sort_by_key", "sort_unstable", "sort_unstable_by", "sort_unstable_by_key", "sorted", "cmp", "partial_cmp",
    "starts_with", "ends_with", "is_uppercase", "is_lowercase", "is_ascii_uppercase", "is_ascii_lowercase", "to_uppercase",
    "to_lowercase", "to_ascii_uppercase", "to_ascii_lowercase", "chars", "bytes", "char_indices", "strip_prefix", "strip_suffix",
    "trim_start_matches", "trim_end_matches", "split", "rsplit", "split_once", "rsplit_once", "find", "rfind", "dedup", "reverse",
    "max_by", "min_by", "max_by_key", "min_by_key", "binary_search",
];
const SPELLING_TYPES: &[&str] = &["BTreeMap", "BTreeSet", "BinaryHeap"];

struct RawSpell {
    what: String,
}

fn scan_spelling(ts: &TokenStream, out: &mut Vec<RawSpell>) {
    let v = toks(ts);
    let mut i = 0;
    while i < v.len() {
        // skip the body of quote!/quote_spanned!/parse_quote!/format!-like token templates that are EMITTED code
        if (v[i] == "quote" || v[i] == "quote_spanned" || v[i] == "parse_quote") && v.get(i + 1).map(|t| t == "!").unwrap_or(false) {
            if let Some(open) = v.get(i + 2) {
                if is_open(open) {
                    let mut d = 0i32;
                    let mut k = i + 2;
                    while k < v.len() {
                        if is_open(&v[k]) {
                            d += 1;
                        } else if is_close(&v[k]) {
                            d -= 1;
                            if d == 0 {
                                break;
                            }
                        }
                        k += 1;
                    }
                    i = k + 1;
                    continue;
                }
            }
        }
        if SPELLING_TYPES.contains(&v[i].as_str()) {
            out.push(RawSpell { what: v[i].clone() });
        }
        if v[i] == "." && i + 2 < v.len() && v[i + 2] == "(" {
            let m = v[i + 1].as_str();
            let lit_arg = v.get(i + 3).map(|t| t.starts_with('"') || t.starts_with('\'')).unwrap_or(false);
            let needs_lit = matches!(m, "contains" | "find" | "rfind" | "split" | "rsplit" | "split_once" | "rsplit_once");
            if (SPELLING_METHODS.contains(&m) && !needs_lit) || (needs_lit && lit_arg) {
                // receiver: the identifier chain before the dot (up to 3 segments)
                let mut b = i;
                let mut recv: Vec<String> = Vec::new();
                while b > 0 && recv.len() < 5 {
                    let t = &v[b - 1];
                    let c = t.chars().next().unwrap_or(' ');
                    let kw = matches!(t.as_str(), "if" | "else" | "return" | "let" | "match" | "in" | "while" | "for" | "mut");
                    if !kw && (c.is_ascii_alphanumeric() || c == '_' || t == ".") {
                        recv.insert(0, t.clone());
                        b -= 1;
                    } else {
                        break;
                    }
                }
                let mut k = i + 3;
                let mut d = 0i32;
                let mut arg: Vec<String> = Vec::new();
                while k < v.len() && arg.len() < 8 {
                    if is_open(&v[k]) {
                        d += 1;
                    } else if is_close(&v[k]) {
                        if d == 0 {
                            break;
                        }
                        d -= 1;
                    }
                    arg.push(v[k].clone());
                    k += 1;
                }
                out.push(RawSpell { what: format!("{}.{}({})", recv.join(""), m, arg.join(" ")) });
            }
        }
        i += 1;
    }
}

fn extract(repo: &Path) -> String {
    let mut errors: Vec<String> = Vec::new();

    // --- RUST_KEYWORDS + is_keyword
    let mut rust_keywords: Vec<String> = Vec::new();
    let mut is_keyword_body = String::new();
    if let Some(f) = read_file(&repo.join("crates/incan_core/src/lang/rust_keywords.rs"), &mut errors) {
        match find_const(&f, "RUST_KEYWORDS") {
            Some(c) => str_lits(c.expr.to_token_stream(), &mut rust_keywords),
            None => errors.push("RUST_KEYWORDS const not found".to_string()),
        }
        match find_fn(&f, "is_keyword") {
            Some(func) => {
                is_keyword_body = norm(&func.block.to_token_stream());
                if is_keyword_body != "{ RUST_KEYWORDS . contains ( & name ) }" {
                    errors.push(format!("rust_keywords::is_keyword has an unrecognised body: `{}`", is_keyword_body));
                }
            }
            None => errors.push("rust_keywords::is_keyword not found".to_string()),
        }
    }

    // --- Incan KEYWORDS (canonical + aliases) and from_str
    let mut incan_keywords: Vec<Value> = Vec::new();
    let mut from_str_body = String::new();
    if let Some(f) = read_file(&repo.join("crates/incan_core/src/lang/keywords.rs"), &mut errors) {
        match find_const(&f, "KEYWORDS") {
            Some(c) => {
                let mut arr: Option<&syn::ExprArray> = None;
                let mut e: &syn::Expr = &c.expr;
                loop {
                    match e {
                        syn::Expr::Reference(r) => e = &r.expr,
                        syn::Expr::Array(a) => {
                            arr = Some(a);
                            break;
                        }
                        _ => break,
                    }
                }
                match arr {
                    Some(a) => {
                        for el in &a.elems {
                            match el {
                                syn::Expr::Call(call) if call.args.len() >= 3 => {
                                    let mut canon = Vec::new();
                                    str_lits(call.args[1].to_token_stream(), &mut canon);
                                    let mut aliases = Vec::new();
                                    str_lits(call.args[2].to_token_stream(), &mut aliases);
                                    if canon.len() != 1 {
                                        errors.push(format!("KEYWORDS entry without a literal canonical spelling: `{}`", norm(&el.to_token_stream())));
                                    } else {
                                        incan_keywords.push(json!({"id": norm(&call.args[0].to_token_stream()), "canonical": canon[0], "aliases": aliases}));
                                    }
                                }
                                other => errors.push(format!("unrecognised KEYWORDS entry `{}`", norm(&other.to_token_stream()))),
                            }
                        }
                    }
                    None => errors.push("KEYWORDS is not an array literal".to_string()),
                }
            }
            None => errors.push("KEYWORDS const not found".to_string()),
        }
        match find_fn(&f, "from_str") {
            Some(func) => {
                from_str_body = norm(&func.block.to_token_stream());
                let expect = "{ if let Some ( k ) = KEYWORDS . iter ( ) . find ( | k | k . canonical == s ) { return Some ( k . id ) ; } KEYWORDS . iter ( ) . find ( | k | { let aliases : & [ & str ] = k . aliases ; aliases . contains ( & s ) } ) . map ( | k | k . id ) }";
                if from_str_body != expect {
                    errors.push(format!("keywords::from_str has an unrecognised body: `{}`", from_str_body));
                }
            }
            None => errors.push("keywords::from_str not found".to_string()),
        }
    }

    // --- lexer identifier classes + scan_identifier keyword lookup
    let mut ident_start: Vec<String> = Vec::new();
    let mut ident_continue: Vec<String> = Vec::new();
    let mut scan_identifier_body = String::new();
    if let Some(f) = read_file(&repo.join("crates/incan_syntax/src/lexer/mod.rs"), &mut errors) {
        for (name, out) in [("is_ident_start", &mut ident_start), ("is_ident_continue", &mut ident_continue)] {
            match find_fn(&f, name).and_then(fn_tail_expr) {
                Some(e) => {
                    if let Err(m) = char_class(e, out) {
                        errors.push(format!("lexer {}: {}", name, m));
                    }
                }
                None => errors.push(format!("lexer {} not found or not a single expression", name)),
            }
        }
        let mut fns = Vec::new();
        let mut none = None;
        collect_fns(&f.items, false, &mut fns, &mut none);
        match fns.iter().find(|x| x.name == "scan_identifier") {
            Some(x) => {
                scan_identifier_body = norm(&x.tokens);
                let expect = "{ while let Some ( c ) = self . peek ( ) { if is_ident_continue ( c ) { self . advance ( ) ; } else { break ; } } let spelling = & self . source [ start .. self . current_pos ] ; if let Some ( id ) = keyword_id ( spelling ) { self . add_token ( TokenKind :: Keyword ( id ) , start ) ; } else { self . add_token ( TokenKind :: Ident ( spelling . to_string ( ) ) , start ) ; } }";
                let got = scan_identifier_body.clone();
                if got != expect {
                    errors.push(format!("lexer scan_identifier has an unrecognised body: `{}`", got));
                }
            }
            None => errors.push("lexer scan_identifier not found".to_string()),
        }
    }
    if let Some(f) = read_file(&repo.join("crates/incan_syntax/src/lexer/tokens.rs"), &mut errors) {
        match find_fn(&f, "keyword_id") {
            Some(func) => {
                let b = norm(&func.block.to_token_stream());
                if b != "{ keywords :: from_str ( name ) }" {
                    errors.push(format!("lexer keyword_id has an unrecognised body: `{}`", b));
                }
            }
            None => errors.push("lexer keyword_id not found".to_string()),
        }
    }

    // --- emitter: escape_keyword, sites, fixed names
    let emit_dir = repo.join("src/backend/ir/emit");
    let mut files = Vec::new();
    rs_files(&emit_dir, &mut files);
    if files.is_empty() {
        errors.push(format!("no .rs files under {}", emit_dir.display()));
    }
    let mut escape_rules = Value::Null;
    let mut escape_src = String::new();
    let mut sites: Vec<Value> = Vec::new();
    let mut fixed_all: Vec<String> = Vec::new();
    let mut lookups: Vec<Value> = Vec::new();
    let mut spelling: Vec<String> = Vec::new();
    let mut seen_lookup: std::collections::HashMap<String, usize> = std::collections::HashMap::new();
    for p in &files {
        let rel = p.strip_prefix(&emit_dir).unwrap_or(p).to_string_lossy().to_string();
        let Some(f) = read_file(p, &mut errors) else { continue };
        let mut fns = Vec::new();
        let mut esc = None;
        collect_fns(&f.items, false, &mut fns, &mut esc);
        if let Some(e) = esc {
            escape_src = norm(&e.block.to_token_stream());
            match escape_keyword_rules(&e) {
                Ok(r) => escape_rules = r,
                Err(m) => errors.push(m),
            }
        }
        let mut seen: std::collections::HashMap<String, usize> = std::collections::HashMap::new();
        for func in &fns {
            if func.is_test {
                continue;
            }
            let mut lets = Vec::new();
            escaped_lets(&func.tokens, &mut lets);
            let mut raw = Vec::new();
            let mut fixed = Vec::new();
            scan_sites(&func.tokens, &lets, &mut raw, &mut fixed, false);
            fixed_all.extend(fixed);
            let mut sp = Vec::new();
            scan_spelling(&func.tokens, &mut sp);
            for x in sp {
                let base = format!("emit/{}:{}:{}", rel, func.name, x.what);
                let n = seen_lookup.entry(base.clone()).or_insert(0);
                *n += 1;
                spelling.push(if *n == 1 { base.clone() } else { format!("{}#{}", base, n) });
            }
            let mut lk = Vec::new();
            scan_lookups(&func.tokens, &mut lk);
            for l in lk {
                let base = format!("emit/{}:{}:{}.{}({})", rel, func.name, l.table, l.method, l.key);
                let n = seen_lookup.entry(base.clone()).or_insert(0);
                *n += 1;
                let id = if *n == 1 { base.clone() } else { format!("{}#{}", base, n) };
                lookups.push(json!({"id": id, "table": l.table, "method": l.method, "key": l.key, "escaped": l.escaped}));
            }
            for s in raw {
                let base = format!("{}:{}:{}", rel, func.name, if s.fmt == "{}" { s.expr.clone() } else { format!("{}<-{}", s.fmt, s.expr) });
                let n = seen.entry(base.clone()).or_insert(0);
                *n += 1;
                let id = if *n == 1 { base.clone() } else { format!("{}#{}", base, n) };
                // prefix/suffix of the format string around the single `{}`
                let parts: Vec<&str> = s.fmt.split("{}").collect();
                let (prefix, suffix, shape_ok) = if parts.len() == 2 && s.nargs == 1 {
                    (parts[0].to_string(), parts[1].to_string(), true)
                } else {
                    (String::new(), String::new(), false)
                };
                if !shape_ok {
                    errors.push(format!("site {} has a format string that is not `<prefix>{{}}<suffix>` with one argument: {:?} / `{}`", id, s.fmt, s.expr));
                }
                sites.push(json!({"id": id, "file": rel, "func": func.name, "kind": s.kind, "fmt": s.fmt, "expr": s.expr,
                                  "prefix": prefix, "suffix": suffix, "escaped": s.escaped, "via_let": s.via_let}));
            }
        }
    }
    if escape_rules.is_null() && !errors.iter().any(|e| e.contains("escape_keyword")) {
        errors.push("escape_keyword not found under src/backend/ir/emit".to_string());
    }
    fixed_all.sort();
    fixed_all.dedup();

    // lookups in lower/** (same tables are filled and queried there)
    let lower_dir = repo.join("src/backend/ir/lower");
    let mut lfiles = Vec::new();
    rs_files(&lower_dir, &mut lfiles);
    for p in &lfiles {
        let rel = p.strip_prefix(&lower_dir).unwrap_or(p).to_string_lossy().to_string();
        let Some(f) = read_file(p, &mut errors) else { continue };
        let mut fns = Vec::new();
        let mut none = None;
        collect_fns(&f.items, false, &mut fns, &mut none);
        for func in &fns {
            if func.is_test {
                continue;
            }
            let mut sp = Vec::new();
            scan_spelling(&func.tokens, &mut sp);
            for x in sp {
                let base = format!("lower/{}:{}:{}", rel, func.name, x.what);
                let n = seen_lookup.entry(base.clone()).or_insert(0);
                *n += 1;
                spelling.push(if *n == 1 { base.clone() } else { format!("{}#{}", base, n) });
            }
            let mut lk = Vec::new();
            scan_lookups(&func.tokens, &mut lk);
            for l in lk {
                let base = format!("lower/{}:{}:{}.{}({})", rel, func.name, l.table, l.method, l.key);
                let n = seen_lookup.entry(base.clone()).or_insert(0);
                *n += 1;
                let id = if *n == 1 { base.clone() } else { format!("{}#{}", base, n) };
                lookups.push(json!({"id": id, "table": l.table, "method": l.method, "key": l.key, "escaped": l.escaped}));
            }
        }
    }

    json!({
        "rust_keywords": rust_keywords,
        "is_keyword_body": is_keyword_body,
        "incan_keywords": incan_keywords,
        "from_str_body": from_str_body,
        "ident_start": ident_start,
        "ident_continue": ident_continue,
        "scan_identifier_body": scan_identifier_body,
        "escape_rules": escape_rules,
        "escape_src": escape_src,
        "sites": sites,
        "fixed_temporaries": fixed_all,
        "lookups": lookups,
        "spelling_sites": spelling,
        "errors": errors,
    })
    .to_string()
}
