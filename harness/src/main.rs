mod common;
mod rs2v;
mod c04;

fn main() {
    let args: Vec<String> = std::env::args().collect();
    let cmd = args.get(1).map(|s| s.as_str()).unwrap_or("");
    let code = match cmd {
        "rs2v" => {
            // vharness rs2v <repo> <spec.json> <out_dir>
            if args.len() < 5 {
                eprintln!("usage: vharness rs2v <repo> <spec.json> <out_dir>");
                2
            } else {
                rs2v::run(&args[2], &args[3], &args[4])
            }
        }
        "run" => {
            common::silence_panics();
            match args.get(2).map(|s| s.as_str()).unwrap_or("") {
                "c04" => c04::run(),
                other => {
                    eprintln!("unknown runner {}", other);
                    std::process::exit(2);
                }
            }
            0
        }
        _ => {
            eprintln!("usage: vharness <rs2v|run> ...");
            2
        }
    };
    std::process::exit(code);
}
