//! vharness — drives the real /repo code for the /verif checks and hosts the rs2v translator.
//! `vharness rs2v <repo> <spec.json> <out_dir>` | `vharness run cNN [args...]` (cases on stdin).
mod common;
mod rs2v;
#[cfg(feature = "c01")]
mod c01;
#[cfg(feature = "c02")]
mod c02;
#[cfg(feature = "c03")]
mod c03;
#[cfg(feature = "c04")]
mod c04;
#[cfg(feature = "c05")]
mod c05;
#[cfg(feature = "c06")]
mod c06;
#[cfg(feature = "c07")]
mod c07;
#[cfg(feature = "c08")]
mod c08;
#[cfg(feature = "c09")]
mod c09;
#[cfg(feature = "c10")]
mod c10;
#[cfg(feature = "c11")]
mod c11;
#[cfg(feature = "c12")]
mod c12;
#[cfg(feature = "c13")]
mod c13;
#[cfg(feature = "c14")]
mod c14;
#[cfg(feature = "c15")]
mod c15;
#[cfg(feature = "c16")]
mod c16;
#[cfg(feature = "c17")]
mod c17;
#[cfg(feature = "c18")]
mod c18;
#[cfg(feature = "c19")]
mod c19;
#[cfg(feature = "c20")]
mod c20;

fn main() {
    let args: Vec<String> = std::env::args().collect();
    let cmd = args.get(1).map(|s| s.as_str()).unwrap_or("");
    let code = match cmd {
        "rs2v" => {
            if args.len() < 5 {
                eprintln!("usage: vharness rs2v <repo> <spec.json> <out_dir>");
                2
            } else {
                rs2v::run(&args[2], &args[3], &args[4])
            }
        }
        "run" => {
            common::silence_panics();
            let rest: &[String] = if args.len() > 3 { &args[3..] } else { &[] };
            match args.get(2).map(|s| s.as_str()).unwrap_or("") {
                #[cfg(feature = "c01")]
                "c01" => c01::run(rest),
                #[cfg(feature = "c02")]
                "c02" => c02::run(rest),
                #[cfg(feature = "c03")]
                "c03" => c03::run(rest),
                #[cfg(feature = "c04")]
                "c04" => c04::run(rest),
                #[cfg(feature = "c05")]
                "c05" => c05::run(rest),
                #[cfg(feature = "c06")]
                "c06" => c06::run(rest),
                #[cfg(feature = "c07")]
                "c07" => c07::run(rest),
                #[cfg(feature = "c08")]
                "c08" => c08::run(rest),
                #[cfg(feature = "c09")]
                "c09" => c09::run(rest),
                #[cfg(feature = "c10")]
                "c10" => c10::run(rest),
                #[cfg(feature = "c11")]
                "c11" => c11::run(rest),
                #[cfg(feature = "c12")]
                "c12" => c12::run(rest),
                #[cfg(feature = "c13")]
                "c13" => c13::run(rest),
                #[cfg(feature = "c14")]
                "c14" => c14::run(rest),
                #[cfg(feature = "c15")]
                "c15" => c15::run(rest),
                #[cfg(feature = "c16")]
                "c16" => c16::run(rest),
                #[cfg(feature = "c17")]
                "c17" => c17::run(rest),
                #[cfg(feature = "c18")]
                "c18" => c18::run(rest),
                #[cfg(feature = "c19")]
                "c19" => c19::run(rest),
                #[cfg(feature = "c20")]
                "c20" => c20::run(rest),
                other => {
                    eprintln!("unknown runner {}", other);
                    std::process::exit(2);
                }
            }
            0
        }
        _ => {
            eprintln!("usage: vharness <rs2v|run> ...");
            2
        }
    };
    std::process::exit(code);
}
