//! vharness — drives the real /repo code for the /verif checks and hosts the rs2v translator.
//! `vharness rs2v <repo> <spec.json> <out_dir>` | `vharness run cNN [args...]` (cases on stdin).
mod common;
mod rs2v;
mod c01;
mod c02;
mod c03;
mod c04;
mod c05;
mod c06;
mod c07;
mod c08;
mod c09;
mod c10;
mod c11;
mod c12;
mod c13;
mod c14;
mod c15;
mod c16;
mod c17;
mod c18;
mod c19;
mod c20;

fn main() {
    let args: Vec<String> = std::env::args().collect();
    let cmd = args.get(1).map(|s| s.as_str()).unwrap_or("");
    let code = match cmd {
        "rs2v" => {
            if args.len() < 5 {
                eprintln!("usage: vharness rs2v <repo> <spec.json> <out_dir>");
                2
            } else {
                rs2v::run(&args[2], &args[3], &args[4])
            }
        }
        "run" => {
            common::silence_panics();
            let rest: &[String] = if args.len() > 3 { &args[3..] } else { &[] };
            match args.get(2).map(|s| s.as_str()).unwrap_or("") {
                "c01" => c01::run(rest),
                "c02" => c02::run(rest),
                "c03" => c03::run(rest),
                "c04" => c04::run(rest),
                "c05" => c05::run(rest),
                "c06" => c06::run(rest),
                "c07" => c07::run(rest),
                "c08" => c08::run(rest),
                "c09" => c09::run(rest),
                "c10" => c10::run(rest),
                "c11" => c11::run(rest),
                "c12" => c12::run(rest),
                "c13" => c13::run(rest),
                "c14" => c14::run(rest),
                "c15" => c15::run(rest),
                "c16" => c16::run(rest),
                "c17" => c17::run(rest),
                "c18" => c18::run(rest),
                "c19" => c19::run(rest),
                "c20" => c20::run(rest),
                other => {
                    eprintln!("unknown runner {}", other);
                    std::process::exit(2);
                }
            }
            0
        }
        _ => {
            eprintln!("usage: vharness <rs2v|run> ...");
            2
        }
    };
    std::process::exit(code);
}
