//! C20: derived JSON / equality / ordering / hashing / clone.
//!
//! `vharness run c20 table` — one line per case: `<model|class|modelm|classm> <D1,D2[+D3,...]|->` (`+` starts another
//!   `@derive(..)` decorator on the same declaration; the
//!   `m` kinds add one method to the declaration). Output `names|<to_json emitted 0/1>|<from_json emitted 0/1>`. Runs the REAL
//!   lexer, parser, type checker, lowering (`lower_model`/`lower_class` + `extract_derives`) and
//!   emitter (`emit_struct`) on a declaration carrying `@derive(D1, D2, ...)` and prints the names
//!   of the `#[derive(...)]` attribute of the emitted struct, in order, comma separated
//!   (`serde::Serialize` -> `Serialize`), or `ERR <message>`.
//! `vharness run c20 fields` — one line per case: `<source.incn>`. Same pipeline; prints `OK Name:f1,f2@attrs;...`: the field
//!   names of every emitted struct in emission order (the order derived Ord/Serialize use), or `ERR <message>`.
//! `vharness run c20 gen` — one line per case: `<source.incn>\t<out_dir>\t<project_name>`. Runs the
//!   library pipeline of `incan build` (src/cli/commands.rs prepare_project, single-file branch) up
//!   to and including `ProjectGenerator::generate`, i.e. writes Cargo.toml + src/main.rs, and prints
//!   `OK serde=<bool>` or `ERR <message>`. cargo is run by the check script (offline, shared target).
use crate::common::{catch, each_line};
use incan::{lexer, parser, IrCodegen, ProjectGenerator};

fn errs(stage: &str, es: &[incan::diagnostics::CompileError]) -> String {
    let mut s = format!("{}:", stage);
    for e in es {
        s.push(' ');
        s.push_str(&e.message);
        s.push(';');
    }
    s
}

/// source -> (rust code, needs_serde, needs_tokio, needs_axum)
fn compile(source: &str) -> Result<(String, bool, bool, bool), String> {
    let tokens = lexer::lex(source).map_err(|e| errs("lex", &e))?;
    let ast = parser::parse(&tokens).map_err(|e| errs("parse", &e))?;
    // same order as prepare_project
    let mut tc = incan::typechecker::TypeChecker::new();
    tc.check_with_imports(&ast, &[]).map_err(|e| errs("typecheck", &e))?;
    let mut cg = IrCodegen::new();
    cg.scan_for_serde(&ast);
    cg.scan_for_async(&ast);
    cg.scan_for_web(&ast);
    cg.scan_for_list_helpers(&ast);
    let (s, t, a) = (cg.needs_serde(), cg.needs_tokio(), cg.needs_axum());
    let code = cg.try_generate(&ast).map_err(|e| format!("codegen: {}", e))?;
    Ok((code, s, t, a))
}

fn derive_names_of(code: &str, struct_name: &str) -> Result<Vec<String>, String> {
    let file = syn::parse_file(code).map_err(|e| format!("emitted Rust does not parse: {}", e))?;
    for item in &file.items {
        if let syn::Item::Struct(st) = item {
            if st.ident == struct_name {
                let mut names = Vec::new();
                for attr in &st.attrs {
                    if attr.path().is_ident("derive") {
                        let paths = attr
                            .parse_args_with(syn::punctuated::Punctuated::<syn::Path, syn::Token![,]>::parse_terminated)
                            .map_err(|e| format!("derive attribute does not parse: {}", e))?;
                        for p in paths {
                            if let Some(seg) = p.segments.last() {
                                names.push(seg.ident.to_string());
                            }
                        }
                    }
                }
                return Ok(names);
            }
        }
    }
    Err(format!("struct {} not emitted", struct_name))
}

/// does an inherent `impl <name> { .. }` of the emitted file define to_json / from_json?
fn json_methods_of(code: &str, struct_name: &str) -> (bool, bool) {
    let (mut tj, mut fj) = (false, false);
    if let Ok(file) = syn::parse_file(code) {
        for item in &file.items {
            if let syn::Item::Impl(im) = item {
                let is_target = matches!(&*im.self_ty, syn::Type::Path(p) if p.path.is_ident(struct_name));
                if im.trait_.is_none() && is_target {
                    for it in &im.items {
                        if let syn::ImplItem::Fn(f) = it {
                            if f.sig.ident == "to_json" {
                                tj = true;
                            }
                            if f.sig.ident == "from_json" {
                                fj = true;
                            }
                        }
                    }
                }
            }
        }
    }
    (tj, fj)
}

fn table_case(line: &str) -> String {
    let mut it = line.split_whitespace();
    let kind = it.next().unwrap_or("model");
    let ds = it.next().unwrap_or("-");
    // `A,B+C` = two decorators `@derive(A, B)` and `@derive(C)` on the same declaration
    let groups: Vec<Vec<&str>> = if ds == "-" { vec![] } else { ds.split('+').map(|g| g.split(',').collect()).collect() };
    let list: Vec<&str> = groups.iter().flatten().copied().collect();
    let mut src = String::new();
    for g in &groups {
        src.push_str(&format!("@derive({})\n", g.join(", ")));
    }
    let with_method = kind == "classm" || kind == "modelm";
    let kw = if kind.starts_with("class") { "class" } else { "model" };
    src.push_str(&format!("{} M:\n    x: int\n", kw));
    if with_method {
        src.push_str("\n    def nm(self) -> int:\n        return 1\n");
    }
    if list.iter().any(|d| *d == "Validate") {
        src.push_str("\n    def validate(self) -> Result[M, str]:\n        return Ok(self)\n");
    }
    src.push_str("\ndef main() -> None:\n    pass\n");
    match catch(|| compile(&src)) {
        Ok(Ok((code, _, _, _))) => match derive_names_of(&code, "M") {
            Ok(n) => {
                let (tj, fj) = json_methods_of(&code, "M");
                format!("{}|{}|{}", n.join(","), tj as u8, fj as u8)
            }
            Err(e) => format!("ERR {}", e),
        },
        Ok(Err(e)) => format!("ERR {}", e),
        Err(p) => format!("ERR panic: {}", p),
    }
}

fn gen_case(line: &str) -> String {
    let p: Vec<&str> = line.split('\t').collect();
    if p.len() < 3 {
        return "ERR bad case line".to_string();
    }
    let (src_path, out_dir, name) = (p[0], p[1], p[2]);
    let source = match std::fs::read_to_string(src_path) {
        Ok(s) => s,
        Err(e) => return format!("ERR read: {}", e),
    };
    match catch(|| compile(&source)) {
        Ok(Ok((code, serde, tokio, axum))) => {
            let mut g = ProjectGenerator::new(out_dir, name, true);
            g.set_needs_serde(serde);
            g.set_needs_tokio(tokio);
            g.set_needs_axum(axum);
            match g.generate(&code) {
                Ok(()) => format!("OK serde={}", serde),
                Err(e) => format!("ERR generate: {}", e),
            }
        }
        Ok(Err(e)) => format!("ERR {}", e),
        Err(p) => format!("ERR panic: {}", p),
    }
}

/// `<source.incn>` -> `Name:f1,f2;Name2:...` for every struct of the emitted Rust, fields in emission order
fn fields_case(line: &str) -> String {
    let source = match std::fs::read_to_string(line.trim()) {
        Ok(s) => s,
        Err(e) => return format!("ERR read: {}", e),
    };
    match catch(|| compile(&source)) {
        Ok(Ok((code, _, _, _))) => match syn::parse_file(&code) {
            Ok(file) => {
                let mut out = Vec::new();
                for item in &file.items {
                    if let syn::Item::Struct(st) = item {
                        let names: Vec<String> = st
                            .fields
                            .iter()
                            .enumerate()
                            .map(|(i, f)| f.ident.as_ref().map(|x| x.to_string()).unwrap_or_else(|| i.to_string()))
                            .collect();
                        // every attribute other than derive/allow/doc on the struct or on a field (e.g. #[serde(..)])
                        let mut attrs: Vec<String> = Vec::new();
                        let mut note = |a: &syn::Attribute, at: &str| {
                            let p = a.path();
                            if !(p.is_ident("derive") || p.is_ident("allow") || p.is_ident("doc")) {
                                use quote::ToTokens;
                                attrs.push(format!("{} {}", at, a.to_token_stream().to_string().replace([';', ',', ':', '@'], " ")));
                            }
                        };
                        for a in &st.attrs {
                            note(a, "struct");
                        }
                        for (i, f) in st.fields.iter().enumerate() {
                            for a in &f.attrs {
                                note(a, &names[i]);
                            }
                        }
                        out.push(format!("{}:{}@{}", st.ident, names.join(","), attrs.join(" & ")));
                    }
                }
                format!("OK {}", out.join(";"))
            }
            Err(e) => format!("ERR emitted Rust does not parse: {}", e),
        },
        Ok(Err(e)) => format!("ERR {}", e),
        Err(p) => format!("ERR panic: {}", p),
    }
}

pub fn run(args: &[String]) {
    match args.first().map(|s| s.as_str()).unwrap_or("") {
        "table" => each_line(table_case),
        "fields" => each_line(fields_case),
        "gen" => each_line(gen_case),
        other => {
            eprintln!("c20: unknown mode {:?} (table|gen|fields)", other);
            std::process::exit(2);
        }
    }
}
