//! C14: drive the REAL import resolvers / module collectors / type checker of /repo on directory
//! trees that the check has written to disk.
//!
//! `vharness run c14 <root>`: stdin has one tab-separated command per line, one result line each.
//! Paths in results are printed relative to `<root>` (absolute if outside it). Every generated file
//! starts with the line `# F <id>`; a loaded module is identified by that id, read back from the
//! `source` the real code returns (so the file the real code opened is observed, not recomputed).
//!
//!   rip  <base_dir> <import stmt>      frontend::module::resolve_import_path  -> `S <path>` | `N`
//!   imp  <import stmt>                 parser only -> `K <M|F|O> <abs 0/1> <levels> <seg.seg>` | `E`
//!   cli  <cwd> <entry>                 cli::commands::collect_modules          -> `OK name,segs,id;...` | `ERR text`
//!   mr   <cwd> <entry>                 frontend::resolver::ModuleResolver      -> same format
//!   mc   <cwd> <entry>                 frontend::module::ModuleCollector       -> `OK id;id` (sorted) | `ERR text`
//!   lsp  <entry abs path>              in-process tower-lsp didOpen            -> `OK deps=<path;..> self=<n> diags=<msg||msg>`
//!                                      (deps = files for which the server published diagnostics, in publication order; self = how often the entry was loaded as a dependency)
//!   check <cwd> <entry>                collect_modules + TypeChecker::check_with_imports (body of check_file)
//!                                      -> `PASS @@<modules>` | `FAIL msg||msg @@<modules>` | `ERR text`  (modules as for cli)
//!   checkcli <cwd> <entry> <ms>        child process running the real cli::commands::check_file with a timeout
//!                                      -> `PASS` | `FAIL text` | `TIMEOUT` | `CRASH text`
//!   `vharness run c14 --child-check <cwd> <entry>` is that child.
use crate::common::catch;
use std::path::{Path, PathBuf};
use std::sync::{Arc, Mutex};

use incan::frontend::ast::{Declaration, ImportDecl, ImportKind, Program};

fn rel(root: &str, p: &str) -> String {
    if root.is_empty() {
        return p.to_string();
    }
    let pre = format!("{}/", root.trim_end_matches('/'));
    match p.strip_prefix(&pre) {
        Some(r) => r.to_string(),
        None => p.to_string(),
    }
}

fn file_id(source: &str) -> String {
    let first = source.lines().next().unwrap_or("");
    match first.strip_prefix("# F ") {
        Some(id) => id.trim().to_string(),
        None => "?".to_string(),
    }
}

fn parse_program(src: &str) -> Result<Program, String> {
    let tokens = incan::lexer::lex(src).map_err(|e| format!("lex: {}", e.iter().map(|x| x.message.clone()).collect::<Vec<_>>().join("; ")))?;
    incan::parser::parse(&tokens).map_err(|e| format!("parse: {}", e.iter().map(|x| x.message.clone()).collect::<Vec<_>>().join("; ")))
}

fn first_import(src: &str) -> Result<ImportDecl, String> {
    let text = format!("{}\n", src);
    let prog = parse_program(&text)?;
    for d in &prog.declarations {
        if let Declaration::Import(i) = &d.node {
            return Ok(i.clone());
        }
    }
    Err("no import".to_string())
}

fn clean(s: &str) -> String {
    // strip ANSI colour sequences and newlines
    let mut out = String::new();
    let mut it = s.chars().peekable();
    while let Some(c) = it.next() {
        if c == '\u{1b}' {
            for d in it.by_ref() {
                if d == 'm' {
                    break;
                }
            }
        } else if c == '\n' || c == '\r' || c == '\t' {
            out.push(' ');
        } else {
            out.push(c);
        }
    }
    out
}

fn with_cwd<T>(cwd: &str, f: impl FnOnce() -> T) -> T {
    let old = std::env::current_dir().ok();
    if !cwd.is_empty() {
        std::env::set_current_dir(cwd).expect("cwd");
    }
    let r = f();
    if let Some(o) = old {
        let _ = std::env::set_current_dir(o);
    }
    r
}

fn show_import(i: &ImportDecl) -> String {
    let (k, p) = match &i.kind {
        ImportKind::Module(p) => ("M", Some(p)),
        ImportKind::From { module, .. } => ("F", Some(module)),
        _ => ("O", None),
    };
    match p {
        Some(p) => format!("K {} {} {} {}", k, if p.is_absolute { 1 } else { 0 }, p.parent_levels, p.segments.join(".")),
        None => format!("K {} 0 0 ", k),
    }
}

fn lsp_open(entry: &Path) -> Result<(Vec<String>, Vec<String>, usize), String> {
    use futures_util::StreamExt;
    use tower_lsp::jsonrpc::Request;
    use tower_lsp::LspService;
    use tower_service::Service;

    let text = std::fs::read_to_string(entry).map_err(|e| format!("read: {}", e))?;
    let uri = tower_lsp::lsp_types::Url::from_file_path(entry).map_err(|_| "bad uri".to_string())?;
    let rt = tokio::runtime::Builder::new_current_thread().enable_all().build().map_err(|e| e.to_string())?;
    let seen: Arc<Mutex<Vec<(String, Vec<String>)>>> = Arc::new(Mutex::new(Vec::new()));
    let seen2 = seen.clone();
    let drained = rt.block_on(async move {
        let (mut service, mut socket) = LspService::new(incan::lsp::IncanLanguageServer::new);
        let drain = tokio::spawn(async move {
            while let Some(req) = socket.next().await {
                if req.method() == "textDocument/publishDiagnostics" {
                    if let Some(p) = req.params() {
                        let u = p.get("uri").and_then(|x| x.as_str()).unwrap_or("").to_string();
                        let msgs: Vec<String> = p
                            .get("diagnostics")
                            .and_then(|d| d.as_array())
                            .map(|a| a.iter().map(|d| d.get("message").and_then(|m| m.as_str()).unwrap_or("").to_string()).collect())
                            .unwrap_or_default();
                        seen2.lock().unwrap().push((u, msgs));
                    }
                }
            }
        });
        let init = Request::build("initialize").params(serde_json::json!({"capabilities": {}})).id(1).finish();
        let _ = service.call(init).await;
        let inited = Request::build("initialized").params(serde_json::json!({})).finish();
        let _ = service.call(inited).await;
        let open = Request::build("textDocument/didOpen")
            .params(serde_json::json!({"textDocument": {"uri": uri.to_string(), "languageId": "incan", "version": 1, "text": text}}))
            .finish();
        let _ = service.call(open).await;
        drop(service);
        // Wait for every notification the server sent. A wall-clock limit must never silently truncate the
        // list (that would look like "the LSP loaded fewer files"): on expiry the whole call is an error.
        tokio::time::timeout(std::time::Duration::from_secs(120), drain).await.is_ok()
    });
    if !drained {
        return Err("LSP-TIMEOUT notifications not drained within 120 s".to_string());
    }
    let entry_uri = tower_lsp::lsp_types::Url::from_file_path(entry).unwrap().to_string();
    let mut deps = Vec::new();
    let mut diags = Vec::new();
    let mut entry_pubs = 0usize;
    for (u, msgs) in seen.lock().unwrap().iter() {
        if *u == entry_uri {
            // the last publication for the entry carries its diagnostics; earlier ones mean that
            // the entry was itself loaded as a dependency
            diags = msgs.clone();
            entry_pubs += 1;
        } else {
            let p = tower_lsp::lsp_types::Url::parse(u).ok().and_then(|x| x.to_file_path().ok()).map(|x| x.to_string_lossy().to_string()).unwrap_or(u.clone());
            deps.push(p);
        }
    }
    Ok((deps, diags, entry_pubs.saturating_sub(1)))
}

fn do_check(entry: &str) -> String {
    use incan::typechecker::TypeChecker;
    let modules = match incan::cli::commands::collect_modules(entry) {
        Ok(m) => m,
        Err(e) => return format!("ERR {}", clean(&e.message)),
    };
    let Some(main_module) = modules.last() else {
        return "ERR No modules found".to_string();
    };
    let deps: Vec<(&str, &Program)> = modules[..modules.len() - 1].iter().map(|m| (m.name.as_str(), &m.ast)).collect();
    let mods = modules.iter().map(|m| format!("{},{},{}", m.name, m.path_segments.join("."), file_id(&m.source))).collect::<Vec<_>>().join(";");
    let mut checker = TypeChecker::new();
    match checker.check_with_imports(&main_module.ast, &deps) {
        Ok(()) => format!("PASS @@{}", mods),
        Err(errs) => format!("FAIL {} @@{}", errs.iter().map(|e| clean(&e.message)).collect::<Vec<_>>().join("||"), mods),
    }
}

fn child_check(cwd: &str, entry: &str) -> i32 {
    if !cwd.is_empty() {
        std::env::set_current_dir(cwd).expect("cwd");
    }
    match incan::cli::commands::check_file(entry) {
        Ok(_) => {
            println!("C14-CHILD PASS");
            0
        }
        Err(e) => {
            println!("C14-CHILD FAIL {}", clean(&e.message));
            0
        }
    }
}

fn spawn_check(cwd: &str, entry: &str, ms: u64) -> String {
    use std::io::Read;
    use std::process::{Command, Stdio};
    let exe = std::env::current_exe().expect("exe");
    let mut child = match Command::new(exe)
        .args(["run", "c14", "--child-check", cwd, entry])
        .stdin(Stdio::null())
        .stdout(Stdio::piped())
        .stderr(Stdio::piped())
        .spawn()
    {
        Ok(c) => c,
        Err(e) => return format!("CRASH spawn: {}", e),
    };
    let t0 = std::time::Instant::now();
    loop {
        match child.try_wait() {
            Ok(Some(status)) => {
                let mut out = String::new();
                let mut err = String::new();
                if let Some(mut o) = child.stdout.take() {
                    let _ = o.read_to_string(&mut out);
                }
                if let Some(mut e) = child.stderr.take() {
                    let _ = e.read_to_string(&mut err);
                }
                for l in out.lines() {
                    if let Some(r) = l.strip_prefix("C14-CHILD ") {
                        return r.to_string();
                    }
                }
                return format!("CRASH status={:?} stderr={}", status.code(), clean(&err.chars().take(300).collect::<String>()));
            }
            Ok(None) => {
                if t0.elapsed().as_millis() as u64 > ms {
                    let _ = child.kill();
                    let _ = child.wait();
                    return "TIMEOUT".to_string();
                }
                std::thread::sleep(std::time::Duration::from_millis(2));
            }
            Err(e) => return format!("CRASH wait: {}", e),
        }
    }
}

pub fn run(args: &[String]) {
    if args.first().map(|s| s.as_str()) == Some("--child-check") {
        let code = child_check(args.get(1).map(|s| s.as_str()).unwrap_or(""), args.get(2).map(|s| s.as_str()).unwrap_or(""));
        std::process::exit(code);
    }
    let root = args.first().cloned().unwrap_or_default();
    // Own line loop (not common::each_line): every result is flushed at once and a watchdog thread
    // ends the process with a final `HANG` line when one case runs longer than the limit, so the
    // driver can tell exactly which case did not terminate and resume after it.
    use std::io::{BufRead, Write};
    use std::sync::atomic::{AtomicU64, Ordering};
    static STARTED_MS: AtomicU64 = AtomicU64::new(0);
    let limit_ms: u64 = std::env::var("C14_CASE_LIMIT_MS").ok().and_then(|s| s.parse().ok()).unwrap_or(10000);
    let t0 = std::time::Instant::now();
    std::thread::spawn(move || loop {
        std::thread::sleep(std::time::Duration::from_millis(100));
        let st = STARTED_MS.load(Ordering::SeqCst);
        if st != 0 && (t0.elapsed().as_millis() as u64).saturating_sub(st) > limit_ms {
            println!("HANG");
            let _ = std::io::stdout().flush();
            std::process::exit(4);
        }
    });
    let stdin = std::io::stdin();
    for line in stdin.lock().lines() {
        let Ok(line) = line else { break };
        if line.is_empty() {
            continue;
        }
        STARTED_MS.store(t0.elapsed().as_millis() as u64 + 1, Ordering::SeqCst);
        let line = line.as_str();

        let p: Vec<&str> = line.split('\t').collect();
        let cmd = p[0];
        let root = root.clone();
        let r = catch(|| match cmd {
            "imp" => match first_import(p[1]) {
                Ok(i) => show_import(&i),
                Err(e) => format!("E {}", clean(&e)),
            },
            "rip" => match first_import(p[2]) {
                Ok(i) => match incan::frontend::module::resolve_import_path(Path::new(p[1]), &i) {
                    Some(pb) => format!("S {}", rel(&root, &pb.to_string_lossy())),
                    None => "N".to_string(),
                },
                Err(e) => format!("E {}", clean(&e)),
            },
            "cli" => with_cwd(p[1], || match incan::cli::commands::collect_modules(p[2]) {
                Ok(ms) => format!(
                    "OK {}",
                    ms.iter().map(|m| format!("{},{},{}", m.name, m.path_segments.join("."), file_id(&m.source))).collect::<Vec<_>>().join(";")
                ),
                Err(e) => format!("ERR {}", clean(&e.message)),
            }),
            "mr" => with_cwd(p[1], || {
                let mut r = incan::frontend::resolver::ModuleResolver::new();
                match r.resolve(p[2]) {
                    Ok(ms) => format!(
                        "OK {}",
                        ms.iter().map(|m| format!("{},{},{}", m.name, m.path_segments.join("."), file_id(&m.source))).collect::<Vec<_>>().join(";")
                    ),
                    Err(e) => format!("ERR {}", clean(&e.to_string())),
                }
            }),
            "mc" => with_cwd(p[1], || {
                let entry = PathBuf::from(p[2]);
                let mut c = incan::frontend::module::ModuleCollector::new(&entry);
                match c.collect(&entry) {
                    Ok(ms) => {
                        let mut ids: Vec<String> = ms.iter().map(|m| file_id(&m.source)).collect();
                        ids.sort();
                        format!("OK {}", ids.join(";"))
                    }
                    Err(es) => format!("ERR {}", es.iter().map(|e| clean(&e.message)).collect::<Vec<_>>().join("||")),
                }
            }),
            "lsp" => match lsp_open(Path::new(p[1])) {
                Ok((deps, diags, selfdep)) => {
                    // keep the order in which the server published (= processed) the dependencies
                    let mut seen_dep = std::collections::HashSet::new();
                    let deps: Vec<String> = deps.iter().filter(|d| seen_dep.insert((*d).clone())).map(|d| rel(&root, d)).collect();
                    format!("OK deps={} self={} diags={}", deps.join(";"), selfdep, diags.iter().map(|d| clean(d)).collect::<Vec<_>>().join("||"))
                }
                Err(e) => format!("ERR {}", clean(&e)),
            },
            "check" => with_cwd(p[1], || do_check(p[2])),
            "checkcli" => spawn_check(p[1], p[2], p.get(3).and_then(|s| s.parse().ok()).unwrap_or(20000)),
            _ => "E bad command".to_string(),
        });
        let res = match r {
            Ok(s) => s,
            Err(msg) => format!("PANIC {}", clean(&msg)),
        };
        STARTED_MS.store(0, Ordering::SeqCst);
        println!("{}", res.replace('\n', "\\n"));
        let _ = std::io::stdout().flush();
    }
}
