//! C02 runner: same adapters as C01 (`emit` = parse, check, lower, emit, syn re-parse;
//! `build` = the real `incan build` path with cargo). See c01.rs.
pub fn run(args: &[String]) {
    crate::c01::run(args)
}
