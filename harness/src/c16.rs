//! C16 runner: drives the REAL `incan test` front to back (clap parsing -> `cli::execute` ->
//! `test_runner::run_tests` -> `run_single_test` -> `cargo test`) on generated test trees.
//!
//! `vharness run c16` reads one JSON case per stdin line:
//!   {"id":n, "files":{"rel/path":"text",..}, "dirs":["rel/dir",..], "args":["test",".","-k","x"],
//!    "script":{"<marker>:<fn>":[exit,"plain|assertion|panic|silent"],..}, "default":[0,"plain"],
//!    "real_cargo":false}
//! For each case it materialises the tree under /verif/build/c16-work/<pid>/<id>/, re-executes THIS
//! binary with argv = ["incan", args...] and VHARNESS_C16_AS_INCAN=1 (a constructor below then
//! calls the real `incan::cli::run()` before `main`, so clap parsing and the dispatch in
//! `cli::execute` are the real ones, linked from the current /repo tree) with the case directory as
//! cwd and, unless real_cargo, a stub `cargo` first on PATH whose exit status/output is scripted
//! per (file marker, test function) and which logs every invocation. It prints one JSON line:
//!   {"id","exit","stdout","stderr","log":[..],"harness":{fn:{"test_attrs":n,"marked":[fn..],"selected_is_test":b,
//!    "has_main":b,"calls_selected":b}}}
//! `vharness run c16 discover` instead calls the public `discover_test_files` /
//! `discover_tests_and_fixtures` directly and prints what they return.
use std::collections::BTreeMap;
use std::fs;
use std::io::{self, BufRead, Write};
use std::path::{Path, PathBuf};
use std::process::{Command, Stdio};
use std::sync::{Arc, Mutex};

use incan::cli::test_runner::{discover_test_files, discover_tests_and_fixtures, FixtureScope, TestMarker};
use serde_json::{json, Value};

const WORK: &str = "/verif/build/c16-work";
const AS_INCAN: &str = "VHARNESS_C16_AS_INCAN";

// ---------------------------------------------------------------------------------------------
// Re-exec hook: with VHARNESS_C16_AS_INCAN set this process behaves as the `incan` binary
// (src/main.rs is `incan::cli::run()` plus tracing setup). Runs from .init_array, i.e. after
// std captured argc/argv (std uses .init_array.00099) and before vharness' own `main`.
#[used]
#[link_section = ".init_array"]
static C16_AS_INCAN_CTOR: extern "C" fn() = c16_as_incan;

extern "C" fn c16_as_incan() {
    if std::env::var_os(AS_INCAN).is_some() {
        incan::cli::run();
        std::process::exit(0);
    }
}

const STUB: &str = r#"#!/bin/sh
# stub cargo for /verif C16: scripted exit status per (file marker, test function)
fn=$(basename "$PWD")
mk=$(grep -o 'c16_file_marker_[0-9]*' src/main.rs 2>/dev/null | head -n 1)
key="${mk#c16_file_marker_}:$fn"
echo "$key $*" >> "$C16_LOG"
ex=""; kind=""
while read -r k e kd; do
  if [ "$k" = "$key" ]; then ex=$e; kind=$kd; break; fi
done < "$C16_SCRIPT"
if [ -z "$ex" ]; then ex=$C16_DEFAULT_EXIT; kind=$C16_DEFAULT_KIND; fi
case "$kind" in
  assertion) echo "thread 'main' panicked at src/main.rs:1:1:" >&2; echo "assertion failed: left != right ($key)" >&2 ;;
  panic) echo "running 1 test"; echo "thread 'main' panicked at src/main.rs:2:2:"; echo "  boom $key"; echo "" ;;
  plain) echo "running 0 tests"; echo "stub-out $key"; echo "stub-err $key" >&2 ;;
  *) ;;
esac
exit "$ex"
"#;

fn write_tree(root: &Path, case: &Value) -> io::Result<()> {
    fs::create_dir_all(root)?;
    if let Some(dirs) = case.get("dirs").and_then(|d| d.as_array()) {
        for d in dirs {
            if let Some(d) = d.as_str() {
                fs::create_dir_all(root.join(d))?;
            }
        }
    }
    if let Some(files) = case.get("files").and_then(|f| f.as_object()) {
        for (rel, text) in files {
            let p = root.join(rel);
            if let Some(parent) = p.parent() {
                fs::create_dir_all(parent)?;
            }
            fs::write(&p, text.as_str().unwrap_or(""))?;
        }
    }
    Ok(())
}

/// Identifier / punctuation tokens of a Rust text (good enough for generated code: comments and
/// string contents are tokenised too, which can only add tokens, never hide an attribute).
fn rust_tokens(text: &str) -> Vec<String> {
    let mut toks = Vec::new();
    let mut cur = String::new();
    for ch in text.chars() {
        if ch.is_alphanumeric() || ch == '_' {
            cur.push(ch);
        } else {
            if !cur.is_empty() {
                toks.push(std::mem::take(&mut cur));
            }
            if !ch.is_whitespace() {
                toks.push(ch.to_string());
            }
        }
    }
    if !cur.is_empty() {
        toks.push(cur);
    }
    toks
}

/// What the generated harness for `selected` looks like (token level).
fn inspect_harness(main_rs: &str, selected: &str) -> Value {
    let t = rust_tokens(main_rs);
    let is = |i: usize, s: &str| t.get(i).map(|x| x == s).unwrap_or(false);
    let mut test_attrs = 0;
    let mut marked: Vec<String> = Vec::new();
    let mut selected_is_test = false;
    let mut defines_selected = false;
    let mut calls_selected = false;
    let mut has_main = false;
    for i in 0..t.len() {
        // #[test]  |  #[tokio::test]
        let attr_end = if is(i, "#") && is(i + 1, "[") && is(i + 2, "test") && is(i + 3, "]") {
            Some(i + 4)
        } else if is(i, "#") && is(i + 1, "[") && is(i + 2, "tokio") && is(i + 3, ":") && is(i + 4, ":") && is(i + 5, "test") && is(i + 6, "]") {
            Some(i + 7)
        } else {
            None
        };
        if let Some(mut j) = attr_end {
            test_attrs += 1;
            // skip further attributes and `pub` / `async` up to `fn`
            while j < t.len() && !is(j, "fn") && j < attr_end.unwrap() + 24 {
                j += 1;
            }
            if is(j, "fn") {
                if let Some(name) = t.get(j + 1) {
                    marked.push(name.clone());
                }
            }
            if is(j, "fn") && is(j + 1, selected) && is(j + 2, "(") {
                selected_is_test = true;
            }
        }
        if is(i, "fn") && is(i + 1, "main") && is(i + 2, "(") {
            has_main = true;
        }
        if is(i, selected) && is(i + 1, "(") {
            if i > 0 && is(i - 1, "fn") {
                defines_selected = true;
            } else {
                calls_selected = true;
            }
        }
    }
    json!({"test_attrs": test_attrs, "marked": marked, "selected_is_test": selected_is_test, "has_main": has_main,
           "calls_selected": calls_selected, "defines_selected": defines_selected})
}

fn run_case(base: &Path, stub_dir: &Path, case: &Value) -> Value {
    let id = case.get("id").and_then(|v| v.as_i64()).unwrap_or(0);
    let root = base.join(format!("case{}", id));
    let _ = fs::remove_dir_all(&root);
    if let Err(e) = write_tree(&root, case) {
        return json!({"id": id, "infra": format!("cannot write case tree: {}", e)});
    }
    let script_path = root.join(".c16_script");
    let log_path = root.join(".c16_log");
    let mut script = String::new();
    if let Some(map) = case.get("script").and_then(|s| s.as_object()) {
        for (k, v) in map {
            let ex = v.get(0).and_then(|x| x.as_i64()).unwrap_or(0);
            let kind = v.get(1).and_then(|x| x.as_str()).unwrap_or("plain");
            script.push_str(&format!("{} {} {}\n", k, ex, kind));
        }
    }
    let _ = fs::write(&script_path, script);
    let _ = fs::write(&log_path, "");
    let dflt = case.get("default");
    let d_exit = dflt.and_then(|d| d.get(0)).and_then(|x| x.as_i64()).unwrap_or(0);
    let d_kind = dflt.and_then(|d| d.get(1)).and_then(|x| x.as_str()).unwrap_or("plain").to_string();
    let real_cargo = case.get("real_cargo").and_then(|v| v.as_bool()).unwrap_or(false);
    let args: Vec<String> = case
        .get("args")
        .and_then(|a| a.as_array())
        .map(|a| a.iter().filter_map(|x| x.as_str().map(|s| s.to_string())).collect())
        .unwrap_or_default();

    // /proc/self/exe stays valid when a concurrent `cargo build` replaces the file on disk
    let exe = PathBuf::from("/proc/self/exe");
    let mut cmd = Command::new(exe);
    {
        use std::os::unix::process::CommandExt;
        cmd.arg0("incan");
    }
    cmd.args(&args)
        .current_dir(&root)
        .env(AS_INCAN, "1")
        .env("NO_COLOR", "1")
        .env("INCAN_NO_BANNER", "1")
        .env("CARGO_NET_OFFLINE", "true")
        .env_remove("RUST_LOG")
        .stdin(Stdio::null());
    if real_cargo {
        cmd.env("CARGO_TARGET_DIR", "/verif/build/gen-target");
    } else {
        let path = std::env::var("PATH").unwrap_or_default();
        cmd.env("PATH", format!("{}:{}", stub_dir.display(), path))
            .env("C16_SCRIPT", &script_path)
            .env("C16_LOG", &log_path)
            .env("C16_DEFAULT_EXIT", d_exit.to_string())
            .env("C16_DEFAULT_KIND", &d_kind);
    }
    let out = match cmd.output() {
        Ok(o) => o,
        Err(e) => return json!({"id": id, "infra": format!("spawn: {}", e)}),
    };
    let log: Vec<String> = fs::read_to_string(&log_path)
        .unwrap_or_default()
        .lines()
        .map(|s| s.to_string())
        .collect();
    // generated harnesses, keyed by function name (directory name)
    let mut harness = BTreeMap::new();
    let tdir = root.join("target/incan_tests");
    if let Ok(rd) = fs::read_dir(&tdir) {
        for e in rd.flatten() {
            let name = e.file_name().to_string_lossy().to_string();
            let main_rs = fs::read_to_string(e.path().join("src/main.rs")).unwrap_or_default();
            let mut v = inspect_harness(&main_rs, &name);
            if case.get("keep_main_rs").and_then(|v| v.as_bool()).unwrap_or(false) {
                v["main_rs"] = json!(main_rs);
            }
            harness.insert(name, v);
        }
    }
    let keep = case.get("keep").and_then(|v| v.as_bool()).unwrap_or(false);
    if !keep {
        let _ = fs::remove_dir_all(&root);
    }
    json!({
        "id": id,
        "exit": out.status.code(),
        "stdout": String::from_utf8_lossy(&out.stdout),
        "stderr": String::from_utf8_lossy(&out.stderr),
        "log": log,
        "harness": harness,
    })
}

fn marker_json(m: &TestMarker) -> Value {
    match m {
        TestMarker::Skip(r) => json!(["skip", r]),
        TestMarker::XFail(r) => json!(["xfail", r]),
        TestMarker::Slow => json!(["slow", ""]),
        TestMarker::Parametrize(a, b) => json!(["parametrize", format!("{}|{}", a, b.join(","))]),
    }
}

/// Direct use of the public discovery API on a materialised tree.
fn discover_case(base: &Path, case: &Value) -> Value {
    let id = case.get("id").and_then(|v| v.as_i64()).unwrap_or(0);
    let root = base.join(format!("disc{}", id));
    let _ = fs::remove_dir_all(&root);
    if let Err(e) = write_tree(&root, case) {
        return json!({"id": id, "infra": format!("cannot write case tree: {}", e)});
    }
    let rel = case.get("path").and_then(|p| p.as_str()).unwrap_or(".");
    let start = if rel == "." { root.clone() } else { root.join(rel) };
    let files = discover_test_files(&start);
    let mut out_files = Vec::new();
    for f in &files {
        let relp = f.strip_prefix(&root).unwrap_or(f).to_string_lossy().to_string();
        match discover_tests_and_fixtures(f) {
            Ok(r) => {
                let tests: Vec<Value> = r
                    .tests
                    .iter()
                    .map(|t| {
                        json!({"name": t.function_name,
                               "markers": t.markers.iter().map(marker_json).collect::<Vec<_>>(),
                               "fixtures": t.required_fixtures})
                    })
                    .collect();
                let fixtures: Vec<Value> = r
                    .fixtures
                    .iter()
                    .map(|x| {
                        json!({"name": x.name,
                               "scope": match x.scope { FixtureScope::Function => 0, FixtureScope::Module => 1, FixtureScope::Session => 2 },
                               "autouse": x.autouse, "deps": x.dependencies, "teardown": x.has_teardown, "async": x.is_async})
                    })
                    .collect();
                out_files.push(json!({"path": relp, "ok": true, "tests": tests, "fixtures": fixtures}));
            }
            Err(e) => {
                let kind = if e.starts_with("Lexer error") { "lex" } else if e.starts_with("Parser error") { "parse" } else { "io" };
                out_files.push(json!({"path": relp, "ok": false, "kind": kind}));
            }
        }
    }
    let _ = fs::remove_dir_all(&root);
    json!({"id": id, "files": out_files})
}

pub fn run(args: &[String]) {
    let mode = args.first().map(|s| s.as_str()).unwrap_or("e2e").to_string();
    let base = PathBuf::from(WORK).join(format!("{}", std::process::id()));
    let _ = fs::remove_dir_all(&base);
    if let Err(e) = fs::create_dir_all(&base) {
        eprintln!("c16: cannot create {}: {}", base.display(), e);
        std::process::exit(2);
    }
    let stub_dir = base.join("bin");
    let _ = fs::create_dir_all(&stub_dir);
    let stub = stub_dir.join("cargo");
    if fs::write(&stub, STUB).is_err() {
        eprintln!("c16: cannot write stub cargo");
        std::process::exit(2);
    }
    {
        use std::os::unix::fs::PermissionsExt;
        let _ = fs::set_permissions(&stub, fs::Permissions::from_mode(0o755));
    }

    let stdin = io::stdin();
    let cases: Vec<Value> = stdin
        .lock()
        .lines()
        .map_while(|l| l.ok())
        .filter(|l| !l.trim().is_empty())
        .map(|l| serde_json::from_str::<Value>(&l).unwrap_or_else(|e| json!({"id": -1, "bad_json": e.to_string()})))
        .collect();
    let n = cases.len();
    let cases = Arc::new(cases);
    let next = Arc::new(Mutex::new(0usize));
    let results: Arc<Mutex<Vec<Option<Value>>>> = Arc::new(Mutex::new(vec![None; n]));
    let workers: usize = std::env::var("C16_WORKERS").ok().and_then(|s| s.parse().ok()).unwrap_or(8);
    let mut handles = Vec::new();
    for _ in 0..workers.max(1).min(n.max(1)) {
        let cases = Arc::clone(&cases);
        let next = Arc::clone(&next);
        let results = Arc::clone(&results);
        let base = base.clone();
        let stub_dir = stub_dir.clone();
        let mode = mode.clone();
        handles.push(std::thread::spawn(move || loop {
            let i = {
                let mut g = next.lock().unwrap();
                let i = *g;
                *g += 1;
                i
            };
            if i >= cases.len() {
                break;
            }
            let c = &cases[i];
            let r = if c.get("bad_json").is_some() {
                json!({"id": -1, "infra": "bad json case line"})
            } else if mode == "discover" {
                match crate::common::catch(|| discover_case(&base, c)) {
                    Ok(v) => v,
                    Err(msg) => json!({"id": c.get("id"), "panic": msg}),
                }
            } else {
                run_case(&base, &stub_dir, c)
            };
            results.lock().unwrap()[i] = Some(r);
        }));
    }
    for h in handles {
        let _ = h.join();
    }
    let stdout = io::stdout();
    let mut out = io::BufWriter::new(stdout.lock());
    for r in results.lock().unwrap().iter() {
        let v = r.clone().unwrap_or_else(|| json!({"infra": "worker died"}));
        let _ = writeln!(out, "{}", v);
    }
    let _ = out.flush();
    let _ = fs::remove_dir_all(&base);
}
