//! C18: drive a REAL `IncanLanguageServer` through `tower_lsp::LspService` on a current-thread tokio
//! runtime, following a model schedule step by step.
//!
//! stdin: one JSON case per line
//!   {"docs": ["file:///.../a.incn", ...],                      watched documents (index = model uri)
//!    "history": [["open",u,ver,text] | ["change",u,ver,text] | ["close",u], ...],
//!    "schedule": [k, k, ...],                                  handler (arrival index) that runs next
//!    "hover": [line, character]}
//! stdout: one JSON result per line
//!   {"gates":bool, "legal":bool, "quiescent":bool, "blocked_at":i|null,
//!    "trace":[{"docs":[[ver,text]|null,...]|"locked"|null, "lock":0|1|2|null, "npubs":n, "done":bool}, ...],
//!    "pubs":[[uri, ver|null, [message,...]], ...], "hover":[string|null,...]|null, "error":string|null}
//!
//! With the gate hook in /repo (src/lsp/verif_gate.rs, cfg incan_verif) and this crate built with
//! `--cfg incan_verif_gates`, every handler future runs inside `HANDLER.scope(k, ..)` and parks at
//! each gate; a schedule step opens handler k's gate and polls it ONCE, so it executes exactly one
//! atomic segment. A handler that is pending but not parked is waiting for the RwLock: the step was
//! not enabled (`legal:false, blocked_at`). Without gates a handler runs to completion on its first
//! poll (tower-lsp's client channel never back-pressures): only sequential schedules are realised;
//! later steps of an already finished handler are no-ops.
use crate::common::each_line;
use futures_util::StreamExt;
use serde_json::{json, Value};
use std::future::Future;
use std::pin::Pin;
use tower_lsp::jsonrpc::{Request, Response};
use tower_lsp::{ClientSocket, LspService};
use tower_service::Service;

type Fut = Pin<Box<dyn Future<Output = Option<Response>>>>;

#[cfg(incan_verif_gates)]
mod gates {
    use incan::lsp::backend::DocumentState;
    use incan::lsp::verif_gate as g;
    use std::collections::HashMap;
    use std::future::Future;
    use std::sync::Arc;
    use tokio::sync::RwLock;
    use tower_lsp::lsp_types::Url;

    pub const ON: bool = true;
    pub type Docs = Arc<RwLock<HashMap<Url, DocumentState>>>;
    pub fn capture(s: &incan::lsp::IncanLanguageServer) -> Option<Docs> {
        Some(s.verif_documents())
    }
    pub fn scoped<F: Future + 'static>(k: u64, f: F) -> std::pin::Pin<Box<dyn Future<Output = F::Output>>> {
        Box::pin(g::HANDLER.scope(k, f))
    }
    pub fn open(k: u64) -> bool {
        g::open_handler(k).is_some()
    }
    pub fn parked(k: u64) -> Option<String> {
        g::waiting().into_iter().find(|w| w.0 == k).map(|w| w.1.to_string())
    }
    pub fn reset() {
        g::reset()
    }
    /// (documents as [version, text] per watched uri | None when write-locked, lock code)
    pub fn observe(docs: &Docs, watched: &[Url]) -> (Option<Vec<Option<(i64, String)>>>, i64) {
        let lock = if docs.try_write().is_ok() {
            0
        } else if docs.try_read().is_ok() {
            1
        } else {
            2
        };
        let view = docs.try_read().ok().map(|m| {
            watched
                .iter()
                .map(|u| m.get(u).map(|d| (d.version as i64, d.source.clone())))
                .collect()
        });
        (view, lock)
    }
}

#[cfg(not(incan_verif_gates))]
mod gates {
    use std::future::Future;
    use tower_lsp::lsp_types::Url;

    pub const ON: bool = false;
    pub type Docs = ();
    pub fn capture(_s: &incan::lsp::IncanLanguageServer) -> Option<Docs> {
        None
    }
    pub fn scoped<F: Future + 'static>(_k: u64, f: F) -> std::pin::Pin<Box<dyn Future<Output = F::Output>>> {
        Box::pin(f)
    }
    pub fn open(_k: u64) -> bool {
        false
    }
    pub fn parked(_k: u64) -> Option<String> {
        None
    }
    pub fn reset() {}
    pub fn observe(_d: &Docs, _w: &[Url]) -> (Option<Vec<Option<(i64, String)>>>, i64) {
        (None, -1)
    }
}

fn note_request(n: &Value, docs: &[String]) -> Result<(Request, usize), String> {
    let a = n.as_array().ok_or("note must be an array")?;
    let kind = a.first().and_then(|v| v.as_str()).ok_or("note kind")?;
    let u = a.get(1).and_then(|v| v.as_u64()).ok_or("note uri")? as usize;
    let uri = docs.get(u).ok_or("uri index")?.clone();
    let req = match kind {
        "open" => Request::build("textDocument/didOpen")
            .params(json!({"textDocument": {"uri": uri, "languageId": "incan", "version": a[2], "text": a[3]}}))
            .finish(),
        "change" => Request::build("textDocument/didChange")
            .params(json!({"textDocument": {"uri": uri, "version": a[2]}, "contentChanges":
                // a[3]: one full text, or a list of full texts (several / zero content changes in one notification)
                match a[3].as_array() { Some(ts) => ts.iter().map(|t| json!({"text": t})).collect::<Vec<_>>(), None => vec![json!({"text": a[3]})] }}))
            .finish(),
        "close" => Request::build("textDocument/didClose")
            .params(json!({"textDocument": {"uri": uri}}))
            .finish(),
        other => return Err(format!("unknown note kind {}", other)),
    };
    Ok((req, u))
}

fn call(service: &mut LspService<incan::lsp::IncanLanguageServer>, req: Request) -> impl Future<Output = Option<Response>> + 'static {
    let fut = service.call(req);
    async move { fut.await.ok().flatten() }
}

/// Collect every publishDiagnostics queued on the client socket (never blocks).
async fn drain(socket: &mut ClientSocket, docs: &[String], pubs: &mut Vec<Value>) -> usize {
    let mut n = 0;
    loop {
        n += 1;
        match futures_util::poll!(socket.next()) {
            std::task::Poll::Ready(Some(req)) => {
                if req.method() != "textDocument/publishDiagnostics" {
                    continue;
                }
                let p = req.params().cloned().unwrap_or(Value::Null);
                let uri = p.get("uri").and_then(|v| v.as_str()).unwrap_or("");
                let idx = docs.iter().position(|d| d == uri).map(|i| json!(i)).unwrap_or(json!(uri));
                let msgs: Vec<Value> = p
                    .get("diagnostics")
                    .and_then(|d| d.as_array())
                    .map(|ds| {
                        ds.iter()
                            .map(|d| {
                                let r = &d["range"]["start"];
                                json!(format!("{}:{}:{}", r["line"], r["character"], d["message"].as_str().unwrap_or("")))
                            })
                            .collect()
                    })
                    .unwrap_or_default();
                pubs.push(json!([idx, p.get("version").cloned().unwrap_or(Value::Null), msgs]));
            }
            _ => break,
        }
    }
    n - 1
}

async fn hover_all(
    service: &mut LspService<incan::lsp::IncanLanguageServer>,
    docs: &[String],
    pos: &Value,
) -> Vec<Value> {
    let mut out = Vec::new();
    for (i, uri) in docs.iter().enumerate() {
        let req = Request::build("textDocument/hover")
            .id(1000 + i as i64)
            .params(json!({"textDocument": {"uri": uri}, "position": {"line": pos[0], "character": pos[1]}}))
            .finish();
        let mut fut: Fut = Box::pin(tokio::task::unconstrained(call(service, req)));
        match futures_util::poll!(fut.as_mut()) {
            std::task::Poll::Ready(Some(resp)) => {
                let (_, body) = resp.into_parts();
                out.push(match body {
                    Ok(v) => v.get("contents").and_then(|c| c.get("value")).cloned().unwrap_or(Value::Null),
                    Err(e) => json!(format!("error: {}", e)),
                });
            }
            std::task::Poll::Ready(None) => out.push(Value::Null),
            std::task::Poll::Pending => out.push(json!("<blocked>")),
        }
    }
    out
}

/// What definition and completion answer for every watched document: [definition start line | null,
/// sorted completion labels that are document symbols (f<digits> / K<digits>) | null].
async fn answers_all(
    service: &mut LspService<incan::lsp::IncanLanguageServer>,
    docs: &[String],
    pos: &Value,
) -> Vec<Value> {
    let mut out = Vec::new();
    for (i, uri) in docs.iter().enumerate() {
        let mut pair = Vec::new();
        for method in ["textDocument/definition", "textDocument/completion"] {
            let req = Request::build(method)
                .id(2000 + i as i64)
                .params(json!({"textDocument": {"uri": uri}, "position": {"line": pos[0], "character": pos[1]}}))
                .finish();
            let mut fut: Fut = Box::pin(tokio::task::unconstrained(call(service, req)));
            let v = match futures_util::poll!(fut.as_mut()) {
                std::task::Poll::Ready(Some(resp)) => resp.into_parts().1.unwrap_or(Value::Null),
                std::task::Poll::Ready(None) => Value::Null,
                std::task::Poll::Pending => json!("<blocked>"),
            };
            if method.ends_with("definition") {
                pair.push(v.get("range").map(|r| r["start"]["line"].clone()).unwrap_or(if v.is_null() { Value::Null } else { v.clone() }));
            } else if let Some(items) = v.as_array() {
                let mut labels: Vec<String> = items
                    .iter()
                    .filter_map(|it| it["label"].as_str())
                    .filter(|l| l.len() > 1 && (l.starts_with('f') || l.starts_with('K')) && l[1..].chars().all(|c| c.is_ascii_digit()))
                    .map(String::from)
                    .collect();
                labels.sort();
                pair.push(json!(labels));
            } else {
                pair.push(v);
            }
        }
        out.push(json!(pair));
    }
    out
}

async fn run_case(case: &Value) -> Value {
    let docs: Vec<String> = case["docs"].as_array().map(|a| a.iter().filter_map(|v| v.as_str().map(String::from)).collect()).unwrap_or_default();
    let watched: Vec<tower_lsp::lsp_types::Url> = docs.iter().filter_map(|d| tower_lsp::lsp_types::Url::parse(d).ok()).collect();
    let history: Vec<Value> = case["history"].as_array().cloned().unwrap_or_default();
    let schedule: Vec<i64> = case["schedule"].as_array().map(|a| a.iter().filter_map(|v| v.as_i64()).collect()).unwrap_or_default();
    // "natural": no automatic draining and a step is ONE poll (re-polling a handler that waits for the
    // lock or for its flush is allowed); the entry -1 drains the client socket. Used to replay the
    // stale store on the unpatched server, where the only suspension points are tower-lsp's own.
    let natural = case["natural"].as_bool().unwrap_or(false);
    gates::reset();
    let mut captured: Option<gates::Docs> = None;
    let (mut service, mut socket) = LspService::new(|c| {
        let s = incan::lsp::IncanLanguageServer::new(c);
        captured = gates::capture(&s);
        s
    });
    // initialize + initialized (run to completion: no gates outside a HANDLER scope)
    let init = Request::build("initialize").id(1).params(json!({"capabilities": {}})).finish();
    let mut f: Fut = Box::pin(call(&mut service, init));
    if futures_util::poll!(f.as_mut()).is_pending() {
        return json!({"error": "initialize did not complete"});
    }
    let mut f: Fut = Box::pin(call(&mut service, Request::build("initialized").params(json!({})).finish()));
    if futures_util::poll!(f.as_mut()).is_pending() {
        return json!({"error": "initialized did not complete"});
    }
    let mut pubs: Vec<Value> = Vec::new();
    drain(&mut socket, &docs, &mut pubs).await;
    pubs.clear();

    let mut handlers: Vec<Option<Fut>> = Vec::new(); // Some = in flight, None = finished
    let mut trace: Vec<Value> = Vec::new();
    let mut legal = true;
    let mut blocked_at = Value::Null;
    let mut error = Value::Null;
    for (i, &k) in schedule.iter().enumerate() {
        if k < 0 {
            drain(&mut socket, &docs, &mut pubs).await;
            trace.push(json!({"drain": true, "npubs": pubs.len()}));
            continue;
        }
        let k = k as usize;
        let started = handlers.len();
        let mut noop = false;
        if k < started {
            if handlers[k].is_none() {
                if gates::ON && !natural {
                    legal = false;
                    blocked_at = json!(i);
                    break;
                }
                noop = true; // no gates / natural mode: the handler has already finished
            } else if natural {
                // just poll again
            } else if !gates::open(k as u64) {
                legal = false;
                blocked_at = json!(i);
                error = json!("in-flight handler is not parked at a gate");
                break;
            }
        } else if k == started && handlers.iter().filter(|h| h.is_some()).count() < 4 && k < history.len() {
            match note_request(&history[k], &docs) {
                Ok((req, _)) => {
                    let f = tokio::task::unconstrained(call(&mut service, req));
                    // natural mode: outside a HANDLER scope every gate is a no-op
                    handlers.push(Some(if natural { Box::pin(f) as Fut } else { gates::scoped(k as u64, f) }))
                }
                Err(e) => return json!({"error": e}),
            }
        } else if natural {
            // natural mode is lenient: an entry that cannot start a handler now (4 in flight, not its turn) is skipped
            trace.push(json!({"skip": true, "npubs": pubs.len()}));
            continue;
        } else {
            legal = false;
            blocked_at = json!(i);
            break;
        }
        if !noop {
            // one atomic segment: poll until the handler is parked at its next gate, finished, or
            // waiting for the RwLock. `client.publish(..).await` = enqueue + flush; the flush completes
            // only once the receiver has caught up, so the socket is drained between polls.
            loop {
                let fut = handlers[k].as_mut().unwrap();
                match futures_util::poll!(fut.as_mut()) {
                    std::task::Poll::Ready(_) => {
                        handlers[k] = None;
                        break;
                    }
                    std::task::Poll::Pending => {
                        if gates::parked(k as u64).is_some() {
                            break;
                        }
                        if natural {
                            break;
                        }
                        if drain(&mut socket, &docs, &mut pubs).await == 0 {
                            // pending, not at a gate, nothing to flush: waiting for the RwLock => not enabled
                            legal = false;
                            blocked_at = json!(i);
                            break;
                        }
                    }
                }
            }
            if !legal {
                break;
            }
        }
        if !natural {
            drain(&mut socket, &docs, &mut pubs).await;
        }
        let done = handlers[k].is_none();
        let (view, lock) = match &captured {
            Some(d) => gates::observe(d, &watched),
            None => (None, -1),
        };
        let docs_json = match (&captured, view) {
            (Some(_), Some(v)) => json!(v.into_iter().map(|o| o.map(|(ver, s)| json!([ver, s])).unwrap_or(Value::Null)).collect::<Vec<_>>()),
            (Some(_), None) => json!("locked"),
            (None, _) => Value::Null,
        };
        let mut entry = json!({"docs": docs_json, "lock": if lock < 0 { Value::Null } else { json!(lock) }, "npubs": pubs.len(), "done": done});
        if gates::ON && !natural && lock != 2 {
            // requests answered BETWEEN notifications: they must come from the document stored right now
            entry["hover"] = json!(hover_all(&mut service, &docs, &case["hover"]).await);
            entry["answers"] = json!(answers_all(&mut service, &docs, &case["hover"]).await);
        }
        if !gates::ON && done && !natural {
            // without the accessor the stored text is observed through hover (lock is free here)
            entry["hover"] = json!(hover_all(&mut service, &docs, &case["hover"]).await);
        }
        trace.push(entry);
    }
    let quiescent = legal && handlers.len() == history.len() && handlers.iter().all(|h| h.is_none());
    if natural {
        drain(&mut socket, &docs, &mut pubs).await;
    }
    let hover = if quiescent { json!(hover_all(&mut service, &docs, &case["hover"]).await) } else { Value::Null };
    let answers = if quiescent { json!(answers_all(&mut service, &docs, &case["hover"]).await) } else { Value::Null };
    drop(handlers);
    gates::reset();
    json!({"gates": gates::ON, "legal": legal, "quiescent": quiescent, "blocked_at": blocked_at, "trace": trace,
           "pubs": pubs, "hover": hover, "answers": answers, "error": error})
}

pub fn run(_args: &[String]) {
    let rt = tokio::runtime::Builder::new_current_thread().enable_all().build().expect("runtime");
    each_line(|line| {
        let case: Value = match serde_json::from_str(line) {
            Ok(v) => v,
            Err(e) => return json!({"error": format!("bad case: {}", e)}).to_string(),
        };
        let r = std::panic::catch_unwind(std::panic::AssertUnwindSafe(|| rt.block_on(run_case(&case))));
        match r {
            Ok(v) => v.to_string(),
            Err(_) => json!({"error": "panic"}).to_string(),
        }
    });
}
