//! C03: run the REAL front end (lexer + parser + TypeChecker::check_with_imports) on a program.
//!
//! Input: one JSON object per line: `{"main": "<source>", "deps": [["modname", "<source>"], ...]}`.
//! Output: one JSON object per line:
//!   `{"parse":"ok","tree":[decl...],"errors":[[start,end,"kind","message"],...]}`
//!   `{"parse":"lex"|"parse"|"dep-lex"|"dep-parse","errors":[[start,end,kind,message]...]}` when the source does not parse
//!   `{"parse":"panic","message":"..."}` if the front end panicked.
//! `tree` is the span skeleton of the parsed main module: every declaration / statement /
//! expression as `{"k":kind,"s":start,"e":end,"n":name?,"c":[children...]}` in source order.  The
//! check script zips it with its own tree to learn the real span of every node id (and thereby
//! validates that the rendered text parses to the intended tree).  Declaration level (Decls.v
//! stream): classes carry `"x"` (the `extends` name), traits `"rq"` (the `@requires` entries as
//! `[name, type]`), methods `"sig"` (`recv|async|param types|return type`), fields `"ty"` and
//! `"d"` (has a default), so that the check can compare what was parsed with what it generated.
use crate::common::{catch, each_line};
use incan::frontend::ast::*;
use incan::frontend::diagnostics::CompileError;
use incan::frontend::{lexer, parser, typechecker};
use serde_json::{json, Value};

fn node(k: &str, span: Span, name: Option<&str>, c: Vec<Value>) -> Value {
    match name {
        Some(n) => json!({"k": k, "s": span.start, "e": span.end, "n": n, "c": c}),
        None => json!({"k": k, "s": span.start, "e": span.end, "c": c}),
    }
}

fn args(a: &[CallArg]) -> Vec<Value> {
    a.iter()
        .map(|x| match x {
            CallArg::Positional(e) => expr(e),
            CallArg::Named(n, e) => {
                let inner = expr(e);
                json!({"k": "named", "s": e.span.start, "e": e.span.end, "n": n, "c": [inner]})
            }
        })
        .collect()
}

fn lit(l: &Literal) -> &'static str {
    match l {
        Literal::Int(_) => "int",
        Literal::Float(_) => "float",
        Literal::String(_) => "str",
        Literal::Bytes(_) => "bytes",
        Literal::Bool(_) => "bool",
        Literal::None => "none",
    }
}

fn pattern(p: &Spanned<Pattern>) -> Value {
    match &p.node {
        Pattern::Wildcard => node("p_wild", p.span, None, vec![]),
        Pattern::Binding(n) => node("p_bind", p.span, Some(n), vec![]),
        Pattern::Literal(l) => node("p_lit", p.span, Some(lit(l)), vec![]),
        Pattern::Constructor(n, subs) => node("p_ctor", p.span, Some(n), subs.iter().map(pattern).collect()),
        Pattern::Tuple(subs) => node("p_tuple", p.span, None, subs.iter().map(pattern).collect()),
    }
}

fn expr(e: &Spanned<Expr>) -> Value {
    let s = e.span;
    match &e.node {
        Expr::Ident(n) => node("ident", s, Some(n), vec![]),
        Expr::Literal(l) => node("lit", s, Some(lit(l)), vec![]),
        Expr::SelfExpr => node("self", s, None, vec![]),
        Expr::Binary(l, op, r) => node("binary", s, Some(&op.to_string()), vec![expr(l), expr(r)]),
        Expr::Unary(op, o) => node(
            "unary",
            s,
            Some(match op {
                UnaryOp::Neg => "-",
                UnaryOp::Not => "not",
            }),
            vec![expr(o)],
        ),
        Expr::Call(c, a) => {
            let mut ch = vec![expr(c)];
            ch.extend(args(a));
            node("call", s, None, ch)
        }
        Expr::Field(b, f) => node("field", s, Some(f), vec![expr(b)]),
        Expr::MethodCall(b, m, a) => {
            let mut ch = vec![expr(b)];
            ch.extend(args(a));
            node("methodcall", s, Some(m), ch)
        }
        Expr::Try(i) => node("try", s, None, vec![expr(i)]),
        Expr::Paren(i) => node("paren", s, None, vec![expr(i)]),
        Expr::Constructor(n, a) => node("ctor", s, Some(n), args(a)),
        Expr::Match(subj, arms) => {
            let mut ch = vec![expr(subj)];
            for a in arms {
                let mut ac = vec![pattern(&a.node.pattern)];
                if let Some(g) = &a.node.guard {
                    ac.push(node("guard", g.span, None, vec![expr(g)]));
                }
                match &a.node.body {
                    MatchBody::Expr(b) => ac.push(node("armexpr", b.span, None, vec![expr(b)])),
                    MatchBody::Block(b) => ac.push(node("armblock", a.span, None, b.iter().map(stmt).collect())),
                }
                ch.push(node("arm", a.span, None, ac));
            }
            node("match", s, None, ch)
        }
        _ => node("other_expr", s, None, vec![]),
    }
}

fn block(k: &str, b: &[Spanned<Statement>]) -> Value {
    let span = match (b.first(), b.last()) {
        (Some(f), Some(l)) => f.span.merge(l.span),
        _ => Span::default(),
    };
    node(k, span, None, b.iter().map(stmt).collect())
}

fn stmt(st: &Spanned<Statement>) -> Value {
    let s = st.span;
    match &st.node {
        Statement::Assignment(a) => {
            let k = match a.binding {
                BindingKind::Inferred => "assign",
                BindingKind::Let => "let",
                BindingKind::Mutable => "mut",
                BindingKind::Reassign => "reassign",
            };
            let name = if a.ty.is_some() { format!("{}:", a.name) } else { a.name.clone() };
            node(k, s, Some(&name), vec![expr(&a.value)])
        }
        Statement::CompoundAssignment(c) => node("compound", s, Some(&c.name), vec![expr(&c.value)]),
        Statement::Return(e) => node("return", s, None, e.iter().map(expr).collect()),
        Statement::If(i) => {
            let mut ch = vec![expr(&i.condition), block("then", &i.then_body)];
            for (c, b) in &i.elif_branches {
                ch.push(node("elif", c.span, None, vec![expr(c), block("elifbody", b)]));
            }
            if let Some(b) = &i.else_body {
                ch.push(block("else", b));
            }
            node("if", s, None, ch)
        }
        Statement::While(w) => node("while", s, None, vec![expr(&w.condition), block("body", &w.body)]),
        Statement::For(f) => node("for", s, Some(&f.var), vec![expr(&f.iter), block("body", &f.body)]),
        Statement::Expr(e) => node("exprstmt", s, None, vec![expr(e)]),
        Statement::Pass => node("pass", s, None, vec![]),
        Statement::Break => node("break", s, None, vec![]),
        Statement::Continue => node("continue", s, None, vec![]),
        _ => node("other_stmt", s, None, vec![]),
    }
}

/// canonical text of a written type (declaration-level stream: the check compares it with the type it rendered)
fn ty_str(t: &Type) -> String {
    match t {
        Type::Simple(n) if n == "None" => "None".to_string(),
        Type::Unit => "None".to_string(),
        other => other.to_string(),
    }
}

/// `recv|async|p1,p2|ret` of a method declaration
fn sig_str(m: &MethodDecl) -> String {
    let recv = match m.receiver {
        Some(Receiver::Mutable) => "mut",
        Some(Receiver::Immutable) => "self",
        None => "none",
    };
    let ps: Vec<String> = m.params.iter().map(|p| ty_str(&p.node.ty.node)).collect();
    format!("{}|{}|{}|{}", recv, m.is_async, ps.join(","), ty_str(&m.return_type.node))
}

fn method(m: &Spanned<MethodDecl>) -> Value {
    let body = m.node.body.as_ref().map(|b| b.iter().map(stmt).collect()).unwrap_or_default();
    let mut v = node(if m.node.body.is_some() { "method" } else { "absmethod" }, m.span, Some(&m.node.name), body);
    v["sig"] = json!(sig_str(&m.node));
    v
}

fn field(f: &Spanned<FieldDecl>) -> Value {
    let mut v = node("fielddecl", f.span, Some(&f.node.name), vec![node("fieldty", f.node.ty.span, None, vec![])]);
    v["ty"] = json!(ty_str(&f.node.ty.node));
    v["d"] = json!(f.node.default.is_some());
    v
}

/// the `@requires(name: Type, ...)` entries of a trait, in source order
fn requires(decs: &[Spanned<Decorator>]) -> Value {
    let mut out: Vec<Value> = Vec::new();
    for d in decs {
        if d.node.name == "requires" {
            for a in &d.node.args {
                if let DecoratorArg::Named(n, DecoratorArgValue::Type(t)) = a {
                    out.push(json!([n, ty_str(&t.node)]));
                }
            }
        }
    }
    Value::Array(out)
}

fn decl(d: &Spanned<Declaration>) -> Value {
    let s = d.span;
    match &d.node {
        Declaration::Function(f) => node("fn", s, Some(&f.name), f.body.iter().map(stmt).collect()),
        Declaration::Enum(e) => node("enum", s, Some(&e.name), vec![]),
        Declaration::Model(m) => {
            let mut ch: Vec<Value> = m.traits.iter().map(|t| node("with", t.span, Some(&t.node), vec![])).collect();
            ch.extend(m.fields.iter().map(field));
            ch.extend(m.methods.iter().map(method));
            node("model", s, Some(&m.name), ch)
        }
        Declaration::Class(m) => {
            let mut ch: Vec<Value> = m.traits.iter().map(|t| node("with", t.span, Some(&t.node), vec![])).collect();
            ch.extend(m.fields.iter().map(field));
            ch.extend(m.methods.iter().map(method));
            let mut v = node("class", s, Some(&m.name), ch);
            v["x"] = json!(m.extends);
            v
        }
        Declaration::Trait(t) => {
            let mut v = node("trait", s, Some(&t.name), t.methods.iter().map(method).collect());
            v["rq"] = requires(&t.decorators);
            v
        }
        Declaration::Import(_) => node("import", s, None, vec![]),
        Declaration::Const(c) => node("const", s, Some(&c.name), vec![expr(&c.value)]),
        _ => node("other_decl", s, None, vec![]),
    }
}

fn errs(v: &[CompileError]) -> Vec<Value> {
    v.iter().map(|e| json!([e.span.start, e.span.end, e.kind.to_string(), e.message])).collect()
}

fn parse_src(src: &str) -> Result<Program, (&'static str, Vec<CompileError>)> {
    let toks = lexer::lex(src).map_err(|e| ("lex", e))?;
    parser::parse(&toks).map_err(|e| ("parse", e))
}

fn one(line: &str) -> Value {
    let v: Value = match serde_json::from_str(line) {
        Ok(v) => v,
        Err(e) => return json!({"parse": "bad-input", "message": e.to_string()}),
    };
    let main_src = v["main"].as_str().unwrap_or("").to_string();
    let mut deps: Vec<(String, Program)> = Vec::new();
    if let Some(ds) = v["deps"].as_array() {
        for d in ds {
            let name = d[0].as_str().unwrap_or("dep").to_string();
            match parse_src(d[1].as_str().unwrap_or("")) {
                Ok(p) => deps.push((name, p)),
                Err((k, e)) => return json!({"parse": format!("dep-{}", k), "errors": errs(&e)}),
            }
        }
    }
    let main = match parse_src(&main_src) {
        Ok(p) => p,
        Err((k, e)) => return json!({"parse": k, "errors": errs(&e)}),
    };
    let tree: Vec<Value> = main.declarations.iter().map(decl).collect();
    let dep_refs: Vec<(&str, &Program)> = deps.iter().map(|(n, p)| (n.as_str(), p)).collect();
    let mut tc = typechecker::TypeChecker::new();
    // exactly what cli::commands::check_file does after collect_modules
    let res = tc.check_with_imports(&main, &dep_refs);
    let e = match res {
        Ok(()) => vec![],
        Err(es) => errs(&es),
    };
    json!({"parse": "ok", "tree": tree, "errors": e})
}

pub fn run(_args: &[String]) {
    each_line(|line| match catch(|| one(line)) {
        Ok(v) => v.to_string(),
        Err(msg) => json!({"parse": "panic", "message": msg}).to_string(),
    });
}
