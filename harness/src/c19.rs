//! C19: run the real position arithmetic.
//!   src/lsp/diagnostics.rs: offset_to_position, position_to_offset, span_to_range,
//!     compile_error_to_diagnostic (its `range` must be span_to_range's);
//!   crates/incan_syntax/src/diagnostics.rs: get_line_info + the caret arithmetic, observed through
//!     the public format_error (location line, source line, caret line are parsed back).
//! Input lines (doc = comma-separated decimal scalar values, `c*n` = n copies of c, `-` = empty document):
//!   o2p <doc> <offset>          -> `l c`
//!   p2o <doc> <line> <char>     -> `<offset>` | `-1`
//!   rng <doc> <start> <end>     -> `sl sc el ec`
//!   car <doc> <start> <end>     -> `line col spaces carets text...`
//!   tab <doc> <K>               -> the whole table of the document as one flat integer list, in
//!                                  the order of `table` in coq/C19/Model.v
//! A panic is rendered as `-9` fillers (same arity as in Model.v) followed by `# <message>`;
//! a diagnostic whose range differs from span_to_range as `X ...`.
use crate::common::{catch, each_line};
use incan::frontend::ast::Span;
use incan::frontend::diagnostics::{format_error, CompileError, ErrorKind};
use incan::lsp::diagnostics::{compile_error_to_diagnostic, offset_to_position, position_to_offset, span_to_range};
use futures_util::StreamExt;
use serde_json::{json, Value};
use tower_lsp::jsonrpc::Request;
use tower_lsp::lsp_types::{DiagnosticSeverity, Position, Url};
use tower_lsp::LspService;
use tower_service::Service;

const TRAP: i64 = -9;

fn parse_doc(s: &str) -> String {
    if s == "-" {
        return String::new();
    }
    let mut out = String::new();
    for item in s.split(',') {
        let (c, n) = match item.split_once('*') {
            Some((c, n)) => (c, n.parse::<usize>().expect("repeat count")),
            None => (item, 1),
        };
        let ch = char::from_u32(c.parse::<u32>().expect("scalar")).expect("not a scalar value");
        for _ in 0..n {
            out.push(ch);
        }
    }
    out
}

fn o2p(src: &str, o: usize) -> Result<[i64; 2], String> {
    catch(|| {
        let p = offset_to_position(src, o);
        [p.line as i64, p.character as i64]
    })
}

fn p2o(src: &str, l: u32, c: u32) -> Result<i64, String> {
    catch(|| match position_to_offset(src, Position::new(l, c)) {
        Some(o) => o as i64,
        None => -1,
    })
}

/// span_to_range plus the same span through compile_error_to_diagnostic (Err(Ok(..)) = they differ)
fn rng(src: &str, a: usize, b: usize, uri: &Url) -> Result<Result<[i64; 4], String>, String> {
    catch(|| {
        let r = span_to_range(src, a, b);
        let e = mk_error(a, b);
        let d = compile_error_to_diagnostic(&e, src, uri);
        if d.range != r {
            return Err(format!("X span_to_range={:?} diagnostic.range={:?}", r, d.range));
        }
        // every related-information location (one per note and hint) carries the same range
        let rel = d.related_information.clone().unwrap_or_default();
        if rel.len() != e.notes.len() + e.hints.len() || rel.iter().any(|x| x.location.range != r) {
            return Err(format!("X related information ranges {:?} differ from {:?}", rel, r));
        }
        let want = match e.kind {
            ErrorKind::Error | ErrorKind::Syntax | ErrorKind::Type => DiagnosticSeverity::ERROR,
            ErrorKind::Warning => DiagnosticSeverity::WARNING,
            ErrorKind::Lint => DiagnosticSeverity::HINT,
        };
        if d.severity != Some(want) {
            return Err(format!("X severity {:?} for kind {:?}", d.severity, e.kind));
        }
        Ok([
            r.start.line as i64,
            r.start.character as i64,
            r.end.line as i64,
            r.end.character as i64,
        ])
    })
}

/// an error whose kind, notes and hints vary with the span (all five kinds, 0..2 notes, 0..2 hints)
fn mk_error(a: usize, b: usize) -> CompileError {
    let k = (a % 5 + b % 7) % 5;
    let mut e = CompileError::new("m".to_string(), Span::new(a, b));
    e.kind = [ErrorKind::Error, ErrorKind::Syntax, ErrorKind::Type, ErrorKind::Warning, ErrorKind::Lint][k];
    for i in 0..(a % 3) {
        e = e.with_note(format!("n{}", i));
    }
    for i in 0..(b % 3) {
        e = e.with_hint(format!("h{}", i));
    }
    e
}

struct Caret {
    line: i64,
    col: i64,
    text: Vec<i64>,
    spaces: i64,
    carets: i64,
}

/// format_error and parse back what get_line_info and the caret arithmetic produced
fn car(src: &str, a: usize, b: usize) -> Result<Caret, String> {
    catch(|| {
        let e = mk_error(a, b);
        let out = format_error("f", src, &e);
        let ls: Vec<&str> = out.split('\n').collect();
        assert!(ls.len() == 6 + e.notes.len() + e.hints.len(), "format_error: unexpected shape {:?}", out);
        let loc = ls[1].split("-->\x1b[0m f:").nth(1).expect("location line");
        let mut lc = loc.split(':');
        let line: i64 = lc.next().unwrap().parse().expect("line");
        let col: i64 = lc.next().unwrap().parse().expect("col");
        let gutter = " |\x1b[0m ";
        let tpos = ls[3].find(gutter).expect("source line") + gutter.len();
        // the gutter shows the line number, the two neighbouring gutters are padded to its width
        let w = line.to_string().len();
        assert!(ls[3].starts_with(&format!("  \x1b[36m{} |", line)), "gutter of the source line {:?}", ls[3]);
        assert!(ls[2] == format!("  \x1b[36m{} |\x1b[0m", " ".repeat(w)), "empty gutter {:?}", ls[2]);
        assert!(ls[4].starts_with(&format!("  \x1b[36m{} |", " ".repeat(w))), "caret gutter {:?}", ls[4]);
        let text: Vec<i64> = ls[3][tpos..].chars().map(|c| c as i64).collect();
        let cpos = ls[4].find(gutter).expect("caret line") + gutter.len();
        let rest = &ls[4][cpos..];
        let esc = rest.find('\x1b').expect("caret colour");
        let spaces = &rest[..esc];
        assert!(spaces.chars().all(|c| c == ' '), "caret padding {:?}", spaces);
        let after = &rest[esc..];
        let m = after.find('m').expect("colour end") + 1;
        let tail = &after[m..];
        let end = tail.find('\x1b').expect("reset");
        let carets = &tail[..end];
        assert!(carets.chars().all(|c| c == '^'), "carets {:?}", carets);
        Caret {
            line,
            col,
            text,
            spaces: spaces.len() as i64,
            carets: carets.len() as i64,
        }
    })
}

fn join(v: &[i64]) -> String {
    v.iter().map(|x| x.to_string()).collect::<Vec<_>>().join(" ")
}

fn table(src: &str, k: u32, uri: &Url) -> String {
    let mut out: Vec<i64> = Vec::new();
    let mut notes: Vec<String> = Vec::new();
    let n = src.len() + 2;
    for o in 0..n {
        match o2p(src, o) {
            Ok(p) => out.extend_from_slice(&p),
            Err(m) => {
                out.extend_from_slice(&[TRAP, TRAP]);
                notes.push(m);
            }
        }
    }
    for l in 0..=k {
        for c in 0..=k {
            match p2o(src, l, c) {
                Ok(v) => out.push(v),
                Err(m) => {
                    out.push(TRAP);
                    notes.push(m);
                }
            }
        }
    }
    for o in 0..n {
        match car(src, o, o) {
            Ok(c) => {
                out.push(c.line);
                out.push(c.col);
                out.push(c.text.len() as i64);
                out.extend_from_slice(&c.text);
            }
            Err(m) => {
                out.extend_from_slice(&[TRAP, TRAP, 0]);
                notes.push(m);
            }
        }
    }
    for a in 0..n {
        for b in 0..n {
            match car(src, a, b) {
                Ok(c) => out.extend_from_slice(&[c.spaces, c.carets]),
                Err(m) => {
                    out.extend_from_slice(&[TRAP, TRAP]);
                    notes.push(m);
                }
            }
            match rng(src, a, b, uri) {
                Ok(Ok(r)) => out.extend_from_slice(&r),
                Ok(Err(x)) => return x,
                Err(m) => {
                    out.extend_from_slice(&[TRAP, TRAP, TRAP, TRAP]);
                    notes.push(m);
                }
            }
        }
    }
    let mut s = join(&out);
    if let Some(m) = notes.first() {
        s.push_str(" # ");
        s.push_str(m);
    }
    s
}

// ----------------------------------------------------------------------------- through the server
// `lsp {"text": source, "positions": [[line, character], ...]}`: open the text in a REAL
// IncanLanguageServer (tower_lsp::LspService, in process), collect the published diagnostics
// (range, severity, message, related ranges), ask hover and definition at every position, and run
// lexer/parser/type checker directly on the same text for the spans the diagnostics come from.

fn range_json(r: &Value) -> Value {
    json!([r["start"]["line"], r["start"]["character"], r["end"]["line"], r["end"]["character"]])
}

/// Run one request/notification to completion while draining the client socket (the server's
/// `client.*().await` calls complete only when the socket is read); server->client messages go to `inbox`.
async fn lsp_call(
    service: &mut LspService<incan::lsp::IncanLanguageServer>,
    socket: &mut tower_lsp::ClientSocket,
    inbox: &mut Vec<Request>,
    req: Request,
) -> Value {
    let mut fut = Box::pin(service.call(req));
    for _ in 0..100_000 {
        if let std::task::Poll::Ready(r) = futures_util::poll!(fut.as_mut()) {
            return match r {
                Ok(Some(resp)) => {
                    let (_, body) = resp.into_parts();
                    match body {
                        Ok(v) => v,
                        Err(e) => json!({"error": e.to_string()}),
                    }
                }
                Ok(None) => Value::Null,
                Err(_) => json!({"error": "service exited"}),
            };
        }
        while let std::task::Poll::Ready(Some(m)) = futures_util::poll!(socket.next()) {
            inbox.push(m);
        }
        tokio::task::yield_now().await;
    }
    json!({"error": "handler did not complete"})
}

async fn lsp_case(case: &Value) -> Value {
    let text = case["text"].as_str().unwrap_or("");
    let uri = "file:///c19-no-such-dir/main.incn";
    let (mut service, mut socket) = LspService::new(incan::lsp::IncanLanguageServer::new);
    let mut inbox: Vec<Request> = Vec::new();
    let init = Request::build("initialize").id(1).params(json!({"capabilities": {}})).finish();
    let caps = lsp_call(&mut service, &mut socket, &mut inbox, init).await;
    lsp_call(&mut service, &mut socket, &mut inbox, Request::build("initialized").params(json!({})).finish()).await;
    let open = Request::build("textDocument/didOpen")
        .params(json!({"textDocument": {"uri": uri, "languageId": "incan", "version": 1, "text": text}}))
        .finish();
    lsp_call(&mut service, &mut socket, &mut inbox, open).await;
    while let std::task::Poll::Ready(Some(m)) = futures_util::poll!(socket.next()) {
        inbox.push(m);
    }
    let mut diags: Vec<Value> = Vec::new();
    for req in inbox.drain(..) {
        if req.method() != "textDocument/publishDiagnostics" {
            continue;
        }
        let p = req.params().cloned().unwrap_or(Value::Null);
        if p["uri"].as_str() != Some(uri) {
            diags.push(json!({"foreign_uri": p["uri"]}));
            continue;
        }
        diags.clear(); // the last publication for the document wins
        for d in p["diagnostics"].as_array().cloned().unwrap_or_default() {
            let rel: Vec<Value> = d["relatedInformation"]
                .as_array()
                .map(|a| a.iter().map(|x| range_json(&x["location"]["range"])).collect())
                .unwrap_or_default();
            diags.push(json!({"range": range_json(&d["range"]), "severity": d["severity"], "message": d["message"], "related": rel}));
        }
    }
    let mut answers: Vec<Value> = Vec::new();
    for (i, pos) in case["positions"].as_array().cloned().unwrap_or_default().iter().enumerate() {
        let params = json!({"textDocument": {"uri": uri}, "position": {"line": pos[0], "character": pos[1]}});
        let h = lsp_call(&mut service, &mut socket, &mut inbox, Request::build("textDocument/hover").id(100 + 2 * i as i64).params(params.clone()).finish()).await;
        let d = lsp_call(&mut service, &mut socket, &mut inbox, Request::build("textDocument/definition").id(101 + 2 * i as i64).params(params).finish()).await;
        let hr = if h.get("range").map(|r| r.is_object()).unwrap_or(false) { range_json(&h["range"]) } else { Value::Null };
        let dr = if d.get("range").map(|r| r.is_object()).unwrap_or(false) { range_json(&d["range"]) } else { Value::Null };
        answers.push(json!([hr, dr, h.get("error").cloned().unwrap_or(Value::Null), d.get("error").cloned().unwrap_or(Value::Null)]));
    }
    // the same text through the front end directly: (stage, [[start, end, kind, message], ...])
    let show = |es: &[CompileError]| -> Vec<Value> {
        es.iter().map(|e| json!([e.span.start, e.span.end, e.kind.to_string(), e.message])).collect()
    };
    let direct = match incan::lexer::lex(text) {
        Err(es) => json!(["lex", show(&es)]),
        Ok(tokens) => match incan::parser::parse(&tokens) {
            Err(es) => json!(["parse", show(&es)]),
            Ok(ast) => match incan::typechecker::TypeChecker::new().check_program(&ast) {
                Err(es) => json!(["check", show(&es)]),
                Ok(()) => json!(["ok", []]),
            },
        },
    };
    json!({"diags": diags, "answers": answers, "direct": direct,
           "position_encoding": caps["capabilities"]["positionEncoding"]})
}

pub fn run(_args: &[String]) {
    let uri = Url::parse("file:///f.incn").expect("url");
    let rt = tokio::runtime::Builder::new_current_thread().enable_all().build().expect("runtime");
    each_line(|line| {
        if let Some(js) = line.strip_prefix("lsp ") {
            let case: Value = match serde_json::from_str(js) {
                Ok(v) => v,
                Err(e) => return json!({"error": format!("bad case: {}", e)}).to_string(),
            };
            return match std::panic::catch_unwind(std::panic::AssertUnwindSafe(|| rt.block_on(lsp_case(&case)))) {
                Ok(v) => v.to_string(),
                Err(_) => json!({"error": "panic"}).to_string(),
            };
        }
        let p: Vec<&str> = line.split_whitespace().collect();
        let src = parse_doc(p[1]);
        match p[0] {
            "o2p" => match o2p(&src, p[2].parse().expect("offset")) {
                Ok(v) => join(&v),
                Err(m) => format!("{} {} # {}", TRAP, TRAP, m),
            },
            "p2o" => match p2o(&src, p[2].parse().expect("line"), p[3].parse().expect("char")) {
                Ok(v) => v.to_string(),
                Err(m) => format!("{} # {}", TRAP, m),
            },
            "rng" => match rng(&src, p[2].parse().expect("start"), p[3].parse().expect("end"), &uri) {
                Ok(Ok(v)) => join(&v),
                Ok(Err(x)) => x,
                Err(m) => format!("{0} {0} {0} {0} # {1}", TRAP, m),
            },
            "car" => match car(&src, p[2].parse().expect("start"), p[3].parse().expect("end")) {
                Ok(c) => {
                    let mut v = vec![c.line, c.col, c.spaces, c.carets];
                    v.extend_from_slice(&c.text);
                    join(&v)
                }
                Err(m) => format!("{} # {}", TRAP, m),
            },
            "tab" => table(&src, p[2].parse().expect("K"), &uri),
            other => format!("E unknown op {}", other),
        }
    });
}
