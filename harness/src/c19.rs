//! C19: run the real position arithmetic.
//!   src/lsp/diagnostics.rs: offset_to_position, position_to_offset, span_to_range,
//!     compile_error_to_diagnostic (its `range` must be span_to_range's);
//!   crates/incan_syntax/src/diagnostics.rs: get_line_info + the caret arithmetic, observed through
//!     the public format_error (location line, source line, caret line are parsed back).
//! Input lines (doc = comma-separated decimal scalar values, `-` = empty document):
//!   o2p <doc> <offset>          -> `l c`
//!   p2o <doc> <line> <char>     -> `<offset>` | `-1`
//!   rng <doc> <start> <end>     -> `sl sc el ec`
//!   car <doc> <start> <end>     -> `line col spaces carets text...`
//!   tab <doc> <K>               -> the whole table of the document as one flat integer list, in
//!                                  the order of `table` in coq/C19/Model.v
//! A panic is rendered as `-9` fillers (same arity as in Model.v) followed by `# <message>`;
//! a diagnostic whose range differs from span_to_range as `X ...`.
use crate::common::{catch, each_line};
use incan::frontend::ast::Span;
use incan::frontend::diagnostics::{format_error, CompileError};
use incan::lsp::diagnostics::{compile_error_to_diagnostic, offset_to_position, position_to_offset, span_to_range};
use tower_lsp::lsp_types::{Position, Url};

const TRAP: i64 = -9;

fn parse_doc(s: &str) -> String {
    if s == "-" {
        return String::new();
    }
    s.split(',')
        .map(|x| char::from_u32(x.parse::<u32>().expect("scalar")).expect("not a scalar value"))
        .collect()
}

fn o2p(src: &str, o: usize) -> Result<[i64; 2], String> {
    catch(|| {
        let p = offset_to_position(src, o);
        [p.line as i64, p.character as i64]
    })
}

fn p2o(src: &str, l: u32, c: u32) -> Result<i64, String> {
    catch(|| match position_to_offset(src, Position::new(l, c)) {
        Some(o) => o as i64,
        None => -1,
    })
}

/// span_to_range plus the same span through compile_error_to_diagnostic (Err(Ok(..)) = they differ)
fn rng(src: &str, a: usize, b: usize, uri: &Url) -> Result<Result<[i64; 4], String>, String> {
    catch(|| {
        let r = span_to_range(src, a, b);
        let e = CompileError::new("m".to_string(), Span::new(a, b));
        let d = compile_error_to_diagnostic(&e, src, uri);
        if d.range != r {
            return Err(format!("X span_to_range={:?} diagnostic.range={:?}", r, d.range));
        }
        Ok([
            r.start.line as i64,
            r.start.character as i64,
            r.end.line as i64,
            r.end.character as i64,
        ])
    })
}

struct Caret {
    line: i64,
    col: i64,
    text: Vec<i64>,
    spaces: i64,
    carets: i64,
}

/// format_error and parse back what get_line_info and the caret arithmetic produced
fn car(src: &str, a: usize, b: usize) -> Result<Caret, String> {
    catch(|| {
        let e = CompileError::new("m".to_string(), Span::new(a, b));
        let out = format_error("f", src, &e);
        let ls: Vec<&str> = out.split('\n').collect();
        assert!(ls.len() >= 5, "format_error: unexpected shape {:?}", out);
        let loc = ls[1].split("-->\x1b[0m f:").nth(1).expect("location line");
        let mut lc = loc.split(':');
        let line: i64 = lc.next().unwrap().parse().expect("line");
        let col: i64 = lc.next().unwrap().parse().expect("col");
        let gutter = " |\x1b[0m ";
        let tpos = ls[3].find(gutter).expect("source line") + gutter.len();
        let text: Vec<i64> = ls[3][tpos..].chars().map(|c| c as i64).collect();
        let cpos = ls[4].find(gutter).expect("caret line") + gutter.len();
        let rest = &ls[4][cpos..];
        let esc = rest.find('\x1b').expect("caret colour");
        let spaces = &rest[..esc];
        assert!(spaces.chars().all(|c| c == ' '), "caret padding {:?}", spaces);
        let after = &rest[esc..];
        let m = after.find('m').expect("colour end") + 1;
        let tail = &after[m..];
        let end = tail.find('\x1b').expect("reset");
        let carets = &tail[..end];
        assert!(carets.chars().all(|c| c == '^'), "carets {:?}", carets);
        Caret {
            line,
            col,
            text,
            spaces: spaces.len() as i64,
            carets: carets.len() as i64,
        }
    })
}

fn join(v: &[i64]) -> String {
    v.iter().map(|x| x.to_string()).collect::<Vec<_>>().join(" ")
}

fn table(src: &str, k: u32, uri: &Url) -> String {
    let mut out: Vec<i64> = Vec::new();
    let mut notes: Vec<String> = Vec::new();
    let n = src.len() + 2;
    for o in 0..n {
        match o2p(src, o) {
            Ok(p) => out.extend_from_slice(&p),
            Err(m) => {
                out.extend_from_slice(&[TRAP, TRAP]);
                notes.push(m);
            }
        }
    }
    for l in 0..=k {
        for c in 0..=k {
            match p2o(src, l, c) {
                Ok(v) => out.push(v),
                Err(m) => {
                    out.push(TRAP);
                    notes.push(m);
                }
            }
        }
    }
    for o in 0..n {
        match car(src, o, o) {
            Ok(c) => {
                out.push(c.line);
                out.push(c.col);
                out.push(c.text.len() as i64);
                out.extend_from_slice(&c.text);
            }
            Err(m) => {
                out.extend_from_slice(&[TRAP, TRAP, 0]);
                notes.push(m);
            }
        }
    }
    for a in 0..n {
        for b in 0..n {
            match car(src, a, b) {
                Ok(c) => out.extend_from_slice(&[c.spaces, c.carets]),
                Err(m) => {
                    out.extend_from_slice(&[TRAP, TRAP]);
                    notes.push(m);
                }
            }
            match rng(src, a, b, uri) {
                Ok(Ok(r)) => out.extend_from_slice(&r),
                Ok(Err(x)) => return x,
                Err(m) => {
                    out.extend_from_slice(&[TRAP, TRAP, TRAP, TRAP]);
                    notes.push(m);
                }
            }
        }
    }
    let mut s = join(&out);
    if let Some(m) = notes.first() {
        s.push_str(" # ");
        s.push_str(m);
    }
    s
}

pub fn run(_args: &[String]) {
    let uri = Url::parse("file:///f.incn").expect("url");
    each_line(|line| {
        let p: Vec<&str> = line.split_whitespace().collect();
        let src = parse_doc(p[1]);
        match p[0] {
            "o2p" => match o2p(&src, p[2].parse().expect("offset")) {
                Ok(v) => join(&v),
                Err(m) => format!("{} {} # {}", TRAP, TRAP, m),
            },
            "p2o" => match p2o(&src, p[2].parse().expect("line"), p[3].parse().expect("char")) {
                Ok(v) => v.to_string(),
                Err(m) => format!("{} # {}", TRAP, m),
            },
            "rng" => match rng(&src, p[2].parse().expect("start"), p[3].parse().expect("end"), &uri) {
                Ok(Ok(v)) => join(&v),
                Ok(Err(x)) => x,
                Err(m) => format!("{0} {0} {0} {0} # {1}", TRAP, m),
            },
            "car" => match car(&src, p[2].parse().expect("start"), p[3].parse().expect("end")) {
                Ok(c) => {
                    let mut v = vec![c.line, c.col, c.spaces, c.carets];
                    v.extend_from_slice(&c.text);
                    join(&v)
                }
                Err(m) => format!("{} # {}", TRAP, m),
            },
            "tab" => table(&src, p[2].parse().expect("K"), &uri),
            other => format!("E unknown op {}", other),
        }
    });
}
