//! C11 runner: totality of the front end and well-formedness of its diagnostics.
//! Input lines: `<hex of UTF-8 source>` (mode `robust`, default) — each case is run on a fresh thread with a
//! large stack under a wall-clock limit through
//!   lexer::lex -> parser::parse -> typechecker::check -> format_source -> IrCodegen::try_generate
//! and every diagnostic produced is checked (span inside the file, on char boundaries, start <= end) and
//! rendered with diagnostics::format_error and lsp::diagnostics::compile_error_to_diagnostic.
//! Output: `R lex=.. parse=.. check=.. fmt=.. gen=.. diags=N | <violations separated by " ;; ">`.
//! (`vharness run c11 robust <seconds>` overrides the limit.)  A hang prints `HANG` and exits with status 3 (the driver restarts after the case); a stack overflow or
//! abort kills the process (the driver sees the missing line).
//! Mode `lex` (args[0] == "lex"): token classes and spans like `vharness run c10` mode lex.
use crate::c10::{lex_line, unhex};
use crate::common::catch;
use incan::frontend::diagnostics::{format_error, CompileError};
use incan::lsp::diagnostics::compile_error_to_diagnostic;
use incan_syntax::lexer::{self, TokenKind};
use incan_syntax::parser;
use std::io::{self, BufRead, Write};
use std::sync::mpsc;
use std::time::Duration;

const STACK_BYTES: usize = 1 << 30; // 1 GiB of address space; pages are touched only when used
const TIMEOUT_SECS: u64 = 20; // normal cases take < 10 ms

fn check_diag(stage: &str, src: &str, e: &CompileError, viol: &mut Vec<String>) {
    let (a, b) = (e.span.start, e.span.end);
    let len = src.len();
    if a > b {
        viol.push(format!("span-reversed {} {}..{} len={} msg={:?}", stage, a, b, len, e.message));
    }
    if a > len || b > len {
        viol.push(format!("span-outside {} {}..{} len={} msg={:?}", stage, a, b, len, e.message));
    } else if !src.is_char_boundary(a) || !src.is_char_boundary(b) {
        viol.push(format!("span-off-boundary {} {}..{} len={} msg={:?}", stage, a, b, len, e.message));
    }
    match catch(|| format_error("input.incn", src, e)) {
        Ok(s) => {
            if s.is_empty() {
                viol.push(format!("render-empty terminal {} {}..{}", stage, a, b));
            }
        }
        Err(p) => viol.push(format!("render-panic terminal {} {}..{} len={} panic={:?}", stage, a, b, len, p)),
    }
    let uri = tower_lsp::lsp_types::Url::parse("file:///input.incn").expect("static url");
    match catch(|| compile_error_to_diagnostic(e, src, &uri)) {
        Ok(d) => {
            let (s, t) = (d.range.start, d.range.end);
            if (s.line, s.character) > (t.line, t.character) {
                viol.push(format!("render-range-reversed editor {} {}..{}", stage, a, b));
            }
        }
        Err(p) => viol.push(format!("render-panic editor {} {}..{} len={} panic={:?}", stage, a, b, len, p)),
    }
}

fn pipeline(src: &str) -> String {
    let mut viol: Vec<String> = Vec::new();
    let mut ndiag = 0usize;
    let mut st = |name: &str, v: String, acc: &mut Vec<String>| acc.push(format!("{}={}", name, v));
    let mut stages: Vec<String> = Vec::new();

    // lex
    let toks = match catch(|| lexer::lex(src)) {
        Err(p) => {
            viol.push(format!("panic lex {:?}", p));
            st("lex", "panic".into(), &mut stages);
            None
        }
        Ok(Ok(t)) => {
            if !matches!(t.last().map(|x| &x.kind), Some(TokenKind::Eof)) {
                viol.push("shape lex Ok-without-final-Eof".to_string());
            }
            for tk in &t {
                let (a, b) = (tk.span.start, tk.span.end);
                if a > b || b > src.len() || !src.is_char_boundary(a) || !src.is_char_boundary(b) {
                    viol.push(format!("token-span lex {}..{} len={}", a, b, src.len()));
                }
            }
            st("lex", "ok".into(), &mut stages);
            Some(t)
        }
        Ok(Err(es)) => {
            if es.is_empty() {
                viol.push("empty-diagnostics lex".to_string());
            }
            ndiag += es.len();
            for e in &es {
                check_diag("lex", src, e, &mut viol);
            }
            st("lex", format!("err:{}", es.len()), &mut stages);
            None
        }
    };
    // parse
    let prog = match &toks {
        None => {
            st("parse", "-".into(), &mut stages);
            None
        }
        Some(t) => match catch(|| parser::parse(t)) {
            Err(p) => {
                viol.push(format!("panic parse {:?}", p));
                st("parse", "panic".into(), &mut stages);
                None
            }
            Ok(Ok(p)) => {
                st("parse", "ok".into(), &mut stages);
                Some(p)
            }
            Ok(Err(es)) => {
                if es.is_empty() {
                    viol.push("empty-diagnostics parse".to_string());
                }
                ndiag += es.len();
                for e in &es {
                    check_diag("parse", src, e, &mut viol);
                }
                st("parse", format!("err:{}", es.len()), &mut stages);
                None
            }
        },
    };
    // type check
    match &prog {
        None => st("check", "-".into(), &mut stages),
        Some(p) => match catch(|| incan::frontend::typechecker::check(p)) {
            Err(pn) => {
                viol.push(format!("panic check {:?}", pn));
                st("check", "panic".into(), &mut stages);
            }
            Ok(Ok(())) => st("check", "ok".into(), &mut stages),
            Ok(Err(es)) => {
                if es.is_empty() {
                    viol.push("empty-diagnostics check".to_string());
                }
                ndiag += es.len();
                for e in &es {
                    check_diag("check", src, e, &mut viol);
                }
                st("check", format!("err:{}", es.len()), &mut stages);
            }
        },
    }
    // formatter (lexes and parses again itself)
    match catch(|| incan::format_source(src)) {
        Err(pn) => {
            viol.push(format!("panic fmt {:?}", pn));
            st("fmt", "panic".into(), &mut stages);
        }
        Ok(Ok(_)) => {
            if prog.is_none() {
                viol.push("shape fmt Ok-for-rejected-source".to_string());
            }
            st("fmt", "ok".into(), &mut stages);
        }
        Ok(Err(e)) => {
            let text = e.to_string();
            if text.trim().is_empty() {
                viol.push("empty-diagnostics fmt".to_string());
            }
            if prog.is_some() {
                viol.push("shape fmt Err-for-accepted-source".to_string());
            }
            st("fmt", "err".into(), &mut stages);
        }
    }
    // --emit-rust path (commands::emit_rust: IrCodegen::new().try_generate(ast); it type-checks itself)
    match &prog {
        None => st("gen", "-".into(), &mut stages),
        Some(p) => match catch(|| incan::IrCodegen::new().try_generate(p)) {
            Err(pn) => {
                viol.push(format!("panic gen {:?}", pn));
                st("gen", "panic".into(), &mut stages);
            }
            Ok(Ok(_)) => st("gen", "ok".into(), &mut stages),
            Ok(Err(e)) => {
                let text = e.to_string();
                if text.trim().is_empty() {
                    viol.push("empty-diagnostics gen".to_string());
                }
                if let incan::backend::ir::codegen::GenerationError::TypeCheck(es) = &e {
                    if es.is_empty() {
                        viol.push("empty-diagnostics gen-typecheck".to_string());
                    }
                    for d in es {
                        check_diag("gen", src, d, &mut viol);
                    }
                }
                st("gen", "err".into(), &mut stages);
            }
        },
    }
    format!("R {} diags={} | {}", stages.join(" "), ndiag, viol.join(" ;; "))
}

pub fn run(args: &[String]) {
    let mode = args.first().map(|s| s.as_str()).unwrap_or("robust");
    let limit: u64 = args.get(1).and_then(|s| s.parse().ok()).unwrap_or(TIMEOUT_SECS);
    let stdin = io::stdin();
    let stdout = io::stdout();
    for line in stdin.lock().lines() {
        let Ok(line) = line else { break };
        let line = line.trim_end().to_string();
        if line.is_empty() {
            continue;
        }
        // an empty source is sent as "-"
        let Some(src) = (if line == "-" { Some(String::new()) } else { unhex(&line) }) else {
            let mut o = stdout.lock();
            let _ = writeln!(o, "BADINPUT");
            let _ = o.flush();
            continue;
        };
        if mode == "fparts" {
            // payload of f-string tokens: `FP F <start byte> <hex expr>,<hex expr>..;F ..` (`-` = empty expression),
            // `FP ERR` when the lexer rejects, `FP PANIC`
            let r = match catch(|| lexer::lex(&src)) {
                Err(_) => "FP PANIC".to_string(),
                Ok(Err(_)) => "FP ERR".to_string(),
                Ok(Ok(toks)) => {
                    let mut items: Vec<String> = Vec::new();
                    for t in &toks {
                        if let TokenKind::FString(parts) = &t.kind {
                            let ex: Vec<String> = parts
                                .iter()
                                .filter_map(|p| match p {
                                    lexer::FStringPart::Expr(e) => Some(if e.is_empty() {
                                        "-".to_string()
                                    } else {
                                        e.bytes().map(|b| format!("{:02x}", b)).collect::<String>()
                                    }),
                                    _ => None,
                                })
                                .collect();
                            items.push(format!("F {} {}", t.span.start, ex.join(",")));
                        }
                    }
                    format!("FP {}", items.join(";"))
                }
            };
            let mut o = stdout.lock();
            let _ = writeln!(o, "{}", r);
            let _ = o.flush();
            continue;
        }
        if mode == "lex" {
            let mut o = stdout.lock();
            let _ = writeln!(o, "{}", lex_line(&src).replace('\n', "\\n"));
            let _ = o.flush();
            continue;
        }
        let (tx, rx) = mpsc::channel::<String>();
        let handle = std::thread::Builder::new()
            .stack_size(STACK_BYTES)
            .spawn(move || {
                let r = catch(|| pipeline(&src)).unwrap_or_else(|p| format!("R harness-panic | panic harness {:?}", p));
                let _ = tx.send(r);
            })
            .expect("spawn");
        match rx.recv_timeout(Duration::from_secs(limit)) {
            Ok(r) => {
                let _ = handle.join();
                let mut o = stdout.lock();
                let _ = writeln!(o, "{}", r.replace('\n', "\\n"));
                let _ = o.flush();
            }
            Err(_) => {
                let mut o = stdout.lock();
                let _ = writeln!(o, "HANG");
                let _ = o.flush();
                std::process::exit(3);
            }
        }
    }
}
