//! C17 runner: drives the REAL pipeline (collect_modules -> TypeChecker::check_with_imports ->
//! IrCodegen (AstLowering + IrEmitter) [-> ProjectGenerator]) exactly as `cli::commands::
//! prepare_project` does, on generated Incan programs.
//!
//! Input: one JSON object per line
//!   {"dir": "<scratch dir, created/overwritten>", "files": {"main.incn": "...", "ids.incn": "..."},
//!    "entry": "main.incn", "op": "emit" | "check" | "project", "name": "<cargo package name>",
//!    "out": "<project dir for op=project>"}
//! Output: one JSON object per line
//!   {"stage": "ok" | "collect" | "check" | "codegen" | "project" | "panic",
//!    "errors": ["..."], "main": "<rust text>", "modules": {"ids": "<rust text>"}}
//! `stage` is the first stage that failed ("ok" = none). For op=check only the verdict is returned.
#[allow(unused_imports)]
use crate::common::{catch, each_line, opt_i64};
use incan::backend::{IrCodegen, ProjectGenerator};
use incan::cli::commands::collect_modules;
use incan::frontend::ast::Program;
use incan::frontend::typechecker::TypeChecker;
use serde_json::{json, Map, Value};
use std::fs;
use std::path::Path;

fn strip_ansi(s: &str) -> String {
    let mut out = String::new();
    let mut it = s.chars().peekable();
    while let Some(c) = it.next() {
        if c == '\u{1b}' {
            // skip CSI ... final byte
            if it.peek() == Some(&'[') {
                it.next();
                for d in it.by_ref() {
                    if ('@'..='~').contains(&d) {
                        break;
                    }
                }
            }
        } else {
            out.push(c);
        }
    }
    out
}

fn one(case: &Value) -> Value {
    let dir = case["dir"].as_str().expect("dir");
    let entry = case["entry"].as_str().unwrap_or("main.incn");
    let op = case["op"].as_str().unwrap_or("emit");
    let _ = fs::remove_dir_all(dir);
    fs::create_dir_all(dir).expect("mkdir");
    if let Some(files) = case["files"].as_object() {
        for (name, content) in files {
            let p = Path::new(dir).join(name);
            if let Some(parent) = p.parent() {
                fs::create_dir_all(parent).expect("mkdir");
            }
            fs::write(&p, content.as_str().unwrap_or("")).expect("write");
        }
    }
    let entry_path = Path::new(dir).join(entry);
    let entry_str = entry_path.to_string_lossy().to_string();

    let modules = match collect_modules(&entry_str) {
        Ok(m) => m,
        Err(e) => return json!({"stage": "collect", "errors": [strip_ansi(&format!("{}", e))]}),
    };
    let Some(main_module) = modules.last() else {
        return json!({"stage": "collect", "errors": ["no modules"]});
    };
    let dep_modules = &modules[..modules.len() - 1];
    let deps: Vec<(&str, &Program)> = dep_modules.iter().map(|m| (m.name.as_str(), &m.ast)).collect();

    let mut checker = TypeChecker::new();
    if let Err(errs) = checker.check_with_imports(&main_module.ast, &deps) {
        let msgs: Vec<String> = errs.iter().map(|e| strip_ansi(&e.message)).collect();
        return json!({"stage": "check", "errors": msgs});
    }
    if op == "check" {
        return json!({"stage": "ok", "errors": []});
    }

    let mut codegen = IrCodegen::new();
    for module in dep_modules {
        codegen.add_module(&module.name, &module.ast);
    }
    codegen.scan_for_serde(&main_module.ast);
    codegen.scan_for_async(&main_module.ast);
    codegen.scan_for_web(&main_module.ast);
    codegen.scan_for_list_helpers(&main_module.ast);
    let needs_serde = codegen.needs_serde();
    let needs_tokio = codegen.needs_tokio();
    let needs_axum = codegen.needs_axum();

    let has_deps = !dep_modules.is_empty();
    let mut mods_out = Map::new();
    let main_code;
    let mut nested: std::collections::HashMap<Vec<String>, String> = std::collections::HashMap::new();
    if has_deps {
        let module_paths: Vec<Vec<String>> = dep_modules.iter().map(|m| m.path_segments.clone()).collect();
        match codegen.try_generate_multi_file_nested(&main_module.ast, &module_paths) {
            Ok((m, rm)) => {
                main_code = m;
                let mut keys: Vec<&Vec<String>> = rm.keys().collect();
                keys.sort();
                for k in keys {
                    mods_out.insert(k.join("::"), Value::String(rm[k].clone()));
                }
                nested = rm;
            }
            Err(e) => return json!({"stage": "codegen", "errors": [strip_ansi(&format!("{}", e))]}),
        }
    } else {
        match codegen.try_generate(&main_module.ast) {
            Ok(m) => main_code = m,
            Err(e) => return json!({"stage": "codegen", "errors": [strip_ansi(&format!("{}", e))]}),
        }
    }

    if op == "project" {
        let out = case["out"].as_str().expect("out");
        let name = case["name"].as_str().unwrap_or("c17prog");
        let _ = fs::remove_dir_all(out);
        let mut generator = ProjectGenerator::new(out, name, true);
        generator.set_needs_serde(needs_serde);
        generator.set_needs_tokio(needs_tokio);
        generator.set_needs_axum(needs_axum);
        let r = if has_deps { generator.generate_nested(&main_code, &nested) } else { generator.generate(&main_code) };
        if let Err(e) = r {
            return json!({"stage": "project", "errors": [format!("{}", e)]});
        }
    }
    json!({"stage": "ok", "errors": [], "main": main_code, "modules": Value::Object(mods_out)})
}

pub fn run(_args: &[String]) {
    // Deeply nested generated programs (scale dimension of the generator) recurse deeply in the parser,
    // checker, lowering and emitter: run on a thread with a large stack so that a nesting depth the
    // `incan` binary itself cannot handle on its 8 MiB main stack does not take the runner down.
    let h = std::thread::Builder::new()
        .stack_size(2usize << 30)
        .spawn(run_inner)
        .expect("spawn");
    let _ = h.join();
}

fn run_inner() {
    each_line(|line| {
        let case: Value = match serde_json::from_str(line) {
            Ok(v) => v,
            Err(e) => return json!({"stage": "panic", "errors": [format!("bad case json: {}", e)]}).to_string(),
        };
        match catch(|| one(&case)) {
            Ok(v) => v.to_string(),
            Err(msg) => json!({"stage": "panic", "errors": [msg]}).to_string(),
        }
    });
}
