//! C09.
//! (1) the CLI modes of `incan fmt`: `vharness run c09 <fmt|check|diff|checkdiff> <path>` calls the REAL
//!     `incan::cli::commands::format_files(path, check, diff)` (the function `incan fmt` dispatches to,
//!     src/cli/mod.rs) in this process and prints, after whatever the function itself printed, one line
//!     `@@C09 <ok|err> <exit code> <message>`.  File contents are hashed by the Python side before/after.
//! (2) `vharness run c09 layout`: the tie of the character-level layout model (coq/Fmt/Writer.v).  One JSON request
//!     per stdin line `{"src": .., "indent_width": w, "tweaks": [..]}`; the source is parsed with the REAL parser,
//!     optional AST tweaks build shapes the parser never produces (the model's arms that are unreachable from
//!     source), the REAL `Formatter` prints the program, and the AST is converted to the model's skeleton:
//!     structure is copied field by field; every text the model treats as opaque is produced by the REAL
//!     formatter (an expression via `const X = <e>`, a type via `const X: <t> = Y`, a pattern via a match arm of a
//!     wrapper function).  Block-bodied sub-expressions (`match` / `if` expressions) are replaced by marker
//!     identifiers before an expression is printed and the printed text is split at the markers, so the
//!     stretches between them are exactly what the real `format_expr` writes around them.
//!     Only `doc.trim()` + the two `replace` calls of format_docstring are repeated here (the model's docstring
//!     input is that text).
use crate::common::{catch, each_line};
use incan::ast::*;
use incan::format::{FormatConfig, Formatter};
use incan::{lexer, parser};
use serde_json::{json, Value};
use std::io::Write;

pub fn run(args: &[String]) {
    let mode = args.first().map(|s| s.as_str()).unwrap_or("");
    if mode == "layout" {
        return run_layout();
    }
    let path = args.get(1).cloned().unwrap_or_default();
    let (check, diff) = match mode {
        "fmt" => (false, false),
        "check" => (true, false),
        "diff" => (false, true),
        "checkdiff" => (true, true),
        _ => {
            eprintln!("c09: mode must be fmt|check|diff|checkdiff|layout");
            std::process::exit(2);
        }
    };
    let r = catch(|| incan::cli::commands::format_files(&path, check, diff));
    let _ = std::io::stdout().flush();
    match r {
        Ok(Ok(code)) => println!("@@C09 ok {} ", code.0),
        Ok(Err(e)) => println!("@@C09 err {} {}", e.exit_code.0, e.message.replace('\n', "\\n")),
        Err(p) => println!("@@C09 panic 101 {}", p.replace('\n', "\\n")),
    }
}

// ------------------------------------------------------------------------------------ layout tie

const M_OPEN: char = '\u{E000}';
const M_CLOSE: char = '\u{E001}';

struct Conv {
    width: usize,
    /// texts produced by a wrapper whose fixed prefix / suffix was not found (reported, never silently used)
    problems: Vec<String>,
}

fn sp<T>(node: T) -> Spanned<T> {
    Spanned::new(node, Span::default())
}

fn children_mut<'a>(e: &'a mut Expr, out: &mut Vec<&'a mut Spanned<Expr>>) {
    fn args<'a>(a: &'a mut Vec<CallArg>, out: &mut Vec<&'a mut Spanned<Expr>>) {
        for x in a.iter_mut() {
            match x {
                CallArg::Positional(e) | CallArg::Named(_, e) => out.push(e),
            }
        }
    }
    match e {
        Expr::Ident(_) | Expr::Literal(_) | Expr::SelfExpr => {}
        Expr::Binary(l, _, r) => {
            out.push(l);
            out.push(r);
        }
        Expr::Unary(_, x) | Expr::Await(x) | Expr::Try(x) | Expr::Paren(x) => out.push(x),
        Expr::Call(f, a) => {
            out.push(f);
            args(a, out);
        }
        Expr::Index(b, i) => {
            out.push(b);
            out.push(i);
        }
        Expr::Slice(b, s) => {
            out.push(b);
            for x in [&mut s.start, &mut s.end, &mut s.step].into_iter().flatten() {
                out.push(x);
            }
        }
        Expr::Field(b, _) => out.push(b),
        Expr::MethodCall(b, _, a) => {
            out.push(b);
            args(a, out);
        }
        // block-bodied: never descended into here (replaced as a whole by the caller)
        Expr::Match(..) | Expr::If(..) => {}
        Expr::ListComp(c) => {
            out.push(&mut c.expr);
            out.push(&mut c.iter);
            if let Some(f) = &mut c.filter {
                out.push(f);
            }
        }
        Expr::DictComp(c) => {
            out.push(&mut c.key);
            out.push(&mut c.value);
            out.push(&mut c.iter);
            if let Some(f) = &mut c.filter {
                out.push(f);
            }
        }
        Expr::Closure(_, body) => out.push(body),
        Expr::Tuple(xs) | Expr::List(xs) | Expr::Set(xs) => xs.iter_mut().for_each(|x| out.push(x)),
        Expr::Dict(kvs) => {
            for (k, v) in kvs.iter_mut() {
                out.push(k);
                out.push(v);
            }
        }
        Expr::Constructor(_, a) => args(a, out),
        Expr::FString(parts) => {
            for p in parts.iter_mut() {
                if let FStringPart::Expr(x) = p {
                    out.push(x);
                }
            }
        }
        Expr::Yield(x) => {
            if let Some(x) = x {
                out.push(x);
            }
        }
        Expr::Range { start, end, .. } => {
            out.push(start);
            out.push(end);
        }
    }
}

/// Replace every maximal `match` / `if` sub-expression by a marker identifier; the originals go to `taken`.
fn take_blocks(e: &mut Spanned<Expr>, taken: &mut Vec<Expr>) {
    if matches!(e.node, Expr::Match(..) | Expr::If(..)) {
        let k = taken.len();
        let old = std::mem::replace(&mut e.node, Expr::Ident(format!("{}{}{}", M_OPEN, k, M_CLOSE)));
        taken.push(old);
        return;
    }
    let mut kids = Vec::new();
    children_mut(&mut e.node, &mut kids);
    for k in kids {
        take_blocks(k, taken);
    }
}

impl Conv {
    fn cfg(&self) -> FormatConfig {
        FormatConfig::default().with_indent_width(self.width)
    }

    fn fmt_prog(&self, decls: Vec<Declaration>) -> String {
        Formatter::new(self.cfg()).format(&Program { declarations: decls.into_iter().map(sp).collect() })
    }

    fn between(&mut self, what: &str, text: &str, prefix: &str, suffix: &str) -> String {
        match text.strip_prefix(prefix).and_then(|t| t.strip_suffix(suffix)) {
            Some(t) => t.to_string(),
            None => {
                self.problems.push(format!("{}: wrapper text {:?} lacks prefix {:?} / suffix {:?}", what, text, prefix, suffix));
                text.to_string()
            }
        }
    }

    /// the text the REAL formatter writes for an expression that has no block-bodied sub-expression
    fn flat_expr_text(&mut self, e: &Spanned<Expr>) -> String {
        let t = self.fmt_prog(vec![Declaration::Const(ConstDecl {
            visibility: Visibility::Private,
            name: "X".into(),
            ty: None,
            value: e.clone(),
        })]);
        self.between("expression", &t, "const X = ", "\n")
    }

    fn ty(&mut self, t: &Spanned<Type>) -> Value {
        let text = self.fmt_prog(vec![Declaration::Const(ConstDecl {
            visibility: Visibility::Private,
            name: "X".into(),
            ty: Some(t.clone()),
            value: sp(Expr::Ident("Y".into())),
        })]);
        json!(self.between("type", &text, "const X: ", " = Y\n"))
    }

    fn pattern(&mut self, p: &Spanned<Pattern>) -> Value {
        let arm = MatchArm { pattern: p.clone(), guard: None, body: MatchBody::Expr(sp(Expr::Ident("y".into()))) };
        let f = FunctionDecl {
            visibility: Visibility::Private,
            decorators: vec![],
            is_async: false,
            name: "f".into(),
            type_params: vec![],
            params: vec![],
            return_type: sp(Type::Simple("None".into())),
            body: vec![sp(Statement::Expr(sp(Expr::Match(Box::new(sp(Expr::Ident("x".into()))), vec![sp(arm)]))))],
        };
        let text = self.fmt_prog(vec![Declaration::Function(f)]);
        let line = text.split('\n').nth(2).unwrap_or("").to_string();
        let ind = " ".repeat(2 * self.width);
        let got = self.between("pattern", &line, &ind, " => y");
        json!(got)
    }

    /// expression -> parts: ["t", text] | ["m", scrutinee parts, arms] | ["i", cond parts, then, else|null]
    fn expr(&mut self, e: &Spanned<Expr>) -> Value {
        let mut copy = e.clone();
        let mut taken = Vec::new();
        take_blocks(&mut copy, &mut taken);
        let text = self.flat_expr_text(&copy);
        let mut parts = Vec::new();
        let mut cur = String::new();
        let mut it = text.chars().peekable();
        while let Some(c) = it.next() {
            if c == M_OPEN {
                let mut num = String::new();
                for d in it.by_ref() {
                    if d == M_CLOSE {
                        break;
                    }
                    num.push(d);
                }
                if !cur.is_empty() {
                    parts.push(json!(["t", cur]));
                    cur = String::new();
                }
                match num.parse::<usize>().ok().and_then(|k| taken.get(k)) {
                    Some(Expr::Match(s, arms)) => {
                        let sv = self.expr(s);
                        let av: Vec<Value> = arms.iter().map(|a| self.arm(&a.node)).collect();
                        parts.push(json!(["m", sv, av]));
                    }
                    Some(Expr::If(ie)) => {
                        let cv = self.expr(&ie.condition);
                        let tv = self.block(&ie.then_body);
                        let ev = match &ie.else_body {
                            Some(b) => self.block(b),
                            None => Value::Null,
                        };
                        parts.push(json!(["i", cv, tv, ev]));
                    }
                    _ => self.problems.push(format!("marker {:?} not found", num)),
                }
            } else {
                cur.push(c);
            }
        }
        if !cur.is_empty() {
            parts.push(json!(["t", cur]));
        }
        Value::Array(parts)
    }

    fn arm(&mut self, a: &MatchArm) -> Value {
        let p = self.pattern(&a.pattern);
        match (&a.guard, &a.body) {
            (Some(g), MatchBody::Expr(b)) => json!(["ge", p, self.expr(g), self.expr(b)]),
            (Some(g), MatchBody::Block(b)) => json!(["gb", p, self.expr(g), self.block(b)]),
            (None, MatchBody::Expr(b)) => json!(["e", p, self.expr(b)]),
            (None, MatchBody::Block(b)) => json!(["b", p, self.block(b)]),
        }
    }

    fn block(&mut self, b: &[Spanned<Statement>]) -> Value {
        Value::Array(b.iter().map(|s| self.stmt(&s.node)).collect())
    }

    fn binding(b: &BindingKind) -> &'static str {
        match b {
            BindingKind::Inferred => "inferred",
            BindingKind::Let => "let",
            BindingKind::Mutable => "mut",
            BindingKind::Reassign => "reassign",
        }
    }

    fn stmt(&mut self, s: &Statement) -> Value {
        match s {
            Statement::Expr(e) => json!(["expr", self.expr(e)]),
            Statement::Assignment(a) => {
                let t = a.ty.as_ref().map(|t| self.ty(t)).unwrap_or(Value::Null);
                json!(["assign", Self::binding(&a.binding), a.name, t, self.expr(&a.value)])
            }
            Statement::FieldAssignment(a) => json!(["fassign", self.expr(&a.object), a.field, self.expr(&a.value)]),
            Statement::IndexAssignment(a) => json!(["iassign", self.expr(&a.object), self.expr(&a.index), self.expr(&a.value)]),
            Statement::CompoundAssignment(c) => json!(["compound", c.name, format!("{:?}", c.op), self.expr(&c.value)]),
            Statement::Return(None) => json!(["ret0"]),
            Statement::Return(Some(e)) => json!(["ret", self.expr(e)]),
            Statement::If(i) => {
                let el: Vec<Value> = i.elif_branches.iter().map(|(c, b)| json!([self.expr(c), self.block(b)])).collect();
                let e = match &i.else_body {
                    Some(b) => self.block(b),
                    None => Value::Null,
                };
                json!(["if", self.expr(&i.condition), self.block(&i.then_body), el, e])
            }
            Statement::While(w) => json!(["while", self.expr(&w.condition), self.block(&w.body)]),
            Statement::For(f) => json!(["for", f.var, self.expr(&f.iter), self.block(&f.body)]),
            Statement::Pass => json!(["pass"]),
            Statement::Break => json!(["break"]),
            Statement::Continue => json!(["continue"]),
            Statement::TupleUnpack(u) => json!(["unpack", Self::binding(&u.binding), u.names, self.expr(&u.value)]),
            Statement::TupleAssign(t) => {
                let ts: Vec<Value> = t.targets.iter().map(|x| self.expr(x)).collect();
                json!(["tassign", ts, self.expr(&t.value)])
            }
            Statement::ChainedAssignment(c) => json!(["chained", Self::binding(&c.binding), c.targets, self.expr(&c.value)]),
        }
    }

    fn decorators(&mut self, ds: &[Spanned<Decorator>]) -> Value {
        Value::Array(
            ds.iter()
                .map(|d| {
                    let args: Vec<Value> = d
                        .node
                        .args
                        .iter()
                        .map(|a| match a {
                            DecoratorArg::Positional(e) => json!(["pos", self.expr(e)]),
                            DecoratorArg::Named(n, DecoratorArgValue::Type(t)) => json!(["nty", n, self.ty(t)]),
                            DecoratorArg::Named(n, DecoratorArgValue::Expr(e)) => json!(["nex", n, self.expr(e)]),
                        })
                        .collect();
                    json!([d.node.name, args])
                })
                .collect(),
        )
    }

    fn params(&mut self, ps: &[Spanned<Param>]) -> Value {
        Value::Array(
            ps.iter()
                .map(|p| {
                    let d = p.node.default.as_ref().map(|e| self.expr(e)).unwrap_or(Value::Null);
                    json!([p.node.is_mut, p.node.name, self.ty(&p.node.ty), d])
                })
                .collect(),
        )
    }

    fn fields(&mut self, fs: &[Spanned<FieldDecl>]) -> Value {
        Value::Array(
            fs.iter()
                .map(|f| {
                    let d = f.node.default.as_ref().map(|e| self.expr(e)).unwrap_or(Value::Null);
                    json!([matches!(f.node.visibility, Visibility::Public), f.node.name, self.ty(&f.node.ty), d])
                })
                .collect(),
        )
    }

    fn methods(&mut self, ms: &[Spanned<MethodDecl>]) -> Value {
        Value::Array(
            ms.iter()
                .map(|m| {
                    let m = &m.node;
                    let recv = match m.receiver {
                        None => "none",
                        Some(Receiver::Immutable) => "imm",
                        Some(Receiver::Mutable) => "mut",
                    };
                    let body = m.body.as_ref().map(|b| self.block(b)).unwrap_or(Value::Null);
                    json!([self.decorators(&m.decorators), m.is_async, m.name, recv, self.params(&m.params), self.ty(&m.return_type), body])
                })
                .collect(),
        )
    }

    fn ipath(p: &ImportPath) -> Value {
        json!([p.is_absolute, p.parent_levels, p.segments])
    }

    fn items(items: &[ImportItem]) -> Value {
        Value::Array(items.iter().map(|i| json!([i.name, i.alias])).collect())
    }

    fn decl(&mut self, d: &Declaration) -> Value {
        let vis = |v: &Visibility| matches!(v, Visibility::Public);
        match d {
            Declaration::Import(i) => {
                let k = match &i.kind {
                    ImportKind::Module(p) => json!(["module", Self::ipath(p)]),
                    ImportKind::From { module, items } => json!(["from", Self::ipath(module), Self::items(items)]),
                    ImportKind::Python(n) => json!(["python", n]),
                    ImportKind::RustCrate { crate_name, path } => json!(["rustcrate", crate_name, path]),
                    ImportKind::RustFrom { crate_name, path, items } => json!(["rustfrom", crate_name, path, Self::items(items)]),
                };
                json!(["import", k, i.alias])
            }
            Declaration::Const(c) => {
                let t = c.ty.as_ref().map(|t| self.ty(t)).unwrap_or(Value::Null);
                json!(["const", vis(&c.visibility), c.name, t, self.expr(&c.value)])
            }
            Declaration::Model(m) => json!(["model", vis(&m.visibility), self.decorators(&m.decorators), m.name, m.type_params,
                m.traits.iter().map(|t| t.node.clone()).collect::<Vec<_>>(), self.fields(&m.fields), self.methods(&m.methods)]),
            Declaration::Class(m) => json!(["class", vis(&m.visibility), self.decorators(&m.decorators), m.name, m.type_params, m.extends,
                m.traits.iter().map(|t| t.node.clone()).collect::<Vec<_>>(), self.fields(&m.fields), self.methods(&m.methods)]),
            Declaration::Trait(t) => json!(["trait", vis(&t.visibility), self.decorators(&t.decorators), t.name, t.type_params, self.methods(&t.methods)]),
            Declaration::Newtype(n) => json!(["newtype", vis(&n.visibility), n.name, self.ty(&n.underlying), self.methods(&n.methods)]),
            Declaration::Enum(e) => {
                let vs: Vec<Value> = e
                    .variants
                    .iter()
                    .map(|v| json!([v.node.name, v.node.fields.iter().map(|t| self.ty(t)).collect::<Vec<_>>()]))
                    .collect();
                json!(["enum", vis(&e.visibility), e.name, e.type_params, vs])
            }
            Declaration::Function(f) => json!(["function", vis(&f.visibility), self.decorators(&f.decorators), f.is_async, f.name, f.type_params,
                self.params(&f.params), self.ty(&f.return_type), self.block(&f.body)]),
            Declaration::Docstring(doc) => {
                // format_docstring's `trimmed` (the model's input): trim + the two escaping replace() calls
                let escaped = doc.trim().replace('\\', "\\\\").replace("\"\"\"", "\\\"\\\"\\\"");
                json!(["docstring", escaped])
            }
        }
    }
}

// ---- AST tweaks: shapes the parser never produces (each applies to every node of its kind)

fn tweak_block(b: &mut Vec<Spanned<Statement>>, tw: &[String]) {
    for s in b.iter_mut() {
        tweak_stmt(&mut s.node, tw);
    }
}

fn tweak_expr(e: &mut Spanned<Expr>, tw: &[String]) {
    match &mut e.node {
        Expr::Match(s, arms) => {
            tweak_expr(s, tw);
            if tw.iter().any(|t| t == "empty_arms") {
                arms.clear();
            }
            for a in arms.iter_mut() {
                if tw.iter().any(|t| t == "guard_expr_body") && a.node.guard.is_some() {
                    // `case p if g: e` is parsed into Block([Expr(e)]); the MatchBody::Expr form with a guard exists only in the AST
                    let single = match &a.node.body {
                        MatchBody::Block(b) if b.len() == 1 => match &b[0].node {
                            Statement::Expr(e) => Some(e.clone()),
                            _ => None,
                        },
                        _ => None,
                    };
                    if let Some(e) = single {
                        a.node.body = MatchBody::Expr(e);
                    }
                }
                match &mut a.node.body {
                    MatchBody::Expr(x) => tweak_expr(x, tw),
                    MatchBody::Block(b) => {
                        if tw.iter().any(|t| t == "empty_arm_block") {
                            b.clear();
                        }
                        tweak_block(b, tw)
                    }
                }
            }
        }
        Expr::If(ie) => {
            tweak_expr(&mut ie.condition, tw);
            if tw.iter().any(|t| t == "empty_if_expr_bodies") {
                ie.then_body.clear();
                if let Some(b) = &mut ie.else_body {
                    b.clear();
                }
            }
            tweak_block(&mut ie.then_body, tw);
            if let Some(b) = &mut ie.else_body {
                tweak_block(b, tw);
            }
        }
        other => {
            let mut kids = Vec::new();
            children_mut(other, &mut kids);
            for k in kids {
                tweak_expr(k, tw);
            }
        }
    }
}

fn tweak_stmt(s: &mut Statement, tw: &[String]) {
    let has = |n: &str| tw.iter().any(|t| t == n);
    match s {
        Statement::Assignment(a) => {
            if has("reassign") {
                a.binding = BindingKind::Reassign;
            }
            tweak_expr(&mut a.value, tw);
        }
        Statement::TupleUnpack(u) => {
            if has("reassign") {
                u.binding = BindingKind::Reassign;
            }
            if has("empty_names") {
                u.names.clear();
            }
            tweak_expr(&mut u.value, tw);
        }
        Statement::ChainedAssignment(c) => {
            if has("reassign") {
                c.binding = BindingKind::Reassign;
            }
            if has("empty_names") {
                c.targets.clear();
            }
            tweak_expr(&mut c.value, tw);
        }
        Statement::TupleAssign(t) => {
            if has("empty_names") {
                t.targets.clear();
            }
            t.targets.iter_mut().for_each(|x| tweak_expr(x, tw));
            tweak_expr(&mut t.value, tw);
        }
        Statement::FieldAssignment(a) => {
            tweak_expr(&mut a.object, tw);
            tweak_expr(&mut a.value, tw);
        }
        Statement::IndexAssignment(a) => {
            tweak_expr(&mut a.object, tw);
            tweak_expr(&mut a.index, tw);
            tweak_expr(&mut a.value, tw);
        }
        Statement::CompoundAssignment(c) => tweak_expr(&mut c.value, tw),
        Statement::Return(Some(e)) | Statement::Expr(e) => tweak_expr(e, tw),
        Statement::If(i) => {
            tweak_expr(&mut i.condition, tw);
            if has("empty_bodies") {
                i.then_body.clear();
                for (_, b) in i.elif_branches.iter_mut() {
                    b.clear();
                }
                if let Some(b) = &mut i.else_body {
                    b.clear();
                }
            }
            tweak_block(&mut i.then_body, tw);
            for (c, b) in i.elif_branches.iter_mut() {
                tweak_expr(c, tw);
                tweak_block(b, tw);
            }
            if let Some(b) = &mut i.else_body {
                tweak_block(b, tw);
            }
        }
        Statement::While(w) => {
            tweak_expr(&mut w.condition, tw);
            if has("empty_bodies") {
                w.body.clear();
            }
            tweak_block(&mut w.body, tw);
        }
        Statement::For(f) => {
            tweak_expr(&mut f.iter, tw);
            if has("empty_bodies") {
                f.body.clear();
            }
            tweak_block(&mut f.body, tw);
        }
        Statement::Return(None) | Statement::Pass | Statement::Break | Statement::Continue => {}
    }
}

fn tweak_methods(ms: &mut Vec<Spanned<MethodDecl>>, tw: &[String]) {
    for m in ms.iter_mut() {
        if let Some(b) = &mut m.node.body {
            if tw.iter().any(|t| t == "empty_fn_bodies") {
                b.clear();
            }
            tweak_block(b, tw);
        }
    }
}

fn tweak_decl(d: &mut Declaration, tw: &[String]) {
    let has = |n: &str| tw.iter().any(|t| t == n);
    match d {
        Declaration::Import(i) => match &mut i.kind {
            ImportKind::Module(p) => {
                if has("empty_import_path") {
                    p.segments.clear();
                    p.parent_levels = 0;
                    p.is_absolute = false;
                }
                if has("crate_only_path") {
                    p.segments.clear();
                    p.is_absolute = true;
                }
            }
            ImportKind::From { items, .. } | ImportKind::RustFrom { items, .. } => {
                if has("empty_import_items") {
                    items.clear();
                }
            }
            _ => {}
        },
        Declaration::Const(c) => tweak_expr(&mut c.value, tw),
        Declaration::Model(m) => {
            if has("empty_class") {
                m.fields.clear();
                m.methods.clear();
            }
            tweak_methods(&mut m.methods, tw);
        }
        Declaration::Class(m) => {
            if has("empty_class") {
                m.fields.clear();
                m.methods.clear();
            }
            tweak_methods(&mut m.methods, tw);
        }
        Declaration::Trait(t) => tweak_methods(&mut t.methods, tw),
        Declaration::Newtype(n) => tweak_methods(&mut n.methods, tw),
        Declaration::Enum(e) => {
            if has("empty_enum") {
                e.variants.clear();
            }
        }
        Declaration::Function(f) => {
            if has("empty_fn_bodies") {
                f.body.clear();
            }
            tweak_block(&mut f.body, tw);
        }
        Declaration::Docstring(_) => {}
    }
}

fn layout_case(req: &Value) -> Value {
    let src = req["src"].as_str().unwrap_or("");
    let width = req["indent_width"].as_u64().unwrap_or(4) as usize;
    let tweaks: Vec<String> = req["tweaks"].as_array().map(|a| a.iter().filter_map(|x| x.as_str().map(String::from)).collect()).unwrap_or_default();
    let toks = match lexer::lex(src) {
        Ok(t) => t,
        Err(e) => return json!({"parse": format!("lex: {}", e.iter().map(|x| x.message.clone()).collect::<Vec<_>>().join("; "))}),
    };
    let mut prog = match parser::parse(&toks) {
        Ok(p) => p,
        Err(e) => return json!({"parse": format!("parse: {}", e.iter().map(|x| x.message.clone()).collect::<Vec<_>>().join("; "))}),
    };
    if !tweaks.is_empty() {
        for d in prog.declarations.iter_mut() {
            tweak_decl(&mut d.node, &tweaks);
        }
    }
    let mut cv = Conv { width, problems: Vec::new() };
    let text = Formatter::new(cv.cfg()).format(&prog);
    let decls: Vec<Value> = prog.declarations.iter().map(|d| cv.decl(&d.node)).collect();
    // which characters of the output are inside string tokens (the property excludes string contents)
    let mut in_string = vec![false; text.len() + 1];
    let lexed = lexer::lex(&text);
    if let Ok(toks) = &lexed {
        for t in toks {
            if matches!(t.kind, lexer::TokenKind::String(_) | lexer::TokenKind::Bytes(_) | lexer::TokenKind::FString(_)) {
                for i in t.span.start..t.span.end.min(text.len()) {
                    in_string[i] = true;
                }
            }
        }
    }
    let mut tabs = 0;
    let mut trailing = 0;
    let mut bad_line: Option<String> = None;
    let mut off = 0;
    for line in text.split('\n') {
        for (i, c) in line.char_indices() {
            if c == '\t' && !in_string[off + i] {
                tabs += 1;
                bad_line.get_or_insert_with(|| line.to_string());
            }
        }
        if let Some(c) = line.chars().last() {
            let pos = off + line.len() - c.len_utf8();
            if (c == ' ' || c == '\t' || c == '\r') && !in_string[pos] {
                trailing += 1;
                bad_line.get_or_insert_with(|| line.to_string());
            }
        }
        off += line.len() + 1;
    }
    let finals = text.len() - text.trim_end_matches('\n').len();
    json!({"parse": "ok", "text": text, "prog": decls, "problems": cv.problems,
           "hyg": {"final_newlines": finals, "tabs": tabs, "trailing": trailing, "lexed": lexed.is_ok(), "bad_line": bad_line}})
}

fn run_layout() {
    each_line(|line| {
        let req: Value = match serde_json::from_str(line) {
            Ok(v) => v,
            Err(e) => return json!({"error": format!("bad request: {}", e)}).to_string(),
        };
        match catch(|| layout_case(&req)) {
            Ok(v) => v.to_string(),
            Err(p) => json!({"panic": p}).to_string(),
        }
    });
}
