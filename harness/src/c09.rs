//! C09: the CLI modes of `incan fmt`. `vharness run c09 <fmt|check|diff> <path>` calls the REAL
//! `incan::cli::commands::format_files(path, check, diff)` (the function `incan fmt` dispatches to,
//! src/cli/mod.rs) in this process and prints, after whatever the function itself printed, one line
//! `@@C09 <ok|err> <exit code> <message>`.  File contents are hashed by the Python side before/after.
use crate::common::catch;
use std::io::Write;

pub fn run(args: &[String]) {
    let mode = args.first().map(|s| s.as_str()).unwrap_or("");
    let path = args.get(1).cloned().unwrap_or_default();
    let (check, diff) = match mode {
        "fmt" => (false, false),
        "check" => (true, false),
        "diff" => (false, true),
        "checkdiff" => (true, true),
        _ => {
            eprintln!("c09: mode must be fmt|check|diff|checkdiff");
            std::process::exit(2);
        }
    };
    let r = catch(|| incan::cli::commands::format_files(&path, check, diff));
    let _ = std::io::stdout().flush();
    match r {
        Ok(Ok(code)) => println!("@@C09 ok {} ", code.0),
        Ok(Err(e)) => println!("@@C09 err {} {}", e.exit_code.0, e.message.replace('\n', "\\n")),
        Err(p) => println!("@@C09 panic 101 {}", p.replace('\n', "\\n")),
    }
}
