//! rs2v — translate a small subset of Rust (the "kernels" of /repo) into Gallina: loop-free
//! functions and function prefixes, and (item kind `suffix_fn`) the rest of a function from a marker
//! statement to its end with its `while` loops, each loop becoming a Fixpoint on explicit fuel over
//! the loop-carried state with a distinct out-of-fuel result.
//!
//! Output terms use only the operators of coq/Base/I64.v and coq/Base/F64.v (plus, for
//! `suffix_fn`, the sequence/loop vocabulary of the file named in the unit's "requires":
//! `get_usize`, `++`, `loop_res`, `lbind`, `lift_res`); nothing is simplified.  Anything outside
//! the subset is an error (reported as "tie broken"), never skipped.
//!
//! Spec file (JSON): a list of units
//!   { "out": "Num", "file": "crates/incan_stdlib/src/num.rs", "prefix": "stdlib_",
//!     "enums": ["E"...], "fns": ["f"...], "impl_fns": [["Type","method"]...],
//!     "self_fns": [{"ty":"PyRange","name":"next","fields":["cur","end","step"]}],
//!     "prefix_fns": [{"name":"str_slice","until":"let mut out","returns":["step","start_idx","end_idx"],
//!                     "as":"str_slice_bounds","skip":["let chars"],"extra_params":[["len","i64"]]}] }
//! and, in "items", {"kind":"suffix_fn","name":"str_slice","as":"str_slice_loops","from":"let mut out",
//!   "params":[["chars","seq"],["step","i64"],["start_idx","i64"],["end_idx","i64"]]} with the unit-level
//!   "requires":["C05.SeqPrims"].  Statement vocabulary of a suffix: `let x = e;`, `let mut v = Vec::new()/
//!   String::new();`, `x = e;`, `x += e;`, `v.push(elem);` (elem: a bound element, `*elem`, `elem.clone()`),
//!   `if c {..} else {..}`, `if let P = e {..}`, `while c {..}`, and at the top level of a loop body
//!   `let P = e else { break };` / `break;`; the function ends in `e` or `Ok(e)`.  Expressions are the
//!   pure expression subset plus `seq.get(<usize>)`.
use std::collections::{BTreeMap, BTreeSet};
use std::fmt::Write as _;

use quote::ToTokens;
use syn::{BinOp, Block, Expr, Item, Lit, Pat, Stmt, UnOp};

#[derive(Clone, Debug, PartialEq)]
enum Ty {
    I64,
    Usize,
    F64,
    Bool,
    Enum(String),
    Opt(Box<Ty>),
    Tup(Vec<Ty>),
    /// a sequence (`&[T]`, `Vec<T>`, `Vec<char>`, `String` being built): Gallina `list A`
    Seq,
    /// an element of a sequence (`T`, `char`): Gallina `A`
    Elem,
    Unknown,
}

impl Ty {
    fn coq(&self) -> String {
        match self {
            Ty::I64 | Ty::Usize => "Z".into(),
            Ty::F64 => "f64".into(),
            Ty::Bool => "bool".into(),
            Ty::Enum(n) => n.clone(),
            Ty::Opt(t) => format!("(option {})", t.coq()),
            Ty::Tup(ts) if ts.is_empty() => "unit".into(),
            Ty::Tup(ts) => format!("({})", ts.iter().map(|t| t.coq()).collect::<Vec<_>>().join(" * ")),
            Ty::Seq => "(list A)".into(),
            Ty::Elem => "A".into(),
            Ty::Unknown => "_".into(),
        }
    }
}

/// A translated term: either pure (type T) or monadic (type res T).
#[derive(Clone, Debug)]
enum Tm {
    Pure(String),
    Mon(String),
}

impl Tm {
    fn mon(self) -> String {
        match self {
            Tm::Pure(s) => format!("(Val {})", s),
            Tm::Mon(s) => s,
        }
    }
    fn is_mon(&self) -> bool {
        matches!(self, Tm::Mon(_))
    }
}

pub struct Ctx {
    prefix: String,
    enums: BTreeMap<String, Vec<String>>,
    /// translated fns: rust name -> (coq name, is_monadic, return type)
    fns: BTreeMap<String, (String, bool, Ty)>,
    fresh: usize,
    ret_ty: Ty,
    self_fields: Vec<String>,
    self_ty_name: Option<String>,
    /// name used in the Rust source -> name of the generated inductive
    enum_alias: BTreeMap<String, String>,
    /// suffix_fn: the Fixpoints generated for the `while` loops met so far (emitted before the function)
    loop_defs: Vec<String>,
    loop_count: usize,
    /// suffix_fn: base name of the generated `<base>_while_<n>` Fixpoints
    loop_base: String,
    /// suffix_fn: source description used in the comments of the generated Fixpoints
    loop_src: String,
    /// suffix_fn: type of the tail expression
    tail_ty: Ty,
}

type R<T> = Result<T, String>;

fn err<T>(msg: impl Into<String>) -> R<T> {
    Err(msg.into())
}

/// Rust identifiers that are Gallina keywords / notations get a trailing underscore.
fn san(n: &str) -> String {
    const KW: &[&str] = &[
        "end", "in", "at", "as", "fun", "let", "match", "then", "with", "return", "using", "mod", "fix", "forall",
        "exists", "if", "else", "Type", "Set", "Prop", "where", "for", "cofix", "struct", "m", "Val", "Trp", "tt", "list",
    ];
    if KW.contains(&n) { format!("{}_", n) } else { n.to_string() }
}

fn path_last2(p: &syn::Path) -> (Option<String>, String) {
    let segs: Vec<String> = p.segments.iter().map(|s| san(&s.ident.to_string())).collect();
    let n = segs.len();
    if n >= 2 { (Some(segs[n - 2].clone()), segs[n - 1].clone()) } else { (None, segs[n - 1].clone()) }
}

fn conv_ty(t: &syn::Type, cx: &Ctx) -> R<Ty> {
    match t {
        syn::Type::Path(tp) => {
            let seg = tp.path.segments.last().ok_or("empty type path")?;
            let name = seg.ident.to_string();
            match name.as_str() {
                "i64" => Ok(Ty::I64),
                "usize" => Ok(Ty::Usize),
                "f64" => Ok(Ty::F64),
                "bool" => Ok(Ty::Bool),
                "Self" => match &cx.self_ty_name {
                    Some(n) => Ok(Ty::Enum(n.clone())),
                    None => err("Self outside impl"),
                },
                "Option" => {
                    if let syn::PathArguments::AngleBracketed(a) = &seg.arguments {
                        if let Some(syn::GenericArgument::Type(inner)) = a.args.first() {
                            return Ok(Ty::Opt(Box::new(conv_ty(inner, cx)?)));
                        }
                    }
                    err("bad Option type")
                }
                _ if cx.enums.contains_key(&name) => Ok(Ty::Enum(name)),
                _ => err(format!("unsupported type {}", name)),
            }
        }
        syn::Type::Tuple(tt) => Ok(Ty::Tup(tt.elems.iter().map(|e| conv_ty(e, cx)).collect::<R<Vec<_>>>()?)),
        syn::Type::Reference(r) => conv_ty(&r.elem, cx),
        _ => err(format!("unsupported type {}", t.to_token_stream())),
    }
}

type Env = BTreeMap<String, Ty>;

impl Ctx {
    fn fresh(&mut self, base: &str) -> String {
        self.fresh += 1;
        format!("{}_{}", base, self.fresh)
    }

    fn ctor(&self, en: &str, v: &str) -> String {
        format!("{}_{}", en, v)
    }

    // ---------- typing (bottom-up, minimal) ----------
    fn ty_of(&self, e: &Expr, env: &Env) -> Ty {
        match e {
            Expr::Lit(l) => match &l.lit {
                Lit::Int(i) => match i.suffix() {
                    "usize" => Ty::Usize,
                    "i64" => Ty::I64,
                    _ => Ty::Unknown,
                },
                Lit::Float(_) => Ty::F64,
                Lit::Bool(_) => Ty::Bool,
                _ => Ty::Unknown,
            },
            Expr::Path(p) => {
                let (q, n) = path_last2(&p.path);
                if let Some(q) = q {
                    let q = if q == "Self" { self.self_ty_name.clone().unwrap_or(q) } else { q };
                    if self.enums.contains_key(&q) {
                        return Ty::Enum(q);
                    }
                }
                env.get(&n).cloned().unwrap_or(Ty::Unknown)
            }
            Expr::Field(f) => {
                if let Expr::Path(p) = &*f.base {
                    if p.path.is_ident("self") {
                        if let syn::Member::Named(id) = &f.member {
                            return env.get(&format!("self_{}", id)).cloned().unwrap_or(Ty::Unknown);
                        }
                    }
                }
                Ty::Unknown
            }
            Expr::Paren(p) => self.ty_of(&p.expr, env),
            Expr::Group(g) => self.ty_of(&g.expr, env),
            Expr::Unary(u) => match u.op {
                UnOp::Not(_) => Ty::Bool,
                _ => self.ty_of(&u.expr, env),
            },
            Expr::Cast(c) => conv_ty(&c.ty, self).unwrap_or(Ty::Unknown),
            Expr::Binary(b) => match b.op {
                BinOp::Eq(_) | BinOp::Ne(_) | BinOp::Lt(_) | BinOp::Le(_) | BinOp::Gt(_) | BinOp::Ge(_)
                | BinOp::And(_) | BinOp::Or(_) => Ty::Bool,
                _ => {
                    let l = self.ty_of(&b.left, env);
                    if l != Ty::Unknown { l } else { self.ty_of(&b.right, env) }
                }
            },
            Expr::MethodCall(m) => {
                let name = m.method.to_string();
                let recv = self.ty_of(&m.receiver, env);
                match name.as_str() {
                    "is_some" | "is_none" => Ty::Bool,
                    "unwrap_or" => match recv {
                        Ty::Opt(t) => *t,
                        _ => Ty::Unknown,
                    },
                    "checked_add" | "checked_sub" | "checked_mul" => Ty::Opt(Box::new(recv)),
                    "get" if recv == Ty::Seq => Ty::Opt(Box::new(Ty::Elem)),
                    _ => recv,
                }
            }
            Expr::Call(c) => {
                if let Expr::Path(p) = &*c.func {
                    let (_, n) = path_last2(&p.path);
                    if n == "Some" {
                        if let Some(a) = c.args.first() {
                            return Ty::Opt(Box::new(self.ty_of(a, env)));
                        }
                    }
                    if let Some((_, _, t)) = self.fns.get(&n) {
                        return t.clone();
                    }
                }
                Ty::Unknown
            }
            Expr::If(i) => {
                let t = self.block_ty(&i.then_branch, env);
                if t != Ty::Unknown {
                    t
                } else if let Some((_, e)) = &i.else_branch {
                    self.ty_of(e, env)
                } else {
                    Ty::Unknown
                }
            }
            Expr::Block(b) => self.block_ty(&b.block, env),
            Expr::Tuple(t) => Ty::Tup(t.elems.iter().map(|e| self.ty_of(e, env)).collect()),
            _ => Ty::Unknown,
        }
    }

    fn block_ty(&self, b: &Block, env: &Env) -> Ty {
        match b.stmts.last() {
            Some(Stmt::Expr(e, None)) => self.ty_of(e, env),
            _ => Ty::Unknown,
        }
    }

    fn num_ty(&self, a: &Expr, b: &Expr, env: &Env) -> R<Ty> {
        let ta = self.ty_of(a, env);
        let tb = self.ty_of(b, env);
        let t = if ta != Ty::Unknown { ta } else { tb };
        match t {
            Ty::Unknown => Ok(Ty::I64), // two bare integer literals
            t => Ok(t),
        }
    }

    // ---------- literals ----------
    fn lit(&self, l: &Lit, want: &Ty) -> R<String> {
        match l {
            Lit::Int(i) => {
                let v: i128 = i.base10_parse().map_err(|e| e.to_string())?;
                if *want == Ty::F64 {
                    return err("integer literal used as f64");
                }
                Ok(if v < 0 { format!("({})", v) } else { format!("{}", v) })
            }
            Lit::Float(f) => {
                let s = f.base10_digits();
                let v: f64 = s.parse().map_err(|_| "bad float literal")?;
                Ok(format!("(f64_of_bits {})", v.to_bits()))
            }
            Lit::Bool(b) => Ok(if b.value { "true".into() } else { "false".into() }),
            _ => err("unsupported literal"),
        }
    }

    // ---------- expressions ----------
    /// Sequence sub-terms: binds monadic ones to fresh names, then builds the result with `k`.
    fn seq(&mut self, parts: Vec<Tm>, k: impl FnOnce(Vec<String>) -> Tm) -> Tm {
        let mut binds = Vec::new();
        let mut names = Vec::new();
        for p in parts {
            match p {
                Tm::Pure(s) => names.push(s),
                Tm::Mon(s) => {
                    let n = self.fresh("t");
                    binds.push((n.clone(), s));
                    names.push(n);
                }
            }
        }
        let body = k(names);
        if binds.is_empty() {
            return body;
        }
        let mut out = body.mon();
        for (n, s) in binds.into_iter().rev() {
            out = format!("({} <- {} ;; {})", n, s, out);
        }
        Tm::Mon(out)
    }

    fn expr(&mut self, e: &Expr, env: &Env, want: &Ty) -> R<Tm> {
        match e {
            Expr::Lit(l) => Ok(Tm::Pure(self.lit(&l.lit, want)?)),
            Expr::Paren(p) => self.expr(&p.expr, env, want),
            Expr::Group(g) => self.expr(&g.expr, env, want),
            Expr::Path(p) => {
                let (q, n) = path_last2(&p.path);
                if let Some(q) = q {
                    let q = if q == "Self" { self.self_ty_name.clone().unwrap_or(q) } else { q };
                    if let Some(vs) = self.enums.get(&q) {
                        if vs.contains(&n) {
                            return Ok(Tm::Pure(self.ctor(&q, &n)));
                        }
                        return err(format!("unknown variant {}::{}", q, n));
                    }
                    if q == "i64" && n == "MAX" {
                        return Ok(Tm::Pure("MAX64".into()));
                    }
                    if q == "i64" && n == "MIN" {
                        return Ok(Tm::Pure("MIN64".into()));
                    }
                    return err(format!("unsupported path {}::{}", q, n));
                }
                if n == "None" {
                    return Ok(Tm::Pure("None".into()));
                }
                if env.contains_key(&n) {
                    Ok(Tm::Pure(n))
                } else {
                    err(format!("unbound variable {}", n))
                }
            }
            Expr::Field(f) => {
                if let (Expr::Path(p), syn::Member::Named(id)) = (&*f.base, &f.member) {
                    if p.path.is_ident("self") {
                        let n = format!("self_{}", id);
                        if env.contains_key(&n) {
                            return Ok(Tm::Pure(n));
                        }
                    }
                }
                err(format!("unsupported field access {}", e.to_token_stream()))
            }
            Expr::Unary(u) => {
                let t = self.ty_of(&u.expr, env);
                match u.op {
                    UnOp::Not(_) => {
                        let a = self.expr(&u.expr, env, &Ty::Bool)?;
                        Ok(self.seq(vec![a], |n| Tm::Pure(format!("(negb {})", n[0]))))
                    }
                    UnOp::Neg(_) => {
                        // negative literal
                        if let Expr::Lit(l) = &*u.expr {
                            if let Lit::Int(i) = &l.lit {
                                let v: i128 = i.base10_parse().map_err(|e| e.to_string())?;
                                return Ok(Tm::Pure(format!("({})", -v)));
                            }
                            if let Lit::Float(fl) = &l.lit {
                                let v: f64 = fl.base10_digits().parse().map_err(|_| "bad float")?;
                                return Ok(Tm::Pure(format!("(f64_of_bits {})", (-v).to_bits())));
                            }
                        }
                        let a = self.expr(&u.expr, env, &t)?;
                        match t {
                            Ty::F64 => Ok(self.seq(vec![a], |n| Tm::Pure(format!("(f64_neg {})", n[0])))),
                            _ => Ok(self.seq(vec![a], |n| Tm::Mon(format!("(neg64 m {})", n[0])))),
                        }
                    }
                    _ => err("unsupported unary op"),
                }
            }
            Expr::Cast(c) => {
                let from = self.ty_of(&c.expr, env);
                let to = conv_ty(&c.ty, self)?;
                let a = self.expr(&c.expr, env, &from)?;
                let f = match (&from, &to) {
                    (Ty::Usize, Ty::I64) => "as_i64",
                    (Ty::I64, Ty::Usize) | (Ty::Unknown, Ty::Usize) => "as_usize",
                    (Ty::I64, Ty::I64) | (Ty::Usize, Ty::Usize) | (Ty::Unknown, Ty::I64) => "",
                    (Ty::I64, Ty::F64) => "f64_of_i64",
                    _ => return err(format!("unsupported cast {:?} as {:?}", from, to)),
                };
                Ok(self.seq(vec![a], |n| {
                    Tm::Pure(if f.is_empty() { n[0].clone() } else { format!("({} {})", f, n[0]) })
                }))
            }
            Expr::Binary(b) => self.binary(b, env),
            Expr::Tuple(t) => {
                let wants: Vec<Ty> = match want {
                    Ty::Tup(ws) if ws.len() == t.elems.len() => ws.clone(),
                    _ => vec![Ty::Unknown; t.elems.len()],
                };
                let mut parts = Vec::new();
                for (x, w) in t.elems.iter().zip(wants.iter()) {
                    parts.push(self.expr(x, env, w)?);
                }
                Ok(self.seq(parts, |n| Tm::Pure(format!("({})", n.join(", ")))))
            }
            Expr::If(i) => self.if_expr(i, env, want),
            Expr::Block(b) => self.block(&b.block.stmts, env, want),
            Expr::Match(m) => self.match_expr(m, env, want),
            Expr::Macro(m) => self.macro_expr(&m.mac, env),
            Expr::MethodCall(m) => self.method(m, env, want),
            Expr::Call(c) => {
                if let Expr::Path(p) = &*c.func {
                    let (_, n) = path_last2(&p.path);
                    if n == "Some" && c.args.len() == 1 {
                        let inner = match want {
                            Ty::Opt(t) => (**t).clone(),
                            _ => Ty::Unknown,
                        };
                        let a = self.expr(&c.args[0], env, &inner)?;
                        return Ok(self.seq(vec![a], |n| Tm::Pure(format!("(Some {})", n[0]))));
                    }
                    if let Some((coq_name, is_mon, _)) = self.fns.get(&n).cloned() {
                        let mut parts = Vec::new();
                        for a in c.args.iter() {
                            parts.push(self.expr(a, env, &Ty::Unknown)?);
                        }
                        return Ok(self.seq(parts, |ns| {
                            if is_mon {
                                Tm::Mon(format!("({} m {})", coq_name, ns.join(" ")))
                            } else {
                                Tm::Pure(format!("({} {})", coq_name, ns.join(" ")))
                            }
                        }));
                    }
                    return err(format!("call to untranslated function {}", n));
                }
                err("unsupported call")
            }
            Expr::Return(_) => err("`return` in expression position"),
            _ => err(format!("unsupported expression: {}", e.to_token_stream())),
        }
    }

    fn binary(&mut self, b: &syn::ExprBinary, env: &Env) -> R<Tm> {
        match b.op {
            BinOp::And(_) | BinOp::Or(_) => {
                let l = self.expr(&b.left, env, &Ty::Bool)?;
                let r = self.expr(&b.right, env, &Ty::Bool)?;
                let is_and = matches!(b.op, BinOp::And(_));
                if !r.is_mon() {
                    let op = if is_and { "&&" } else { "||" };
                    let Tm::Pure(rs) = r else { unreachable!() };
                    return Ok(self.seq(vec![l], |n| Tm::Pure(format!("({} {} {})", n[0], op, rs))));
                }
                // short-circuit: the right operand may trap and must only run when needed
                let rs = r.mon();
                Ok(self.seq(vec![l], |n| {
                    if is_and {
                        Tm::Mon(format!("(if {} then {} else Val false)", n[0], rs))
                    } else {
                        Tm::Mon(format!("(if {} then Val true else {})", n[0], rs))
                    }
                }))
            }
            BinOp::Eq(_) | BinOp::Ne(_) | BinOp::Lt(_) | BinOp::Le(_) | BinOp::Gt(_) | BinOp::Ge(_) => {
                let t = self.num_ty(&b.left, &b.right, env)?;
                let l = self.expr(&b.left, env, &t)?;
                let r = self.expr(&b.right, env, &t)?;
                let op = b.op;
                Ok(self.seq(vec![l, r], |n| {
                    let (a, c) = (&n[0], &n[1]);
                    Tm::Pure(match (&t, op) {
                        (Ty::F64, BinOp::Eq(_)) => format!("(f64_eqb {} {})", a, c),
                        (Ty::F64, BinOp::Ne(_)) => format!("(negb (f64_eqb {} {}))", a, c),
                        (Ty::F64, BinOp::Lt(_)) => format!("(f64_ltb {} {})", a, c),
                        (Ty::F64, BinOp::Le(_)) => format!("(f64_leb {} {})", a, c),
                        (Ty::F64, BinOp::Gt(_)) => format!("(f64_ltb {} {})", c, a),
                        (Ty::F64, BinOp::Ge(_)) => format!("(f64_leb {} {})", c, a),
                        (Ty::Enum(en), BinOp::Eq(_)) => format!("({}_eqb {} {})", en, a, c),
                        (Ty::Enum(en), BinOp::Ne(_)) => format!("(negb ({}_eqb {} {}))", en, a, c),
                        (Ty::Bool, BinOp::Eq(_)) => format!("(Bool.eqb {} {})", a, c),
                        (Ty::Bool, BinOp::Ne(_)) => format!("(negb (Bool.eqb {} {}))", a, c),
                        (_, BinOp::Eq(_)) => format!("({} =? {})", a, c),
                        (_, BinOp::Ne(_)) => format!("(negb ({} =? {}))", a, c),
                        (_, BinOp::Lt(_)) => format!("({} <? {})", a, c),
                        (_, BinOp::Le(_)) => format!("({} <=? {})", a, c),
                        (_, BinOp::Gt(_)) => format!("({} >? {})", a, c),
                        (_, BinOp::Ge(_)) => format!("({} >=? {})", a, c),
                        _ => unreachable!(),
                    })
                }))
            }
            BinOp::Add(_) | BinOp::Sub(_) | BinOp::Mul(_) | BinOp::Div(_) | BinOp::Rem(_) => {
                let t = self.num_ty(&b.left, &b.right, env)?;
                let l = self.expr(&b.left, env, &t)?;
                let r = self.expr(&b.right, env, &t)?;
                let op = b.op;
                let f = match (&t, op) {
                    (Ty::F64, BinOp::Add(_)) => "f64_add",
                    (Ty::F64, BinOp::Sub(_)) => "f64_sub",
                    (Ty::F64, BinOp::Mul(_)) => "f64_mul",
                    (Ty::F64, BinOp::Div(_)) => "f64_div",
                    (Ty::F64, BinOp::Rem(_)) => "f64_rem",
                    (Ty::I64, BinOp::Add(_)) => "add64 m",
                    (Ty::I64, BinOp::Sub(_)) => "sub64 m",
                    (Ty::I64, BinOp::Mul(_)) => "mul64 m",
                    (Ty::I64, BinOp::Div(_)) => "div64",
                    (Ty::I64, BinOp::Rem(_)) => "rem64",
                    (Ty::Usize, BinOp::Add(_)) => "uadd m",
                    (Ty::Usize, BinOp::Sub(_)) => "usub m",
                    _ => return err(format!("unsupported arithmetic on {:?}", t)),
                };
                let pure = t == Ty::F64;
                Ok(self.seq(vec![l, r], |n| {
                    let s = format!("({} {} {})", f, n[0], n[1]);
                    if pure { Tm::Pure(s) } else { Tm::Mon(s) }
                }))
            }
            _ => err(format!("unsupported binary operator {}", b.op.to_token_stream())),
        }
    }

    fn method(&mut self, m: &syn::ExprMethodCall, env: &Env, _want: &Ty) -> R<Tm> {
        let name = m.method.to_string();
        let rt = self.ty_of(&m.receiver, env);
        let recv = self.expr(&m.receiver, env, &rt)?;
        if rt == Ty::Seq {
            // the only read access to a sequence: `seq.get(<usize>)` = `get_usize seq i : option A`
            if name != "get" || m.args.len() != 1 {
                return err(format!("unsupported method .{}() with {} args on a sequence", name, m.args.len()));
            }
            if self.ty_of(&m.args[0], env) != Ty::Usize {
                return err(format!("sequence index `{}` is not known to be a usize", m.args[0].to_token_stream()));
            }
            let a = self.expr(&m.args[0], env, &Ty::Usize)?;
            return Ok(self.seq(vec![recv, a], |n| Tm::Pure(format!("(get_usize {} {})", n[0], n[1]))));
        }
        let arg_ty = match (&rt, name.as_str()) {
            (Ty::Opt(t), "unwrap_or") => (**t).clone(),
            _ => rt.clone(),
        };
        let mut parts = vec![recv];
        for a in m.args.iter() {
            parts.push(self.expr(a, env, &arg_ty)?);
        }
        let nargs = m.args.len();
        let f64p = rt == Ty::F64;
        Ok(match (name.as_str(), nargs) {
            ("wrapping_rem", 1) => self.seq(parts, |n| Tm::Mon(format!("(wrapping_rem64 {} {})", n[0], n[1]))),
            ("wrapping_add", 1) => self.seq(parts, |n| Tm::Pure(format!("(wrap64 ({} + {}))", n[0], n[1]))),
            ("wrapping_sub", 1) => self.seq(parts, |n| Tm::Pure(format!("(wrap64 ({} - {}))", n[0], n[1]))),
            ("saturating_add", 1) => self.seq(parts, |n| Tm::Pure(format!("(sat64 ({} + {}))", n[0], n[1]))),
            ("saturating_sub", 1) => self.seq(parts, |n| Tm::Pure(format!("(sat64 ({} - {}))", n[0], n[1]))),
            ("checked_add", 1) => self.seq(parts, |n| Tm::Pure(format!("(chk64 ({} + {}))", n[0], n[1]))),
            ("checked_sub", 1) => self.seq(parts, |n| Tm::Pure(format!("(chk64 ({} - {}))", n[0], n[1]))),
            ("checked_mul", 1) => self.seq(parts, |n| Tm::Pure(format!("(chk64 ({} * {}))", n[0], n[1]))),
            ("clamp", 2) if !f64p => self.seq(parts, |n| Tm::Mon(format!("(clamp64 {} {} {})", n[0], n[1], n[2]))),
            ("min", 1) if !f64p => self.seq(parts, |n| Tm::Pure(format!("(Z.min {} {})", n[0], n[1]))),
            ("max", 1) if !f64p => self.seq(parts, |n| Tm::Pure(format!("(Z.max {} {})", n[0], n[1]))),
            ("abs", 0) if !f64p => self.seq(parts, |n| Tm::Mon(format!("(abs64 m {})", n[0]))),
            ("floor", 0) if f64p => self.seq(parts, |n| Tm::Pure(format!("(f64_floor {})", n[0]))),
            ("unwrap_or", 1) => self.seq(parts, |n| {
                Tm::Pure(format!("(match {} with Some v__ => v__ | None => {} end)", n[0], n[1]))
            }),
            ("is_some", 0) => self.seq(parts, |n| {
                Tm::Pure(format!("(match {} with Some _ => true | None => false end)", n[0]))
            }),
            ("is_none", 0) => self.seq(parts, |n| {
                Tm::Pure(format!("(match {} with Some _ => false | None => true end)", n[0]))
            }),
            _ => return err(format!("unsupported method .{}() with {} args on {:?}", name, nargs, rt)),
        })
    }

    fn macro_expr(&mut self, mac: &syn::Macro, env: &Env) -> R<Tm> {
        let name = mac.path.segments.last().map(|s| s.ident.to_string()).unwrap_or_default();
        match name.as_str() {
            "matches" => {
                struct MatchesArgs(Expr, Pat);
                impl syn::parse::Parse for MatchesArgs {
                    fn parse(input: syn::parse::ParseStream) -> syn::Result<Self> {
                        let e: Expr = input.parse()?;
                        let _: syn::Token![,] = input.parse()?;
                        let p = Pat::parse_multi_with_leading_vert(input)?;
                        let _ = input.parse::<Option<syn::Token![,]>>()?;
                        Ok(MatchesArgs(e, p))
                    }
                }
                let MatchesArgs(e, p) = mac.parse_body::<MatchesArgs>().map_err(|e| e.to_string())?;
                let t = self.ty_of(&e, env);
                let s = self.expr(&e, env, &t)?;
                let mut penv = env.clone();
                let ps = self.pat(&p, &t, &mut penv)?;
                Ok(self.seq(vec![s], |n| Tm::Pure(format!("(match {} with {} => true | _ => false end)", n[0], ps))))
            }
            _ => err(format!("unsupported macro {}!", name)),
        }
    }

    fn pat(&mut self, p: &Pat, t: &Ty, env: &mut Env) -> R<String> {
        match p {
            Pat::Wild(_) => Ok("_".into()),
            Pat::Ident(i) => {
                let n = san(&i.ident.to_string());
                if n == "None" {
                    return Ok("None".into());
                }
                env.insert(n.clone(), t.clone());
                Ok(n)
            }
            Pat::Path(pp) => {
                let (q, n) = path_last2(&pp.path);
                if let Some(q) = q {
                    let q = if q == "Self" { self.self_ty_name.clone().unwrap_or(q) } else { q };
                    if self.enums.get(&q).map_or(false, |vs| vs.contains(&n)) {
                        return Ok(self.ctor(&q, &n));
                    }
                    return err(format!("unknown pattern path {}::{}", q, n));
                }
                if n == "None" { Ok("None".into()) } else { err(format!("unsupported pattern path {}", n)) }
            }
            Pat::TupleStruct(ts) => {
                let (_, n) = path_last2(&ts.path);
                if n == "Some" && ts.elems.len() == 1 {
                    let inner = match t {
                        Ty::Opt(x) => (**x).clone(),
                        _ => Ty::Unknown,
                    };
                    let s = self.pat(&ts.elems[0], &inner, env)?;
                    return Ok(format!("(Some {})", s));
                }
                err("unsupported tuple-struct pattern")
            }
            Pat::Tuple(tp) => {
                let ts: Vec<Ty> = match t {
                    Ty::Tup(ts) if ts.len() == tp.elems.len() => ts.clone(),
                    _ => vec![Ty::Unknown; tp.elems.len()],
                };
                let mut out = Vec::new();
                for (x, tt) in tp.elems.iter().zip(ts.iter()) {
                    out.push(self.pat(x, tt, env)?);
                }
                Ok(format!("({})", out.join(", ")))
            }
            Pat::Or(o) => {
                let mut out = Vec::new();
                for c in o.cases.iter() {
                    out.push(self.pat(c, t, env)?);
                }
                Ok(out.join(" | "))
            }
            Pat::Lit(l) => {
                if let Lit::Bool(b) = &l.lit {
                    return Ok(if b.value { "true".into() } else { "false".into() });
                }
                if let Lit::Int(i) = &l.lit {
                    return Ok(format!("{}", i.base10_digits()));
                }
                err("unsupported literal pattern")
            }
            Pat::Paren(pp) => self.pat(&pp.pat, t, env),
            _ => err(format!("unsupported pattern {}", p.to_token_stream())),
        }
    }

    fn match_expr(&mut self, m: &syn::ExprMatch, env: &Env, want: &Ty) -> R<Tm> {
        let st = self.ty_of(&m.expr, env);
        let scrut = self.expr(&m.expr, env, &st)?;
        let mut arms: Vec<(String, Option<Tm>, Tm)> = Vec::new();
        for a in &m.arms {
            let mut aenv = env.clone();
            let ps = self.pat(&a.pat, &st, &mut aenv)?;
            let g = match &a.guard {
                Some((_, g)) => {
                    let gt = self.expr(g, &aenv, &Ty::Bool)?;
                    if gt.is_mon() {
                        return err("trapping expression in match guard");
                    }
                    Some(gt)
                }
                None => None,
            };
            let body = self.expr(&a.body, &aenv, want)?;
            arms.push((ps, g, body));
        }
        if arms.iter().any(|(_, g, _)| g.is_some()) {
            return err("match guards are not supported");
        }
        let any_mon = arms.iter().any(|(_, _, b)| b.is_mon());
        let mut s = String::new();
        for (p, _, b) in arms {
            let bs = if any_mon {
                b.mon()
            } else {
                match b {
                    Tm::Pure(x) => x,
                    _ => unreachable!(),
                }
            };
            write!(s, " | {} => {}", p, bs).unwrap();
        }
        Ok(self.seq(vec![scrut], |n| {
            let t = format!("(match {} with{} end)", n[0], s);
            if any_mon { Tm::Mon(t) } else { Tm::Pure(t) }
        }))
    }

    fn if_expr(&mut self, i: &syn::ExprIf, env: &Env, want: &Ty) -> R<Tm> {
        // `if let PAT = e { a } else { b }`
        if let Expr::Let(l) = &*i.cond {
            let st = self.ty_of(&l.expr, env);
            let scrut = self.expr(&l.expr, env, &st)?;
            let mut aenv = env.clone();
            let ps = self.pat(&l.pat, &st, &mut aenv)?;
            let a = self.block(&i.then_branch.stmts, &aenv, want)?;
            let b = match &i.else_branch {
                Some((_, e)) => self.expr(e, env, want)?,
                None => return err("if-let without else in expression position"),
            };
            let any = a.is_mon() || b.is_mon();
            let (a_s, b_s) = if any { (a.mon(), b.mon()) } else { (pure_s(a), pure_s(b)) };
            return Ok(self.seq(vec![scrut], |n| {
                let t = format!("(match {} with {} => {} | _ => {} end)", n[0], ps, a_s, b_s);
                if any { Tm::Mon(t) } else { Tm::Pure(t) }
            }));
        }
        let c = self.expr(&i.cond, env, &Ty::Bool)?;
        let a = self.block(&i.then_branch.stmts, env, want)?;
        let b = match &i.else_branch {
            Some((_, e)) => self.expr(e, env, want)?,
            None => return err("if without else in expression position"),
        };
        let any = a.is_mon() || b.is_mon();
        let (a_s, b_s) = if any { (a.mon(), b.mon()) } else { (pure_s(a), pure_s(b)) };
        Ok(self.seq(vec![c], |n| {
            let t = format!("(if {} then {} else {})", n[0], a_s, b_s);
            if any { Tm::Mon(t) } else { Tm::Pure(t) }
        }))
    }

    // ---------- statements (continuation style) ----------
    /// Translate a statement list whose value is the value of the enclosing function/branch.
    fn block(&mut self, stmts: &[Stmt], env: &Env, want: &Ty) -> R<Tm> {
        let Some((first, rest)) = stmts.split_first() else {
            return Ok(Tm::Pure("tt".into()));
        };
        match first {
            Stmt::Local(l) => {
                let (name, ann) = match &l.pat {
                    Pat::Ident(i) => (san(&i.ident.to_string()), None),
                    Pat::Type(pt) => match &*pt.pat {
                        Pat::Ident(i) => (san(&i.ident.to_string()), Some(conv_ty(&pt.ty, self)?)),
                        _ => return err("unsupported let pattern"),
                    },
                    _ => return err(format!("unsupported let pattern {}", l.pat.to_token_stream())),
                };
                let init = l.init.as_ref().ok_or("let without initializer")?;
                if init.diverge.is_some() {
                    return err("let-else is not supported");
                }
                let t = ann.unwrap_or_else(|| self.ty_of(&init.expr, env));
                let t = if t == Ty::Unknown { Ty::I64 } else { t };
                let v = self.expr(&init.expr, env, &t)?;
                let mut env2 = env.clone();
                env2.insert(name.clone(), t);
                let k = self.block(rest, &env2, want)?;
                Ok(bind_let(&name, v, k))
            }
            Stmt::Macro(m) => {
                let name = m.mac.path.segments.last().map(|s| s.ident.to_string()).unwrap_or_default();
                if name == "debug_assert" {
                    let cond: Expr = m.mac.parse_body().map_err(|e| e.to_string())?;
                    let c = self.expr(&cond, env, &Ty::Bool)?;
                    let k = self.block(rest, env, want)?.mon();
                    return Ok(self.seq(vec![c], |n| Tm::Mon(format!("(dbg_assert m {} ;;; {})", n[0], k))));
                }
                err(format!("unsupported statement macro {}!", name))
            }
            Stmt::Expr(e, semi) => {
                if rest.is_empty() && semi.is_none() {
                    return self.expr(e, env, want);
                }
                match e {
                    Expr::Return(r) => {
                        let rt = self.ret_ty.clone();
                        match &r.expr {
                            Some(x) => self.ret_value(x, env, &rt),
                            None => Ok(Tm::Pure("tt".into())),
                        }
                    }
                    Expr::Assign(a) => {
                        let name = self.lhs_name(&a.left, env)?;
                        let t = env.get(&name).cloned().unwrap_or(Ty::I64);
                        let v = self.expr(&a.right, env, &t)?;
                        let k = self.block(rest, env, want)?;
                        Ok(bind_let(&name, v, k))
                    }
                    Expr::Binary(b) if is_compound(&b.op) => {
                        let name = self.lhs_name(&b.left, env)?;
                        let v = self.compound(b, env)?;
                        let k = self.block(rest, env, want)?;
                        Ok(bind_let(&name, v, k))
                    }
                    Expr::If(i) => self.if_stmt(i, rest, env, want),
                    Expr::Call(c) if is_guard_call(c) => {
                        let cond = self.expr(&c.args[0], env, &Ty::Bool)?;
                        let k = self.block(rest, env, want)?.mon();
                        Ok(self.seq(vec![cond], |n| Tm::Mon(format!("(raise_if {} ;;; {})", n[0], k))))
                    }
                    _ => err(format!("unsupported statement: {}", e.to_token_stream())),
                }
            }
            Stmt::Item(_) => err("nested items are not supported"),
        }
    }

    /// The value returned by the function: for `self_fns` the updated fields are returned with it.
    fn ret_value(&mut self, x: &Expr, env: &Env, rt: &Ty) -> R<Tm> {
        let v = self.expr(x, env, rt)?;
        Ok(self.wrap_self(v))
    }

    fn wrap_self(&mut self, v: Tm) -> Tm {
        if self.self_fields.is_empty() {
            return v;
        }
        let fields: Vec<String> = self.self_fields.iter().map(|f| format!("self_{}", f)).collect();
        self.seq(vec![v], |n| Tm::Pure(format!("(({}), {})", fields.join(", "), n[0])))
    }

    fn lhs_name(&self, e: &Expr, env: &Env) -> R<String> {
        match e {
            Expr::Path(p) if p.path.get_ident().is_some() => {
                let n = p.path.get_ident().map(|i| san(&i.to_string())).unwrap_or_default();
                if env.contains_key(&n) { Ok(n) } else { err(format!("assignment to unbound {}", n)) }
            }
            Expr::Field(f) => {
                if let (Expr::Path(p), syn::Member::Named(id)) = (&*f.base, &f.member) {
                    if p.path.is_ident("self") {
                        return Ok(format!("self_{}", id));
                    }
                }
                err("unsupported assignment target")
            }
            _ => err("unsupported assignment target"),
        }
    }

    fn compound(&mut self, b: &syn::ExprBinary, env: &Env) -> R<Tm> {
        let name = self.lhs_name(&b.left, env)?;
        let t = env.get(&name).cloned().unwrap_or(Ty::I64);
        let r = self.expr(&b.right, env, &t)?;
        let f = match (&t, &b.op) {
            (Ty::I64, BinOp::AddAssign(_)) => "add64 m",
            (Ty::I64, BinOp::SubAssign(_)) => "sub64 m",
            (Ty::I64, BinOp::MulAssign(_)) => "mul64 m",
            (Ty::F64, BinOp::AddAssign(_)) => "f64_add",
            (Ty::F64, BinOp::SubAssign(_)) => "f64_sub",
            _ => return err("unsupported compound assignment"),
        };
        let pure = t == Ty::F64;
        Ok(self.seq(vec![r], |n| {
            let s = format!("({} {} {})", f, name, n[0]);
            if pure { Tm::Pure(s) } else { Tm::Mon(s) }
        }))
    }

    fn assigned(&self, b: &Block, out: &mut BTreeSet<String>, has_ret: &mut bool, env: &Env) {
        for s in &b.stmts {
            if let Stmt::Expr(e, _) = s {
                self.assigned_e(e, out, has_ret, env);
            }
        }
    }

    fn assigned_e(&self, e: &Expr, out: &mut BTreeSet<String>, has_ret: &mut bool, env: &Env) {
        match e {
            Expr::Return(_) => *has_ret = true,
            Expr::Assign(a) => {
                if let Ok(n) = self.lhs_name(&a.left, env) {
                    out.insert(n);
                }
            }
            Expr::Binary(b) if is_compound(&b.op) => {
                if let Ok(n) = self.lhs_name(&b.left, env) {
                    out.insert(n);
                }
            }
            Expr::If(i) => {
                self.assigned(&i.then_branch, out, has_ret, env);
                if let Some((_, e)) = &i.else_branch {
                    self.assigned_e(e, out, has_ret, env);
                }
            }
            Expr::Block(b) => self.assigned(&b.block, out, has_ret, env),
            _ => {}
        }
    }

    /// `if` used as a statement, followed by `rest`.
    fn if_stmt(&mut self, i: &syn::ExprIf, rest: &[Stmt], env: &Env, want: &Ty) -> R<Tm> {
        let mut vars = BTreeSet::new();
        let mut has_ret = false;
        self.assigned(&i.then_branch, &mut vars, &mut has_ret, env);
        if let Some((_, e)) = &i.else_branch {
            self.assigned_e(e, &mut vars, &mut has_ret, env);
        }
        if matches!(&*i.cond, Expr::Let(_)) {
            return err("if-let as a statement is not supported");
        }
        if has_ret {
            // duplicate the continuation into both branches; `return` cuts it off
            let c = self.expr(&i.cond, env, &Ty::Bool)?;
            let mut then_stmts: Vec<Stmt> = i.then_branch.stmts.clone();
            force_semi(&mut then_stmts);
            then_stmts.extend_from_slice(rest);
            let a = self.block(&then_stmts, env, want)?;
            let b = match &i.else_branch {
                Some((_, e)) => {
                    let mut else_stmts: Vec<Stmt> = match &**e {
                        Expr::Block(b) => b.block.stmts.clone(),
                        other => vec![Stmt::Expr(other.clone(), Some(Default::default()))],
                    };
                    force_semi(&mut else_stmts);
                    else_stmts.extend_from_slice(rest);
                    self.block(&else_stmts, env, want)?
                }
                None => self.block(rest, env, want)?,
            };
            let any = a.is_mon() || b.is_mon();
            let (a_s, b_s) = if any { (a.mon(), b.mon()) } else { (pure_s(a), pure_s(b)) };
            return Ok(self.seq(vec![c], |n| {
                let t = format!("(if {} then {} else {})", n[0], a_s, b_s);
                if any { Tm::Mon(t) } else { Tm::Pure(t) }
            }));
        }
        // no return inside: the statement only updates `vars`
        let vars: Vec<String> = vars.into_iter().collect();
        if vars.is_empty() {
            return err("if statement without effect");
        }
        let tuple = if vars.len() == 1 { vars[0].clone() } else { format!("({})", vars.join(", ")) };
        let tail: Stmt = syn::parse_str::<Expr>(&tuple).map(|e| Stmt::Expr(e, None)).map_err(|e| e.to_string())?;
        let tup_ty = if vars.len() == 1 {
            env.get(&vars[0]).cloned().unwrap_or(Ty::I64)
        } else {
            Ty::Tup(vars.iter().map(|v| env.get(v).cloned().unwrap_or(Ty::I64)).collect())
        };
        let c = self.expr(&i.cond, env, &Ty::Bool)?;
        let mut then_stmts = i.then_branch.stmts.clone();
        force_semi(&mut then_stmts);
        then_stmts.push(tail.clone());
        let a = self.block(&then_stmts, env, &tup_ty)?;
        let b = match &i.else_branch {
            Some((_, e)) => {
                let mut else_stmts: Vec<Stmt> = match &**e {
                    Expr::Block(b) => b.block.stmts.clone(),
                    other => vec![Stmt::Expr(other.clone(), Some(Default::default()))],
                };
                force_semi(&mut else_stmts);
                else_stmts.push(tail);
                self.block(&else_stmts, env, &tup_ty)?
            }
            None => Tm::Pure(tuple.clone()),
        };
        let any = a.is_mon() || b.is_mon();
        let (a_s, b_s) = if any { (a.mon(), b.mon()) } else { (pure_s(a), pure_s(b)) };
        let cond_tm = self.seq(vec![c], |n| {
            let t = format!("(if {} then {} else {})", n[0], a_s, b_s);
            if any { Tm::Mon(t) } else { Tm::Pure(t) }
        });
        let k = self.block(rest, env, want)?;
        let pat = if vars.len() == 1 { vars[0].clone() } else { format!("'({})", vars.join(", ")) };
        Ok(bind_let(&pat, cond_tm, k))
    }

    // ---------- items ----------
    fn emit_enum(&mut self, e: &syn::ItemEnum, collapse_payload: bool, out: &mut String) -> R<()> {
        let name = e.ident.to_string();
        let mut vs = Vec::new();
        let mut collapsed = Vec::new();
        for v in &e.variants {
            if !matches!(v.fields, syn::Fields::Unit) {
                if collapse_payload {
                    collapsed.push(v.ident.to_string());
                    continue;
                }
                return err(format!("enum {} has a variant with fields", name));
            }
            vs.push(v.ident.to_string());
        }
        if !collapsed.is_empty() {
            writeln!(out, "(* variants of {} that carry data are collapsed into {}_Other__: {} *)", name, name, collapsed.join(", ")).unwrap();
            vs.push("Other__".to_string());
        }
        writeln!(out, "Inductive {} : Set :=", name).unwrap();
        for v in &vs {
            writeln!(out, "| {}", self.ctor(&name, v)).unwrap();
        }
        writeln!(out, ".").unwrap();
        writeln!(out, "Definition {}_eqb (a b : {}) : bool :=\n  match a, b with", name, name).unwrap();
        for v in &vs {
            let c = self.ctor(&name, v);
            writeln!(out, "  | {}, {} => true", c, c).unwrap();
        }
        if vs.len() > 1 {
            writeln!(out, "  | _, _ => false").unwrap();
        }
        writeln!(out, "  end.").unwrap();
        writeln!(
            out,
            "Definition {}_all : list {} := [{}].\n",
            name,
            name,
            vs.iter().map(|v| self.ctor(&name, v)).collect::<Vec<_>>().join("; ")
        )
        .unwrap();
        self.enums.insert(name, vs);
        Ok(())
    }

    #[allow(clippy::too_many_arguments)]
    fn emit_fn(
        &mut self,
        coq_name: &str,
        sig: &syn::Signature,
        stmts: &[Stmt],
        self_fields: &[String],
        extra_params: &[(String, Ty)],
        override_ret: Option<Ty>,
        src: &str,
        out: &mut String,
    ) -> R<()> {
        let mut env: Env = Env::new();
        let mut params: Vec<(String, Ty)> = Vec::new();
        for (n, t) in extra_params {
            env.insert(n.clone(), t.clone());
            params.push((n.clone(), t.clone()));
        }
        for inp in &sig.inputs {
            match inp {
                syn::FnArg::Receiver(_) => {
                    if self_fields.is_empty() {
                        return err("self receiver without declared fields");
                    }
                    for f in self_fields {
                        let n = format!("self_{}", f);
                        env.insert(n.clone(), Ty::I64);
                        params.push((n, Ty::I64));
                    }
                }
                syn::FnArg::Typed(pt) => {
                    let n = match &*pt.pat {
                        Pat::Ident(i) => san(&i.ident.to_string()),
                        _ => return err("unsupported parameter pattern"),
                    };
                    match conv_ty(&pt.ty, self) {
                        Ok(t) => {
                            env.insert(n.clone(), t.clone());
                            params.push((n, t));
                        }
                        Err(e) => {
                            // parameters of unsupported type are allowed if listed as replaced by extra_params
                            if extra_params.is_empty() {
                                return Err(e);
                            }
                        }
                    }
                }
            }
        }
        let ret = match override_ret {
            Some(t) => t,
            None => match &sig.output {
                syn::ReturnType::Default => Ty::Tup(vec![]),
                syn::ReturnType::Type(_, t) => conv_ty(t, self)?,
            },
        };
        self.ret_ty = ret.clone();
        self.self_fields = self_fields.to_vec();
        self.fresh = 0;
        let mut body = self.block(stmts, &env, &ret)?;
        let is_mon = body.is_mon();
        let body_s = match body {
            Tm::Pure(ref s) | Tm::Mon(ref s) => s.clone(),
        };
        let _ = &mut body;
        let ps: String = params.iter().map(|(n, t)| format!(" ({} : {})", n, t.coq())).collect();
        writeln!(out, "(* generated from {} — do not edit *)", src).unwrap();
        if is_mon {
            writeln!(out, "Definition {} (m : mode){} : res {} :=\n  {}.\n", coq_name, ps, ret.coq(), body_s).unwrap();
        } else {
            writeln!(out, "Definition {}{} : {} :=\n  {}.\n", coq_name, ps, ret.coq(), body_s).unwrap();
        }
        let rust_name = sig.ident.to_string();
        self.fns.insert(rust_name, (coq_name.to_string(), is_mon, ret));
        Ok(())
    }
}

// =====================================================================================
// suffix_fn: the statements of a function FROM a marker statement to its end, `while` loops
// included.  Every `while` becomes a Fixpoint on explicit fuel over the loop-carried state (the
// outer variables its body mutates), with result type `loop_res` (`LDone s | LTrap k | LFuel`);
// the vocabulary is small and exact — anything else is an error (tie broken), nothing is dropped.
// =====================================================================================

/// A term of the loop translator: a pure value of type T, or a computation of type `loop_res T`.
#[derive(Clone, Debug)]
enum LTm {
    Pure(String),
    L(String),
}

impl LTm {
    fn l(self) -> String {
        match self {
            LTm::Pure(s) => format!("(LDone {})", s),
            LTm::L(s) => s,
        }
    }
}

/// What a statement list evaluates to when control reaches its end.
#[derive(Clone, Debug)]
enum Fin {
    /// a nested block that only updates outer variables: the tuple of their current values
    Vars(Vec<String>),
    /// the body of a `while`: the next iteration (a call of the Fixpoint with one fuel unit less)
    Recur(String),
    /// the function itself: the tail expression (`Ok(e)` when `ok`) is the result
    Tail { ok: bool },
}

fn tuple_of(vs: &[String]) -> String {
    if vs.len() == 1 { vs[0].clone() } else { format!("({})", vs.join(", ")) }
}

fn tuple_pat(vs: &[String]) -> String {
    if vs.len() == 1 { vs[0].clone() } else { format!("'({})", vs.join(", ")) }
}

fn lbind_let(name: &str, v: Tm, k: LTm) -> LTm {
    match (v, k) {
        (Tm::Pure(v), LTm::Pure(k)) => LTm::Pure(format!("(let {} := {} in\n  {})", name, v, k)),
        (Tm::Pure(v), LTm::L(k)) => LTm::L(format!("(let {} := {} in\n  {})", name, v, k)),
        (Tm::Mon(v), k) => LTm::L(format!("(lbind (lift_res {}) (fun {} =>\n  {}))", v, name, k.l())),
    }
}

fn lbind_pat(vars: &[String], v: LTm, k: LTm) -> LTm {
    let pat = tuple_pat(vars);
    match (v, k) {
        (LTm::Pure(v), LTm::Pure(k)) => LTm::Pure(format!("(let {} := {} in\n  {})", pat, v, k)),
        (LTm::Pure(v), LTm::L(k)) => LTm::L(format!("(let {} := {} in\n  {})", pat, v, k)),
        (LTm::L(v), k) => LTm::L(format!("(lbind {} (fun {} =>\n  {}))", v, pat, k.l())),
    }
}

/// `{ break }` / `{ break; }`
fn is_break_block(b: &Expr) -> bool {
    let is_break = |e: &Expr| matches!(e, Expr::Break(br) if br.label.is_none() && br.expr.is_none());
    match b {
        Expr::Block(bl) if bl.label.is_none() && bl.block.stmts.len() == 1 => match &bl.block.stmts[0] {
            Stmt::Expr(e, _) => is_break(e),
            _ => false,
        },
        _ => false,
    }
}

/// `String::new()` / `Vec::new()`: the empty sequence
fn is_new_seq(e: &Expr) -> bool {
    if let Expr::Call(c) = e {
        if c.args.is_empty() {
            if let Expr::Path(p) = &*c.func {
                let segs: Vec<String> = p.path.segments.iter().map(|s| s.ident.to_string()).collect();
                return segs == ["String", "new"] || segs == ["Vec", "new"];
            }
        }
    }
    false
}

/// Expressions of the loop part must be free of effects and of control flow: the expression
/// translator would otherwise scope an assignment to the expression and lose it.
fn effect_in_expr(e: &Expr) -> Option<String> {
    use syn::visit::Visit;
    struct V(Option<String>);
    impl<'ast> Visit<'ast> for V {
        fn visit_expr(&mut self, e: &'ast Expr) {
            let bad = match e {
                Expr::Assign(_) => Some("assignment"),
                Expr::Binary(b) if is_any_compound(&b.op) => Some("compound assignment"),
                Expr::While(_) | Expr::Loop(_) | Expr::ForLoop(_) => Some("loop"),
                Expr::Break(_) | Expr::Continue(_) | Expr::Return(_) => Some("jump"),
                Expr::Closure(_) => Some("closure"),
                Expr::Macro(_) => Some("macro"),
                Expr::Unsafe(_) | Expr::Async(_) | Expr::Await(_) | Expr::Try(_) | Expr::Yield(_) => Some("unsupported control"),
                Expr::Reference(r) if r.mutability.is_some() => Some("mutable borrow"),
                Expr::MethodCall(m) if m.method == "push" => Some("push"),
                _ => None,
            };
            if let (Some(b), None) = (bad, &self.0) {
                self.0 = Some(format!("{} inside the expression `{}`", b, e.to_token_stream()));
            }
            syn::visit::visit_expr(self, e);
        }
        fn visit_local(&mut self, l: &'ast syn::Local) {
            if self.0.is_none() {
                self.0 = Some(format!("`let` inside an expression: `{}`", l.to_token_stream()));
            }
        }
        fn visit_item(&mut self, _: &'ast Item) {
            if self.0.is_none() {
                self.0 = Some("item inside an expression".into());
            }
        }
    }
    let mut v = V(None);
    v.visit_expr(e);
    v.0
}

fn is_any_compound(op: &BinOp) -> bool {
    matches!(
        op,
        BinOp::AddAssign(_)
            | BinOp::SubAssign(_)
            | BinOp::MulAssign(_)
            | BinOp::DivAssign(_)
            | BinOp::RemAssign(_)
            | BinOp::BitXorAssign(_)
            | BinOp::BitAndAssign(_)
            | BinOp::BitOrAssign(_)
            | BinOp::ShlAssign(_)
            | BinOp::ShrAssign(_)
    )
}

/// identifiers occurring anywhere in a token stream
fn idents_in(ts: proc_macro2::TokenStream, out: &mut BTreeSet<String>) {
    for t in ts {
        match t {
            proc_macro2::TokenTree::Ident(i) => {
                out.insert(san(&i.to_string()));
            }
            proc_macro2::TokenTree::Group(g) => idents_in(g.stream(), out),
            _ => {}
        }
    }
}

impl Ctx {
    /// a pure expression of the loop part (effects inside it are an error)
    fn lexpr(&mut self, e: &Expr, env: &Env, want: &Ty) -> R<Tm> {
        if let Some(why) = effect_in_expr(e) {
            return err(why);
        }
        self.expr(e, env, want)
    }

    /// the element pushed onto a sequence: a variable bound to an element, `*v`, `v.clone()`
    fn elem_expr(&self, e: &Expr, env: &Env) -> R<String> {
        match e {
            Expr::Paren(p) => self.elem_expr(&p.expr, env),
            Expr::Path(p) if p.path.get_ident().is_some() => {
                let n = san(&p.path.get_ident().map(|i| i.to_string()).unwrap_or_default());
                if env.get(&n) == Some(&Ty::Elem) { Ok(n) } else { err(format!("`{}` is not a sequence element", n)) }
            }
            Expr::Unary(u) if matches!(u.op, UnOp::Deref(_)) => self.elem_expr(&u.expr, env),
            Expr::MethodCall(m) if m.method == "clone" && m.args.is_empty() && m.turbofish.is_none() => {
                self.elem_expr(&m.receiver, env)
            }
            _ => err(format!("unsupported element expression `{}`", e.to_token_stream())),
        }
    }

    /// names newly bound by a `let`/pattern inside a nested block or loop body must not hide an
    /// outer variable: the block's result is read back through the outer names
    fn bound_names(p: &Pat, out: &mut Vec<String>) {
        match p {
            Pat::Ident(i) => {
                let n = san(&i.ident.to_string());
                if n != "None" {
                    out.push(n);
                }
                if let Some((_, sub)) = &i.subpat {
                    Self::bound_names(sub, out);
                }
            }
            Pat::TupleStruct(ts) => ts.elems.iter().for_each(|x| Self::bound_names(x, out)),
            Pat::Tuple(t) => t.elems.iter().for_each(|x| Self::bound_names(x, out)),
            Pat::Or(o) => o.cases.iter().for_each(|x| Self::bound_names(x, out)),
            Pat::Paren(pp) => Self::bound_names(&pp.pat, out),
            Pat::Type(pt) => Self::bound_names(&pt.pat, out),
            Pat::Reference(r) => Self::bound_names(&r.pat, out),
            _ => {}
        }
    }

    fn check_binders(&self, p: &Pat, outer: &BTreeSet<String>) -> R<()> {
        let mut names = Vec::new();
        Self::bound_names(p, &mut names);
        for n in names {
            if n == "fuel" || n == "A" {
                return err(format!("variable name `{}` is reserved by the loop translation", n));
            }
            if outer.contains(&n) {
                return err(format!("`{}` is re-bound inside a block or loop body, hiding a variable declared outside it", n));
            }
        }
        Ok(())
    }

    /// outer variables (present in `env`) mutated by a statement list, loops and pushes included
    fn mutated(&self, stmts: &[Stmt], env: &Env, out: &mut BTreeSet<String>) {
        for s in stmts {
            if let Stmt::Expr(e, _) = s {
                self.mutated_e(e, env, out);
            }
        }
    }

    fn mutated_e(&self, e: &Expr, env: &Env, out: &mut BTreeSet<String>) {
        let var = |x: &Expr| -> Option<String> {
            match x {
                Expr::Path(p) => p.path.get_ident().map(|i| san(&i.to_string())).filter(|n| env.contains_key(n)),
                _ => None,
            }
        };
        match e {
            Expr::Assign(a) => {
                if let Some(n) = var(&a.left) {
                    out.insert(n);
                }
            }
            Expr::Binary(b) if is_any_compound(&b.op) => {
                if let Some(n) = var(&b.left) {
                    out.insert(n);
                }
            }
            Expr::MethodCall(m) if m.method == "push" => {
                if let Some(n) = var(&m.receiver) {
                    out.insert(n);
                }
            }
            Expr::If(i) => {
                self.mutated(&i.then_branch.stmts, env, out);
                if let Some((_, e)) = &i.else_branch {
                    self.mutated_e(e, env, out);
                }
            }
            Expr::Block(b) => self.mutated(&b.block.stmts, env, out),
            Expr::While(w) => self.mutated(&w.body.stmts, env, out),
            _ => {}
        }
    }

    /// Statement list of the loop part.  `brk`: the term a `break` evaluates to — only available
    /// at the top level of a loop body; `outer`: the variables declared outside the innermost
    /// enclosing block or loop body (they must not be re-bound inside it).
    fn lblock(&mut self, stmts: &[Stmt], env: &Env, fin: &Fin, brk: Option<&str>, outer: &BTreeSet<String>) -> R<LTm> {
        let Some((first, rest)) = stmts.split_first() else {
            return match fin {
                Fin::Vars(vs) => Ok(LTm::Pure(tuple_of(vs))),
                Fin::Recur(call) => Ok(LTm::L(call.clone())),
                Fin::Tail { .. } => err("the function ends without a result expression"),
            };
        };
        match first {
            Stmt::Local(l) => {
                let init = l.init.as_ref().ok_or("let without initializer")?;
                if let Some((_, div)) = &init.diverge {
                    // `let PAT = E else { break };`
                    let Some(brk_tm) = brk else {
                        return err("let-else outside the top level of a loop body");
                    };
                    if !is_break_block(div) {
                        return err(format!("let-else whose else branch is not `{{ break }}`: `{}`", div.to_token_stream()));
                    }
                    self.check_binders(&l.pat, outer)?;
                    let st = self.ty_of(&init.expr, env);
                    let scrut = self.lexpr(&init.expr, env, &st)?;
                    let mut env2 = env.clone();
                    let ps = self.pat(&l.pat, &st, &mut env2)?;
                    let k = self.lblock(rest, &env2, fin, brk, outer)?.l();
                    let brk_s = brk_tm.to_string();
                    return Ok(match scrut {
                        Tm::Pure(v) => LTm::L(format!("(match {} with {} =>\n  {} | _ => {} end)", v, ps, k, brk_s)),
                        Tm::Mon(v) => {
                            let n = self.fresh("t");
                            LTm::L(format!(
                                "(lbind (lift_res {}) (fun {} =>\n  (match {} with {} =>\n  {} | _ => {} end)))",
                                v, n, n, ps, k, brk_s
                            ))
                        }
                    });
                }
                let (name, ann) = match &l.pat {
                    Pat::Ident(i) if i.by_ref.is_none() && i.subpat.is_none() => (san(&i.ident.to_string()), None),
                    Pat::Type(pt) => match &*pt.pat {
                        Pat::Ident(i) if i.by_ref.is_none() && i.subpat.is_none() => {
                            (san(&i.ident.to_string()), Some(conv_ty(&pt.ty, self)?))
                        }
                        _ => return err("unsupported let pattern"),
                    },
                    _ => return err(format!("unsupported let pattern {}", l.pat.to_token_stream())),
                };
                self.check_binders(&l.pat, outer)?;
                let (t, v) = if is_new_seq(&init.expr) {
                    (Ty::Seq, Tm::Pure("[]".into()))
                } else {
                    let t = ann.unwrap_or_else(|| self.ty_of(&init.expr, env));
                    let t = if t == Ty::Unknown { Ty::I64 } else { t };
                    let v = self.lexpr(&init.expr, env, &t)?;
                    (t, v)
                };
                let mut env2 = env.clone();
                env2.insert(name.clone(), t);
                let k = self.lblock(rest, &env2, fin, brk, outer)?;
                Ok(lbind_let(&name, v, k))
            }
            Stmt::Expr(e, semi) => {
                if let Fin::Tail { ok } = fin {
                    if rest.is_empty() && semi.is_none() && !matches!(e, Expr::If(_) | Expr::While(_)) {
                        let inner: &Expr = if *ok {
                            match e {
                                Expr::Call(c)
                                    if c.args.len() == 1
                                        && matches!(&*c.func, Expr::Path(p) if p.path.is_ident("Ok")) =>
                                {
                                    &c.args[0]
                                }
                                _ => return err(format!("the result expression `{}` is not `Ok(..)`", e.to_token_stream())),
                            }
                        } else {
                            e
                        };
                        let t = self.ty_of(inner, env);
                        if t == Ty::Unknown {
                            return err(format!("result expression `{}` of unknown type", inner.to_token_stream()));
                        }
                        let v = self.lexpr(inner, env, &t)?;
                        self.tail_ty = t;
                        return Ok(match v {
                            Tm::Pure(s) => LTm::Pure(s),
                            Tm::Mon(s) => LTm::L(format!("(lift_res {})", s)),
                        });
                    }
                }
                match e {
                    Expr::Assign(a) => {
                        let name = self.lhs_name(&a.left, env)?;
                        let t = env.get(&name).cloned().unwrap_or(Ty::I64);
                        if t == Ty::Seq || t == Ty::Elem {
                            return err(format!("assignment to the sequence-typed variable `{}`", name));
                        }
                        let v = self.lexpr(&a.right, env, &t)?;
                        let k = self.lblock(rest, env, fin, brk, outer)?;
                        Ok(lbind_let(&name, v, k))
                    }
                    Expr::Binary(b) if is_compound(&b.op) => {
                        let name = self.lhs_name(&b.left, env)?;
                        if let Some(why) = effect_in_expr(&b.right) {
                            return err(why);
                        }
                        let v = self.compound(b, env)?;
                        let k = self.lblock(rest, env, fin, brk, outer)?;
                        Ok(lbind_let(&name, v, k))
                    }
                    Expr::MethodCall(m) if m.method == "push" && m.args.len() == 1 && m.turbofish.is_none() => {
                        // `out.push(x)`: append one element to a sequence variable
                        let name = self.lhs_name(&m.receiver, env)?;
                        if env.get(&name) != Some(&Ty::Seq) {
                            return err(format!("push on `{}`, which is not a sequence variable", name));
                        }
                        let x = self.elem_expr(&m.args[0], env)?;
                        let k = self.lblock(rest, env, fin, brk, outer)?;
                        Ok(lbind_let(&name, Tm::Pure(format!("({} ++ [{}])", name, x)), k))
                    }
                    Expr::If(i) => self.lif_stmt(i, rest, env, fin, brk, outer),
                    Expr::While(w) => self.lwhile(w, rest, env, fin, brk, outer),
                    Expr::Break(b) if b.label.is_none() && b.expr.is_none() => {
                        let Some(brk_tm) = brk else {
                            return err("`break` outside the top level of a loop body");
                        };
                        if !rest.is_empty() {
                            return err("statements after `break`");
                        }
                        Ok(LTm::L(brk_tm.to_string()))
                    }
                    _ => err(format!("unsupported statement in the loop part: {}", e.to_token_stream())),
                }
            }
            Stmt::Macro(m) => err(format!("unsupported statement macro in the loop part: {}", m.mac.path.to_token_stream())),
            Stmt::Item(_) => err("nested items are not supported"),
        }
    }

    /// `if c { .. } else { .. }` / `if let P = e { .. }` used as a statement: it updates the outer
    /// variables its branches mutate; `break`/`return` inside the branches are errors.
    fn lif_stmt(&mut self, i: &syn::ExprIf, rest: &[Stmt], env: &Env, fin: &Fin, brk: Option<&str>, outer: &BTreeSet<String>) -> R<LTm> {
        let mut vars = BTreeSet::new();
        self.mutated(&i.then_branch.stmts, env, &mut vars);
        if let Some((_, e)) = &i.else_branch {
            self.mutated_e(e, env, &mut vars);
        }
        let vars: Vec<String> = vars.into_iter().collect();
        if vars.is_empty() {
            return err(format!("if statement without effect on the variables in scope: `if {} ..`", i.cond.to_token_stream()));
        }
        let inner = Fin::Vars(vars.clone());
        let here: BTreeSet<String> = env.keys().cloned().collect();
        let else_tm = |cx: &mut Ctx| -> R<LTm> {
            match &i.else_branch {
                Some((_, e)) => match &**e {
                    Expr::Block(b) if b.label.is_none() => cx.lblock(&b.block.stmts, env, &inner, None, &here),
                    other @ Expr::If(_) => {
                        let st = vec![Stmt::Expr(other.clone(), Some(Default::default()))];
                        cx.lblock(&st, env, &inner, None, &here)
                    }
                    other => err(format!("unsupported else branch `{}`", other.to_token_stream())),
                },
                None => Ok(LTm::Pure(tuple_of(&vars))),
            }
        };
        let (head, scrut, a, b) = if let Expr::Let(l) = &*i.cond {
            self.check_binders(&l.pat, &here)?;
            let st = self.ty_of(&l.expr, env);
            let scrut = self.lexpr(&l.expr, env, &st)?;
            let mut aenv = env.clone();
            let ps = self.pat(&l.pat, &st, &mut aenv)?;
            let a = self.lblock(&i.then_branch.stmts, &aenv, &inner, None, &here)?;
            let b = else_tm(self)?;
            (Some(ps), scrut, a, b)
        } else {
            let c = self.lexpr(&i.cond, env, &Ty::Bool)?;
            let a = self.lblock(&i.then_branch.stmts, env, &inner, None, &here)?;
            let b = else_tm(self)?;
            (None, c, a, b)
        };
        let any = matches!(a, LTm::L(_)) || matches!(b, LTm::L(_));
        let (a_s, b_s) = if any {
            (a.l(), b.l())
        } else {
            match (a, b) {
                (LTm::Pure(x), LTm::Pure(y)) => (x, y),
                _ => unreachable!(),
            }
        };
        let build = |v: &str| match &head {
            Some(ps) => format!("(match {} with {} => {} | _ => {} end)", v, ps, a_s, b_s),
            None => format!("(if {} then {} else {})", v, a_s, b_s),
        };
        let upd = match scrut {
            Tm::Pure(v) => {
                let t = build(&v);
                if any { LTm::L(t) } else { LTm::Pure(t) }
            }
            Tm::Mon(v) => {
                let n = self.fresh("t");
                let t = build(&n);
                let t = if any { t } else { format!("(LDone {})", t) };
                LTm::L(format!("(lbind (lift_res {}) (fun {} => {}))", v, n, t))
            }
        };
        let k = self.lblock(rest, env, fin, brk, outer)?;
        Ok(lbind_pat(&vars, upd, k))
    }

    /// `while c { body }`: a Fixpoint on fuel over the outer variables the body mutates.
    fn lwhile(&mut self, w: &syn::ExprWhile, rest: &[Stmt], env: &Env, fin: &Fin, brk: Option<&str>, outer: &BTreeSet<String>) -> R<LTm> {
        if w.label.is_some() {
            return err("labelled loops are not supported");
        }
        if matches!(&*w.cond, Expr::Let(_)) {
            return err("while-let is not supported");
        }
        let mut st = BTreeSet::new();
        self.mutated(&w.body.stmts, env, &mut st);
        let state: Vec<String> = st.into_iter().collect();
        if state.is_empty() {
            return err(format!("`while {}` has no loop-carried state", w.cond.to_token_stream()));
        }
        // read-only parameters: the other variables in scope that the loop mentions
        let mut mentioned = BTreeSet::new();
        idents_in(w.cond.to_token_stream(), &mut mentioned);
        idents_in(w.body.to_token_stream(), &mut mentioned);
        let ro: Vec<String> = mentioned.into_iter().filter(|n| env.contains_key(n) && !state.contains(n)).collect();
        for n in ro.iter().chain(state.iter()) {
            if n == "fuel" || n == "A" {
                return err(format!("variable name `{}` is reserved by the loop translation", n));
            }
        }
        let c = match self.lexpr(&w.cond, env, &Ty::Bool)? {
            Tm::Pure(c) => c,
            Tm::Mon(_) => return err(format!("loop condition `{}` can trap", w.cond.to_token_stream())),
        };
        // numbered in source order; an inner loop is finished, hence emitted, before the loop around it
        self.loop_count += 1;
        let idx = self.loop_count;
        let name = format!("{}_while_{}", self.loop_base, idx);
        let args = |v: &[String]| v.iter().map(|x| format!(" {}", x)).collect::<String>();
        let state_tuple = format!("(LDone {})", tuple_of(&state));
        let call = format!("({} fuel' m{}{})", name, args(&ro), args(&state));
        let here: BTreeSet<String> = env.keys().cloned().collect();
        let body = self.lblock(&w.body.stmts, env, &Fin::Recur(call), Some(&state_tuple), &here)?.l();
        let ty = |n: &String| env.get(n).cloned().unwrap_or(Ty::Unknown);
        let needs_a = ro.iter().chain(state.iter()).any(|n| matches!(ty(n), Ty::Seq | Ty::Elem));
        let binders: String = ro.iter().chain(state.iter()).map(|n| format!(" ({} : {})", n, ty(n).coq())).collect();
        let st_ty = if state.len() == 1 {
            ty(&state[0]).coq()
        } else {
            format!("({})", state.iter().map(|n| ty(n).coq()).collect::<Vec<_>>().join(" * "))
        };
        let mut d = String::new();
        writeln!(d, "(* generated from {}, loop {}: `while {}`; state ({}) — do not edit *)", self.loop_src, idx, w.cond.to_token_stream(), state.join(", ")).unwrap();
        writeln!(
            d,
            "Fixpoint {}{} (fuel : nat) (m : mode){} {{struct fuel}} : loop_res {} :=\n  match fuel with\n  | O => LFuel\n  | S fuel' =>\n  (if {} then\n  {}\n  else {})\n  end.\n",
            name,
            if needs_a { " {A : Type}" } else { "" },
            binders,
            st_ty,
            c,
            body,
            state_tuple
        )
        .unwrap();
        self.loop_defs.push(d);
        let k = self.lblock(rest, env, fin, brk, outer)?;
        let run = LTm::L(format!("({} fuel m{}{})", name, args(&ro), args(&state)));
        Ok(lbind_pat(&state, run, k))
    }

    /// the function `coq_name fuel m params..` for the statements `stmts` (marker to end)
    fn emit_suffix_fn(&mut self, coq_name: &str, params: &[(String, Ty)], stmts: &[Stmt], ok: bool, src: &str, out: &mut String) -> R<()> {
        let mut env = Env::new();
        for (n, t) in params {
            if n == "fuel" || n == "A" {
                return err(format!("parameter name `{}` is reserved by the loop translation", n));
            }
            env.insert(n.clone(), t.clone());
        }
        self.fresh = 0;
        self.self_fields = vec![];
        self.loop_defs.clear();
        self.loop_count = 0;
        self.loop_base = coq_name.to_string();
        self.loop_src = src.to_string();
        self.tail_ty = Ty::Unknown;
        let body = self.lblock(stmts, &env, &Fin::Tail { ok }, None, &BTreeSet::new())?.l();
        for d in self.loop_defs.iter() {
            out.push_str(d);
        }
        let needs_a = params.iter().any(|(_, t)| matches!(t, Ty::Seq | Ty::Elem)) || matches!(self.tail_ty, Ty::Seq | Ty::Elem);
        let ps: String = params.iter().map(|(n, t)| format!(" ({} : {})", n, t.coq())).collect();
        writeln!(out, "(* generated from {} — do not edit *)", src).unwrap();
        writeln!(
            out,
            "Definition {}{} (fuel : nat) (m : mode){} : loop_res {} :=\n  {}.\n",
            coq_name,
            if needs_a { " {A : Type}" } else { "" },
            ps,
            self.tail_ty.coq(),
            body
        )
        .unwrap();
        self.loop_defs.clear();
        Ok(())
    }
}

fn is_guard_call(c: &syn::ExprCall) -> bool {
    matches!(&*c.func, Expr::Path(p) if p.path.is_ident("__rs2v_guard")) && c.args.len() == 1
}

fn pure_s(t: Tm) -> String {
    match t {
        Tm::Pure(s) | Tm::Mon(s) => s,
    }
}

fn bind_let(name: &str, v: Tm, k: Tm) -> Tm {
    match (v, k) {
        (Tm::Pure(v), Tm::Pure(k)) => Tm::Pure(format!("(let {} := {} in\n  {})", name, v, k)),
        (Tm::Pure(v), Tm::Mon(k)) => Tm::Mon(format!("(let {} := {} in\n  {})", name, v, k)),
        (Tm::Mon(v), k) => Tm::Mon(format!("({} <- {} ;;\n  {})", name, v, k.mon())),
    }
}

fn is_compound(op: &BinOp) -> bool {
    matches!(op, BinOp::AddAssign(_) | BinOp::SubAssign(_) | BinOp::MulAssign(_))
}

fn force_semi(stmts: &mut [Stmt]) {
    if let Some(Stmt::Expr(e, semi)) = stmts.last_mut() {
        if semi.is_none() && matches!(e, Expr::If(_) | Expr::Return(_) | Expr::Assign(_) | Expr::Binary(_)) {
            *semi = Some(Default::default());
        }
    }
}

fn normalized_hash(tokens: &str) -> String {
    // FNV-1a over the token text with whitespace removed
    let mut h: u64 = 0xcbf29ce484222325;
    for b in tokens.bytes().filter(|b| !b.is_ascii_whitespace()) {
        h ^= b as u64;
        h = h.wrapping_mul(0x100000001b3);
    }
    format!("{:016x}", h)
}

fn find_fn<'a>(file: &'a syn::File, name: &str) -> Option<&'a syn::ItemFn> {
    file.items.iter().find_map(|it| match it {
        Item::Fn(f) if f.sig.ident == name => Some(f),
        _ => None,
    })
}

fn find_impl_fn<'a>(file: &'a syn::File, ty: &str, name: &str) -> Option<&'a syn::ImplItemFn> {
    for it in &file.items {
        if let Item::Impl(im) = it {
            let tn = match &*im.self_ty {
                syn::Type::Path(p) => p.path.segments.last().map(|s| s.ident.to_string()),
                _ => None,
            };
            if tn.as_deref() == Some(ty) {
                for ii in &im.items {
                    if let syn::ImplItem::Fn(f) = ii {
                        if f.sig.ident == name {
                            return Some(f);
                        }
                    }
                }
            }
        }
    }
    None
}

fn stmt_text(s: &Stmt) -> String {
    s.to_token_stream().to_string()
}

fn parse_ty_name(s: &str) -> Ty {
    match s {
        "i64" => Ty::I64,
        "usize" => Ty::Usize,
        "f64" => Ty::F64,
        "bool" => Ty::Bool,
        "Option<i64>" => Ty::Opt(Box::new(Ty::I64)),
        "seq" => Ty::Seq,
        other => Ty::Enum(other.to_string()),
    }
}

pub struct UnitReport {
    pub out: String,
    pub items: Vec<(String, String, String)>, // (coq name, source location, token hash)
}

/// Translate one unit of the spec. Returns the Coq text and a report.
type Done = BTreeMap<String, (BTreeMap<String, Vec<String>>, BTreeMap<String, (String, bool, Ty)>)>;

pub fn translate_unit(repo: &str, unit: &serde_json::Value, done: &mut Done) -> R<(String, UnitReport)> {
    let file_rel = unit["file"].as_str().ok_or("unit.file missing")?;
    let out_name = unit["out"].as_str().ok_or("unit.out missing")?.to_string();
    let prefix = unit["prefix"].as_str().unwrap_or("").to_string();
    let path = format!("{}/{}", repo, file_rel);
    let text = std::fs::read_to_string(&path).map_err(|e| format!("{}: {}", path, e))?;
    let file = syn::parse_file(&text).map_err(|e| format!("{}: {}", path, e))?;
    let mut cx = Ctx {
        prefix: prefix.clone(),
        enums: BTreeMap::new(),
        fns: BTreeMap::new(),
        fresh: 0,
        ret_ty: Ty::Unknown,
        self_fields: vec![],
        self_ty_name: None,
        enum_alias: BTreeMap::new(),
        loop_defs: vec![],
        loop_count: 0,
        loop_base: String::new(),
        loop_src: String::new(),
        tail_ty: Ty::Unknown,
    };
    let mut out = String::new();
    let mut rep = UnitReport { out: out_name.clone(), items: vec![] };
    writeln!(out, "(* GENERATED by rs2v from /repo/{} on every run — do not edit. *)", file_rel).unwrap();
    writeln!(out, "From Verif Require Import Base.I64 Base.F64.").unwrap();
    let empty = vec![];
    for imp in unit["imports"].as_array().unwrap_or(&empty) {
        let iname = imp.as_str().ok_or("import name")?;
        let (en, fnm) = done.get(iname).ok_or(format!("import {} not translated before this unit", iname))?;
        for (k, v) in en {
            cx.enums.insert(k.clone(), v.clone());
        }
        for (k, v) in fnm {
            cx.fns.insert(k.clone(), v.clone());
        }
        writeln!(out, "From Verif Require Import Gen.{}.", iname).unwrap();
    }
    for rq in unit["requires"].as_array().unwrap_or(&empty) {
        writeln!(out, "From Verif Require Import {}.", rq.as_str().ok_or("requires entry")?).unwrap();
    }
    writeln!(out, "Open Scope Z_scope.\n").unwrap();
    for fe in unit["foreign_enums"].as_array().unwrap_or(&empty) {
        let name = fe["name"].as_str().ok_or("foreign enum name")?;
        let frel = fe["file"].as_str().ok_or("foreign enum file")?;
        let fpath = format!("{}/{}", repo, frel);
        let ftext = std::fs::read_to_string(&fpath).map_err(|e| format!("{}: {}", fpath, e))?;
        let ffile = syn::parse_file(&ftext).map_err(|e| format!("{}: {}", fpath, e))?;
        let item = ffile
            .items
            .iter()
            .find_map(|it| match it {
                Item::Enum(e) if e.ident == name => Some(e.clone()),
                _ => None,
            })
            .ok_or(format!("enum {} not found in {}", name, frel))?;
        let rename = fe["as"].as_str();
        let mut item = item;
        if let Some(r) = rename {
            item.ident = syn::Ident::new(r, item.ident.span());
        }
        cx.emit_enum(&item, fe["collapse_payload"].as_bool().unwrap_or(false), &mut out)?;
        if let Some(r) = rename {
            // the Rust code refers to it under its original name or an alias listed in "aliases"
            let vs = cx.enums.get(r).cloned().unwrap_or_default();
            for al in fe["aliases"].as_array().unwrap_or(&empty) {
                if let Some(a) = al.as_str() {
                    cx.enum_alias.insert(a.to_string(), r.to_string());
                }
            }
            let _ = vs;
        }
        rep.items.push((name.to_string(), frel.to_string(), normalized_hash(&item.to_token_stream().to_string())));
    }
    for en in unit["enums"].as_array().unwrap_or(&empty) {
        let name = en.as_str().ok_or("enum name")?;
        let item = file
            .items
            .iter()
            .find_map(|it| match it {
                Item::Enum(e) if e.ident == name => Some(e),
                _ => None,
            })
            .ok_or(format!("enum {} not found in {}", name, file_rel))?;
        cx.emit_enum(item, false, &mut out)?;
        rep.items.push((name.to_string(), file_rel.to_string(), normalized_hash(&item.to_token_stream().to_string())));
    }
    // ordered list of function-like entries
    for entry in unit["items"].as_array().unwrap_or(&empty) {
        let kind = entry["kind"].as_str().unwrap_or("fn");
        let name = entry["name"].as_str().ok_or("item.name missing")?;
        match kind {
            "fn" => {
                let f = find_fn(&file, name).ok_or(format!("fn {} not found in {}", name, file_rel))?;
                let coq_name = format!("{}{}", prefix, name);
                cx.self_ty_name = None;
                let raise_as: Vec<String> =
                    entry["raise_calls"].as_array().unwrap_or(&empty).iter().filter_map(|x| x.as_str().map(String::from)).collect();
                let stmts: Vec<Stmt> = f.block.stmts.iter().cloned().map(|s| rewrite_raises(s, &raise_as)).collect();
                cx.emit_fn(&coq_name, &f.sig, &stmts, &[], &[], None, &format!("{} fn {}", file_rel, name), &mut out)
                    .map_err(|e| format!("{}::{}: {}", file_rel, name, e))?;
                rep.items.push((coq_name, file_rel.to_string(), normalized_hash(&f.to_token_stream().to_string())));
            }
            "impl_fn" => {
                let ty = entry["ty"].as_str().ok_or("impl_fn.ty missing")?;
                let f = find_impl_fn(&file, ty, name).ok_or(format!("{}::{} not found", ty, name))?;
                let coq_name = format!("{}{}_{}", prefix, ty, name);
                cx.self_ty_name = Some(ty.to_string());
                cx.emit_fn(&coq_name, &f.sig, &f.block.stmts, &[], &[], None, &format!("{} {}::{}", file_rel, ty, name), &mut out)
                    .map_err(|e| format!("{}::{}::{}: {}", file_rel, ty, name, e))?;
                // calls are resolved by bare method name
                rep.items.push((coq_name, file_rel.to_string(), normalized_hash(&f.to_token_stream().to_string())));
            }
            "self_fn" => {
                // &mut self method over i64 fields: returns (fields', result)
                let ty = entry["ty"].as_str().ok_or("self_fn.ty missing")?;
                let f = find_impl_fn(&file, ty, name).ok_or(format!("{}::{} not found", ty, name))?;
                let fields: Vec<String> =
                    entry["fields"].as_array().unwrap_or(&empty).iter().filter_map(|x| x.as_str().map(String::from)).collect();
                let coq_name = format!("{}{}_{}", prefix, ty, name);
                cx.self_ty_name = Some(ty.to_string());
                let ret_inner = match &f.sig.output {
                    syn::ReturnType::Type(_, t) => match &**t {
                        syn::Type::Path(p)
                            if p.path.segments.last().map(|s| s.ident == "Item").unwrap_or(false)
                                || p.to_token_stream().to_string().contains("Self :: Item") =>
                        {
                            Ty::Opt(Box::new(Ty::I64))
                        }
                        other => {
                            // Option<Self::Item> for the iterator
                            let s = other.to_token_stream().to_string();
                            if s.contains("Self :: Item") { Ty::Opt(Box::new(Ty::I64)) } else { conv_ty(other, &cx)? }
                        }
                    },
                    _ => Ty::Tup(vec![]),
                };
                // rewrite: append the tail expression as an explicit `return`
                let mut stmts = f.block.stmts.clone();
                if let Some(Stmt::Expr(e, None)) = stmts.last().cloned() {
                    let n = stmts.len();
                    let r: Expr = syn::parse_quote!(return #e);
                    stmts[n - 1] = Stmt::Expr(r, Some(Default::default()));
                }
                let mut env: Env = Env::new();
                let mut params = Vec::new();
                for fl in &fields {
                    let n = format!("self_{}", fl);
                    env.insert(n.clone(), Ty::I64);
                    params.push(n);
                }
                cx.ret_ty = ret_inner.clone();
                cx.self_fields = fields.clone();
                cx.fresh = 0;
                let full_ret = Ty::Tup(vec![Ty::Tup(vec![Ty::I64; fields.len()]), ret_inner.clone()]);
                let body = cx.block(&stmts, &env, &full_ret).map_err(|e| format!("{}::{}::{}: {}", file_rel, ty, name, e))?;
                cx.self_fields = vec![];
                let is_mon = body.is_mon();
                let ps: String = params.iter().map(|n| format!(" ({} : Z)", n)).collect();
                writeln!(out, "(* generated from {} {}::{} (&mut self as state passing) — do not edit *)", file_rel, ty, name).unwrap();
                if is_mon {
                    writeln!(out, "Definition {} (m : mode){} : res {} :=\n  {}.\n", coq_name, ps, full_ret.coq(), pure_s(body)).unwrap();
                } else {
                    writeln!(out, "Definition {}{} : {} :=\n  {}.\n", coq_name, ps, full_ret.coq(), pure_s(body)).unwrap();
                }
                rep.items.push((coq_name, file_rel.to_string(), normalized_hash(&f.to_token_stream().to_string())));
            }
            "prefix_fn" => {
                // the statements of `name` before the first one whose text starts with `until`,
                // minus the ones starting with any `skip`; returns the tuple `returns`.
                let f = find_fn(&file, name).ok_or(format!("fn {} not found in {}", name, file_rel))?;
                let until = entry["until"].as_str().ok_or("prefix_fn.until missing")?;
                let until_n: String = until.split_whitespace().collect::<Vec<_>>().join(" ");
                let skips: Vec<String> = entry["skip"]
                    .as_array()
                    .unwrap_or(&empty)
                    .iter()
                    .filter_map(|x| x.as_str().map(|s| s.split_whitespace().collect::<Vec<_>>().join(" ")))
                    .collect();
                let returns: Vec<String> =
                    entry["returns"].as_array().unwrap_or(&empty).iter().filter_map(|x| x.as_str().map(String::from)).collect();
                let extra: Vec<(String, Ty)> = entry["extra_params"]
                    .as_array()
                    .unwrap_or(&empty)
                    .iter()
                    .filter_map(|p| Some((p[0].as_str()?.to_string(), parse_ty_name(p[1].as_str()?))))
                    .collect();
                let coq_name = format!("{}{}", prefix, entry["as"].as_str().unwrap_or(name));
                let mut stmts: Vec<Stmt> = Vec::new();
                let mut found = false;
                for s in &f.block.stmts {
                    let t = stmt_text(s);
                    if t.starts_with(&until_n) {
                        found = true;
                        break;
                    }
                    if skips.iter().any(|k| t.starts_with(k)) {
                        continue;
                    }
                    stmts.push(s.clone());
                }
                if !found {
                    return err(format!("{}::{}: marker statement `{}` not found", file_rel, name, until));
                }
                // early returns inside the prefix (e.g. step == 0) are replaced by raise markers:
                let raise_as: Vec<String> =
                    entry["raise_calls"].as_array().unwrap_or(&empty).iter().filter_map(|x| x.as_str().map(String::from)).collect();
                let stmts: Vec<Stmt> = stmts.into_iter().map(|s| rewrite_raises(s, &raise_as)).collect();
                let tuple = format!("({})", returns.join(", "));
                let tail: Expr = syn::parse_str(&tuple).map_err(|e| e.to_string())?;
                let mut stmts = stmts;
                stmts.push(Stmt::Expr(tail, None));
                let ret = Ty::Tup(vec![Ty::I64; returns.len()]);
                cx.self_ty_name = None;
                cx.emit_fn(&coq_name, &f.sig, &stmts, &[], &extra, Some(ret), &format!("{} fn {} (prefix up to `{}`)", file_rel, name, until), &mut out)
                    .map_err(|e| format!("{}::{} (prefix): {}", file_rel, name, e))?;
                let h: String = f.block.stmts.iter().map(stmt_text).collect::<Vec<_>>().join(";");
                rep.items.push((coq_name, file_rel.to_string(), normalized_hash(&h)));
            }
            "suffix_fn" => {
                // the statements of `name` FROM the first one whose text starts with `from` to the end
                // of the function, `while` loops included (see `lblock`); the variables in scope at
                // the marker that the suffix uses are declared in "params" (types i64/usize/bool/seq).
                let f = find_fn(&file, name).ok_or(format!("fn {} not found in {}", name, file_rel))?;
                let from = entry["from"].as_str().ok_or("suffix_fn.from missing")?;
                let from_n: String = from.split_whitespace().collect::<Vec<_>>().join(" ");
                let params: Vec<(String, Ty)> = entry["params"]
                    .as_array()
                    .unwrap_or(&empty)
                    .iter()
                    .filter_map(|p| Some((san(p[0].as_str()?), parse_ty_name(p[1].as_str()?))))
                    .collect();
                let coq_name = format!("{}{}", prefix, entry["as"].as_str().unwrap_or(name));
                let pos = f.block.stmts.iter().position(|s| stmt_text(s).starts_with(&from_n));
                let Some(pos) = pos else {
                    return err(format!("{}::{}: marker statement `{}` not found", file_rel, name, from));
                };
                let stmts: Vec<Stmt> = f.block.stmts[pos..].to_vec();
                let ok = match &f.sig.output {
                    syn::ReturnType::Type(_, t) => {
                        matches!(&**t, syn::Type::Path(p) if p.path.segments.last().map(|s| s.ident == "Result").unwrap_or(false))
                    }
                    _ => false,
                };
                cx.self_ty_name = None;
                cx.emit_suffix_fn(&coq_name, &params, &stmts, ok, &format!("{} fn {} (from `{}` to the end)", file_rel, name, from), &mut out)
                    .map_err(|e| format!("{}::{} (loop part): {}", file_rel, name, e))?;
                let h: String = f.block.stmts.iter().map(stmt_text).collect::<Vec<_>>().join(";");
                rep.items.push((coq_name, file_rel.to_string(), normalized_hash(&h)));
            }
            other => return err(format!("unknown item kind {}", other)),
        }
    }
    done.insert(out_name.clone(), (cx.enums.clone(), cx.fns.clone()));
    Ok((out, rep))
}

/// In a prefix, `if c { raise(..); }` / `if c { return Err(..); }` become `if c { return RAISE; }`
/// where RAISE is encoded as an assertion failure of the monad: we rewrite the whole `if` into
/// `dbg_raise(c)` handled below. To stay inside the subset we translate it to
/// `if c { return <sentinel tuple>; }` — instead we simply drop it and require the caller of the
/// generated function to guard `c` (the spec lists the guard in "requires").
fn rewrite_raises(s: Stmt, raise_calls: &[String]) -> Stmt {
    if let Stmt::Expr(Expr::If(i), semi) = &s {
        if i.else_branch.is_none() && i.then_branch.stmts.len() == 1 {
            let t = i.then_branch.stmts[0].to_token_stream().to_string();
            if raise_calls.iter().any(|r| t.starts_with(r.as_str())) {
                // keep the condition observable: `if c { return <trap>; }` is modelled by a
                // failed assertion `debug_assert!(!(c))` in *both* modes via `assert64`.
                let c = &i.cond;
                let e: Expr = syn::parse_quote!(__rs2v_guard(#c));
                let _ = semi;
                return Stmt::Expr(e, Some(Default::default()));
            }
        }
    }
    s
}

pub fn run(repo: &str, spec_path: &str, out_dir: &str) -> i32 {
    let spec_text = match std::fs::read_to_string(spec_path) {
        Ok(t) => t,
        Err(e) => {
            eprintln!("rs2v: cannot read {}: {}", spec_path, e);
            return 2;
        }
    };
    let spec: serde_json::Value = match serde_json::from_str(&spec_text) {
        Ok(v) => v,
        Err(e) => {
            eprintln!("rs2v: bad spec: {}", e);
            return 2;
        }
    };
    let mut report = Vec::new();
    let mut failed = false;
    let mut done: Done = BTreeMap::new();
    let only: Option<String> = std::env::var("RS2V_ONLY").ok();
    for unit in spec.as_array().cloned().unwrap_or_default() {
        let name = unit["out"].as_str().unwrap_or("?").to_string();
        // every unit is translated (later units may import it); only selected ones are written
        let selected = match &only {
            Some(o) => o.split(',').any(|x| x == name),
            None => true,
        };
        match translate_unit(repo, &unit, &mut done) {
            Ok((text, rep)) => {
                if !selected {
                    continue;
                }
                let p = format!("{}/{}.v", out_dir, rep.out);
                let old = std::fs::read_to_string(&p).unwrap_or_default();
                if old != text {
                    if let Err(e) = std::fs::write(&p, &text) {
                        eprintln!("rs2v: cannot write {}: {}", p, e);
                        return 2;
                    }
                }
                for (n, src, h) in rep.items {
                    report.push(serde_json::json!({"unit": name, "coq": n, "source": src, "hash": h, "changed": old != text}));
                }
            }
            Err(e) => {
                if !selected {
                    continue;
                }
                failed = true;
                report.push(serde_json::json!({"unit": name, "error": e}));
                eprintln!("rs2v: TIE-BROKEN unit {}: {}", name, e);
            }
        }
    }
    println!("{}", serde_json::to_string_pretty(&serde_json::Value::Array(report)).unwrap_or_default());
    if failed { 3 } else { 0 }
}
