//! C04: run the real numeric helpers. Input line: `<op> <kind> <val> <kind> <val>` with kind
//! `i` (decimal i64) or `f` (u64 bit pattern). Output: `<tag> <value>`:
//! 0 int, 1 float bits (NaN canonical), 2 ZeroDivisionError, 3 other panic (0 overflow, 1 div0,
//! 2 assert, 9 other) followed by the message.
use crate::common::{catch, each_line};
use incan_stdlib::num;

#[derive(Clone, Copy)]
enum N {
    I(i64),
    F(f64),
}

fn parse(kind: &str, v: &str) -> N {
    match kind {
        "i" => N::I(v.parse().expect("i64")),
        _ => N::F(f64::from_bits(v.parse::<u64>().expect("bits"))),
    }
}

fn fbits(f: f64) -> String {
    if f.is_nan() { format!("1 {}", 0x7ff8000000000000u64) } else { format!("1 {}", f.to_bits()) }
}

fn show(r: Result<N, String>) -> String {
    match r {
        Ok(N::I(z)) => format!("0 {}", z),
        Ok(N::F(f)) => fbits(f),
        Err(msg) => {
            if msg == "ZeroDivisionError: float division by zero" {
                "2 0".to_string()
            } else if msg.contains("overflow") {
                format!("3 0 {}", msg)
            } else if msg.contains("divide by zero") || msg.contains("divisor of zero") {
                format!("3 1 {}", msg)
            } else if msg.contains("assertion") {
                format!("3 2 {}", msg)
            } else {
                format!("3 9 {}", msg)
            }
        }
    }
}

pub fn run(_args: &[String]) {
    each_line(|line| {
        let p: Vec<&str> = line.split_whitespace().collect();
        let (op, a, b) = (p[0], parse(p[1], p[2]), parse(p[3], p[4]));
        let r = catch(|| match (op, a, b) {
            ("div", N::I(x), N::I(y)) => N::F(num::py_div(x, y)),
            ("div", N::I(x), N::F(y)) => N::F(num::py_div(x, y)),
            ("div", N::F(x), N::I(y)) => N::F(num::py_div(x, y)),
            ("div", N::F(x), N::F(y)) => N::F(num::py_div(x, y)),
            ("mod", N::I(x), N::I(y)) => N::I(num::py_mod(x, y)),
            ("mod", N::I(x), N::F(y)) => N::F(num::py_mod(x, y)),
            ("mod", N::F(x), N::I(y)) => N::F(num::py_mod(x, y)),
            ("mod", N::F(x), N::F(y)) => N::F(num::py_mod(x, y)),
            ("fdiv", N::I(x), N::I(y)) => N::I(num::py_floor_div(x, y)),
            ("fdiv", N::I(x), N::F(y)) => N::F(num::py_floor_div(x, y)),
            ("fdiv", N::F(x), N::I(y)) => N::F(num::py_floor_div(x, y)),
            ("fdiv", N::F(x), N::F(y)) => N::F(num::py_floor_div(x, y)),
            ("fdiv_i64", N::I(x), N::I(y)) => N::I(num::py_floor_div_i64(x, y)),
            ("mod_i64", N::I(x), N::I(y)) => N::I(num::py_mod_i64(x, y)),
            ("fdiv_f64", N::F(x), N::F(y)) => N::F(num::py_floor_div_f64(x, y)),
            ("mod_f64", N::F(x), N::F(y)) => N::F(num::py_mod_f64(x, y)),
            ("core_mod_i64", N::I(x), N::I(y)) => N::I(incan_core::py_mod_i64_impl(x, y)),
            ("core_fdiv_i64", N::I(x), N::I(y)) => N::I(incan_core::py_floor_div_i64_impl(x, y)),
            ("core_mod_f64", N::F(x), N::F(y)) => N::F(incan_core::py_mod_f64_impl(x, y)),
            _ => panic!("bad case"),
        });
        show(r)
    });
}
