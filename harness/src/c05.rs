//! C05 runner: indexing, slicing, range, dict lookup, slice syntax — the real helpers.
//! Input lines (space separated; lists are comma separated, `-` = empty; `N` = None):
//!   lslice <ints> <s> <e> <k>      sslice <codepoints> <s> <e> <k>
//!   lget <ints> <i>                sidx <codepoints> <i>
//!   range <a> <b> <c> <n>          dget <k:v,...> <key>
//!   parse <incan expression text (rest of line)>
//! Output: `0 <values>` | `1` IndexError | `2` slice ValueError | `3` range ValueError |
//!         `4` KeyError | `5 <k> <msg>` other panic | `TIMEOUT`.
use crate::common::{catch, each_line_watchdog, opt_i64};
use std::collections::HashMap;

fn ints(s: &str) -> Vec<i64> {
    if s == "-" { vec![] } else { s.split(',').map(|x| x.parse().expect("int")).collect() }
}

fn text(s: &str) -> String {
    ints(s).into_iter().map(|c| char::from_u32(c as u32).expect("scalar")).collect()
}

fn join(v: &[i64]) -> String {
    if v.is_empty() { "-".to_string() } else { v.iter().map(|x| x.to_string()).collect::<Vec<_>>().join(",") }
}

fn classify(msg: &str, index_text: &str) -> String {
    if msg == index_text {
        "1".into()
    } else if msg == "ValueError: slice step cannot be zero" {
        "2".into()
    } else if msg == "ValueError: range() arg 3 must not be zero" {
        "3".into()
    } else if msg.contains("overflow") {
        format!("5 0 {}", msg)
    } else if msg.contains("assertion") || msg.contains("out of bounds") || msg.contains("index normalized") {
        format!("5 2 {}", msg)
    } else {
        format!("5 9 {}", msg)
    }
}

pub fn run(_args: &[String]) {
    each_line_watchdog(3000, |line| {
        let (op, rest) = line.split_once(' ').unwrap_or((line, ""));
        let p: Vec<&str> = rest.split(' ').collect();
        match op {
            "lslice" => {
                let v = ints(p[0]);
                let (s, e, k) = (opt_i64(p[1]), opt_i64(p[2]), opt_i64(p[3]));
                match catch(|| incan_stdlib::collections::list_slice(&v, s, e, k)) {
                    Ok(r) => format!("0 {}", join(&r)),
                    Err(m) => classify(&m, ""),
                }
            }
            "sslice" => {
                let t = text(p[0]);
                let (s, e, k) = (opt_i64(p[1]), opt_i64(p[2]), opt_i64(p[3]));
                let a = match catch(|| incan_stdlib::strings::str_slice(&t, s, e, k)) {
                    Ok(r) => format!("0 {}", join(&r.chars().map(|c| c as i64).collect::<Vec<_>>())),
                    Err(m) => classify(&m, ""),
                };
                // the semantic core (used by the compiler's const evaluation) must agree
                let b = match catch(|| incan_core::strings::str_slice(&t, s, e, k)) {
                    Ok(Ok(r)) => format!("0 {}", join(&r.chars().map(|c| c as i64).collect::<Vec<_>>())),
                    Ok(Err(err)) => classify(&err.to_string(), "IndexError: string index out of range"),
                    Err(m) => classify(&m, ""),
                };
                if a == b { a } else { format!("9 stdlib={} core={}", a, b) }
            }
            "lget" => {
                let v = ints(p[0]);
                let i: i64 = p[1].parse().expect("i");
                let want = format!("IndexError: index {} out of range for list of length {}", i, v.len());
                match catch(|| *incan_stdlib::collections::list_get(&v, i)) {
                    Ok(r) => format!("0 {}", r),
                    Err(m) => classify(&m, &want),
                }
            }
            "lgetmut" => {
                let mut v = ints(p[0]);
                let i: i64 = p[1].parse().expect("i");
                let want = format!("IndexError: index {} out of range for list of length {}", i, v.len());
                match catch(|| *incan_stdlib::collections::list_get_mut(&mut v, i)) {
                    Ok(r) => format!("0 {}", r),
                    Err(m) => classify(&m, &want),
                }
            }
            "sidx" => {
                let t = text(p[0]);
                let i: i64 = p[1].parse().expect("i");
                match catch(|| incan_stdlib::strings::str_index(&t, i)) {
                    Ok(r) => format!("0 {}", join(&r.chars().map(|c| c as i64).collect::<Vec<_>>())),
                    Err(m) => classify(&m, "IndexError: string index out of range"),
                }
            }
            "range" => {
                let (a, b, c): (i64, i64, i64) = (p[0].parse().unwrap(), p[1].parse().unwrap(), p[2].parse().unwrap());
                let n: usize = p[3].parse().unwrap();
                match catch(|| {
                    let mut it = incan_stdlib::iter::range(a, b, c);
                    let mut out = Vec::new();
                    let mut fin = false;
                    for _ in 0..n {
                        match it.next() {
                            Some(v) => out.push(v),
                            None => {
                                fin = true;
                                break;
                            }
                        }
                    }
                    if !fin {
                        fin = it.next().is_none();
                    }
                    (out, fin)
                }) {
                    Ok((out, fin)) => format!("0 {} {}", if fin { 1 } else { 0 }, join(&out)),
                    Err(m) => classify(&m, ""),
                }
            }
            "dget" => {
                let mut map: HashMap<i64, i64> = HashMap::new();
                if p[0] != "-" {
                    for kv in p[0].split(',') {
                        let (k, v) = kv.split_once(':').unwrap();
                        map.insert(k.parse().unwrap(), v.parse().unwrap());
                    }
                }
                let key: i64 = p[1].parse().unwrap();
                let want = format!("KeyError: '{}' not found in dict", key);
                match catch(|| *incan_stdlib::collections::dict_get(&map, &key)) {
                    Ok(r) => format!("0 {}", r),
                    Err(m) => {
                        if m == want { "4".into() } else { format!("5 9 {}", m) }
                    }
                }
            }
            "parse" => parse_shape(rest),
            "emit" => emit_shape(rest),
            _ => "bad-op".into(),
        }
    });
}

/// Parse `v = s[<text>]` with the real lexer+parser and report the index/slice shape.
fn parse_shape(inner: &str) -> String {
    use incan_syntax::ast::{Declaration, Expr, Statement};
    let src = format!("def f(s: str) -> None:\n    v = s[{}]\n", inner);
    let r = catch(|| {
        let tokens = match incan_syntax::lexer::lex(&src) {
            Ok(t) => t,
            Err(_) => return "ERR lex".to_string(),
        };
        let prog = match incan_syntax::parser::parse(&tokens) {
            Ok(p) => p,
            Err(_) => return "ERR parse".to_string(),
        };
        for d in &prog.declarations {
            if let Declaration::Function(f) = &d.node {
                for st in &f.body {
                    if let Statement::Assignment(a) = &st.node {
                        return match &a.value.node {
                            Expr::Index(_, _) => "I".to_string(),
                            Expr::Slice(_, sl) => format!(
                                "S {} {} {}",
                                sl.start.is_some() as u8,
                                sl.end.is_some() as u8,
                                sl.step.is_some() as u8
                            ),
                            other => format!("OTHER {:?}", std::mem::discriminant(other)),
                        };
                    }
                }
            }
        }
        "ERR shape".to_string()
    });
    r.unwrap_or_else(|m| format!("PANIC {}", m))
}

/// Emitted Rust for an indexing/slicing/range construct of the source language:
/// `emit idx <recv> <inner>` (v = recv[inner]), `emit set <recv> <inner>` (recv[inner] = 7),
/// `emit range <args>` (for q in range(args)). Whitespace-free text of the relevant expression.
fn emit_shape(rest: &str) -> String {
    let (kind, rest) = rest.split_once(' ').unwrap_or((rest, ""));
    let body = match kind {
        "idx" => {
            let (recv, inner) = rest.split_once(' ').unwrap_or((rest, ""));
            format!("    v = {}[{}]\n", recv, inner)
        }
        "set" => {
            let (recv, inner) = rest.split_once(' ').unwrap_or((rest, ""));
            format!("    mut ys = xs\n    {}[{}] = 7\n", recv, inner)
        }
        "range" => format!("    for q in range({}):\n        pass\n", rest),
        _ => return "bad-kind".into(),
    };
    let src = format!("def f(s: str, xs: List[int], i: int, j: int, k: int) -> None:\n{}", body);
    let r = catch(|| {
        let tokens = match incan_syntax::lexer::lex(&src) {
            Ok(t) => t,
            Err(_) => return "ERR lex".to_string(),
        };
        let prog = match incan_syntax::parser::parse(&tokens) {
            Ok(p) => p,
            Err(_) => return "ERR parse".to_string(),
        };
        match incan::backend::ir::IrCodegen::new().try_generate(&prog) {
            Ok(text) => {
                let flat: String = text.split_whitespace().collect::<Vec<_>>().join("");
                let (start, end) = match kind {
                    "idx" => ("letv=", ";"),
                    "set" => ("letmutys=xs;", "=7;"),
                    _ => ("forqin", "{"),
                };
                match flat.find(start) {
                    Some(a) => {
                        let tail = &flat[a + start.len()..];
                        match tail.find(end) {
                            Some(b) => format!("OK {}", &tail[..b]),
                            None => "ERR shape".to_string(),
                        }
                    }
                    None => "ERR shape".to_string(),
                }
            }
            Err(e) => format!("ERR gen {}", e).replace('\n', " "),
        }
    });
    r.unwrap_or_else(|m| format!("PANIC {}", m))
}
