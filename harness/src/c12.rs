//! C12 runner.
//!
//! `vharness run c12 scan <repo>`   — source scan: every place under src/frontend, src/backend, src/cli
//!     where a HashMap/HashSet is iterated (for-loops, .iter()/.keys()/.values()/.drain()/... calls,
//!     .extend(hash)), found with `syn` + a small local type inference.  One JSON object per line:
//!     {"file","fn","recv","kind","n","line","ambiguous","sorted_after"}.
//! `vharness run c12 cli <cmd> <args..>` — behave like the `incan` binary for one command, calling the
//!     real `incan::cli::commands::*` / `test_runner::run_tests` entry points (stdout/stderr/exit code
//!     are those of the real command implementation; clap parsing and the banner are not involved):
//!       check <file> | emit <file> | build <file> <outdir> | fmt-diff <path> | fmt-check <path> |
//!       test <dir> | collector <file>   (ModuleCollector::collect order, one path per line)
//!     The determinism oracle spawns this in many fresh processes (fresh hash seeds), with different
//!     cwd/environment, and compares bytes.
use std::collections::{BTreeMap, HashMap};
use std::path::{Path, PathBuf};

use quote::ToTokens;
use syn::visit::{self, Visit};

// ------------------------------------------------------------------------------------------------
// cli
// ------------------------------------------------------------------------------------------------

fn finish(r: Result<i32, String>) -> ! {
    match r {
        Ok(code) => std::process::exit(code),
        Err(p) => {
            eprintln!("panic: {}", p);
            std::process::exit(101)
        }
    }
}

/// Run one command the way `incan::cli::run` would (message to stderr, exit code returned).
fn one(cmd: &str, args: &[String]) -> Result<i32, String> {
    use incan::cli::commands;
    let a1 = args.first().cloned().unwrap_or_default();
    let conv = |r: incan::cli::CliResult<incan::cli::ExitCode>| -> i32 {
        match r {
            Ok(code) => code.0,
            Err(e) => {
                if !e.message.is_empty() {
                    eprintln!("{}", e.message);
                }
                e.exit_code.0
            }
        }
    };
    crate::common::catch(|| match cmd {
        "check" => conv(commands::check_file(&a1)),
        "emit" => conv(commands::emit_rust(&a1, false)),
        "emit-strict" => conv(commands::emit_rust(&a1, true)),
        "build" => {
            let out = args.get(1).cloned();
            conv(commands::build_file(&a1, out.as_ref()))
        }
        "fmt-diff" => conv(commands::format_files(&a1, false, true)),
        "fmt-check" => conv(commands::format_files(&a1, true, false)),
        "test" => conv(incan::cli::test_runner::run_tests(&a1, true, false, false, None, false, false)),
        "emit-many" => {
            // differential probe: generate the same program N times in THIS process (every HashMap
            // instance gets its own hash keys) and compare the generated Rust
            let n: usize = args.get(1).and_then(|s| s.parse().ok()).unwrap_or(16);
            match commands::collect_modules(&a1) {
                Err(e) => {
                    eprintln!("{}", e.message);
                    1
                }
                Ok(modules) => {
                    let Some(main_module) = modules.last() else { return 1 };
                    let mut outs: Vec<String> = vec![];
                    for _ in 0..n {
                        let mut codegen = incan::backend::IrCodegen::new();
                        for module in &modules[..modules.len() - 1] {
                            codegen.add_module(&module.name, &module.ast);
                        }
                        outs.push(match codegen.try_generate(&main_module.ast) {
                            Ok(code) => code,
                            Err(e) => format!("// error: {}", e),
                        });
                    }
                    let mut distinct: Vec<&String> = vec![];
                    for o in &outs {
                        if !distinct.contains(&o) {
                            distinct.push(o);
                        }
                    }
                    println!("generations: {} distinct outputs: {}", n, distinct.len());
                    if distinct.len() > 1 {
                        let (a, b) = (distinct[0], distinct[1]);
                        for (la, lb) in a.lines().zip(b.lines()) {
                            if la != lb {
                                println!("first difference:\n< {}\n> {}", la, lb);
                                break;
                            }
                        }
                    }
                    0
                }
            }
        }
        "collector" => {
            let p = Path::new(&a1);
            let mut c = incan::frontend::module::ModuleCollector::new(p);
            match c.collect(p) {
                Ok(mods) => {
                    for m in mods {
                        println!("{}", m.path.file_name().and_then(|s| s.to_str()).unwrap_or("?"));
                    }
                    0
                }
                Err(errs) => {
                    for e in errs {
                        eprintln!("{}", e.message);
                    }
                    1
                }
            }
        }
        _ => {
            eprintln!("c12 cli: unknown command {:?}", cmd);
            2
        }
    })
}

pub fn cli(args: &[String]) -> ! {
    let cmd = args.first().map(|s| s.as_str()).unwrap_or("");
    finish(one(cmd, if args.len() > 1 { &args[1..] } else { &[] }))
}

/// Many commands in ONE process (one hash-seed universe per process): stdin lines
/// `{"cmd":..,"args":[..]}`; output of command i is bracketed by `@@C12-BEGIN i` / `@@C12-END i rc`
/// on both stdout and stderr.
fn cli_batch() -> ! {
    use std::io::{BufRead, Write};
    let stdin = std::io::stdin();
    let mut i = 0usize;
    for line in stdin.lock().lines() {
        let Ok(line) = line else { break };
        if line.trim().is_empty() {
            continue;
        }
        let v: serde_json::Value = serde_json::from_str(&line).unwrap_or(serde_json::Value::Null);
        let cmd = v["cmd"].as_str().unwrap_or("").to_string();
        let args: Vec<String> = v["args"].as_array().map(|a| a.iter().filter_map(|x| x.as_str().map(|s| s.to_string())).collect()).unwrap_or_default();
        println!("@@C12-BEGIN {}", i);
        eprintln!("@@C12-BEGIN {}", i);
        let rc = match one(&cmd, &args) {
            Ok(c) => c,
            Err(p) => {
                eprintln!("panic: {}", p);
                101
            }
        };
        println!();
        println!("@@C12-END {} {}", i, rc);
        eprintln!();
        eprintln!("@@C12-END {} {}", i, rc);
        let _ = std::io::stdout().flush();
        i += 1;
    }
    std::process::exit(0)
}

// ------------------------------------------------------------------------------------------------
// scan
// ------------------------------------------------------------------------------------------------

#[derive(Clone, Debug, PartialEq)]
struct Ty {
    name: String,
    args: Vec<Ty>,
}

impl Ty {
    fn new(name: &str, args: Vec<Ty>) -> Ty {
        Ty { name: name.to_string(), args }
    }
    fn unknown() -> Ty {
        Ty::new("?", vec![])
    }
    fn is_unknown(&self) -> bool {
        self.name == "?"
    }
    fn arg(&self, i: usize) -> Ty {
        self.args.get(i).cloned().unwrap_or_else(Ty::unknown)
    }
    /// strip smart pointers / cells / Option (for "is this a hash collection")
    fn peel(&self) -> &Ty {
        let mut t = self;
        while matches!(t.name.as_str(), "Box" | "Rc" | "Arc" | "RefCell" | "Cell" | "Mutex" | "RwLock" | "Option" | "Ref" | "RefMut" | "Cow")
            && !t.args.is_empty()
        {
            t = &t.args[t.args.len() - 1];
        }
        t
    }
    fn is_hash(&self) -> bool {
        matches!(self.peel().name.as_str(), "HashMap" | "HashSet")
    }
    /// element type when iterated
    fn elem(&self) -> Ty {
        let t = self.peel();
        match t.name.as_str() {
            "HashMap" | "BTreeMap" => Ty::new("(tuple)", vec![t.arg(0), t.arg(1)]),
            "HashSet" | "BTreeSet" | "Vec" | "VecDeque" | "(iter)" => t.arg(0),
            _ => Ty::unknown(),
        }
    }
}

fn ty_of_syn(t: &syn::Type) -> Ty {
    match t {
        syn::Type::Reference(r) => ty_of_syn(&r.elem),
        syn::Type::Paren(p) => ty_of_syn(&p.elem),
        syn::Type::Group(p) => ty_of_syn(&p.elem),
        syn::Type::Slice(s) => Ty::new("Vec", vec![ty_of_syn(&s.elem)]),
        syn::Type::Array(s) => Ty::new("Vec", vec![ty_of_syn(&s.elem)]),
        syn::Type::Tuple(t) => Ty::new("(tuple)", t.elems.iter().map(ty_of_syn).collect()),
        syn::Type::Path(p) => {
            let Some(seg) = p.path.segments.last() else { return Ty::unknown() };
            let mut args = vec![];
            if let syn::PathArguments::AngleBracketed(ab) = &seg.arguments {
                for a in &ab.args {
                    if let syn::GenericArgument::Type(t) = a {
                        args.push(ty_of_syn(t));
                    }
                }
            }
            Ty::new(&seg.ident.to_string(), args)
        }
        syn::Type::ImplTrait(_) | syn::Type::TraitObject(_) => Ty::unknown(),
        _ => Ty::unknown(),
    }
}

#[derive(Default)]
struct StructDef {
    generics: Vec<String>,
    fields: BTreeMap<String, Ty>,
    tuple: Vec<Ty>,
}

#[derive(Default)]
struct Tables {
    structs: HashMap<String, Vec<StructDef>>,
    /// `use a::b as c` renames: c -> b (per file)
    renames: HashMap<(String, String), (String, String)>,
    /// enum name -> variant -> (tuple payload, named fields)
    enums: HashMap<String, (Vec<String>, HashMap<String, StructDef>)>,
    /// fn/method name -> list of (file, self type, return type)
    fns: HashMap<String, Vec<(String, Option<String>, Ty)>>,
    /// field name -> (#decls where it is a hash collection, #decls where it is not)
    field_hash: HashMap<String, (usize, usize)>,
    aliases: HashMap<String, Ty>,
}

fn generics_of(g: &syn::Generics) -> Vec<String> {
    g.params
        .iter()
        .filter_map(|p| if let syn::GenericParam::Type(t) = p { Some(t.ident.to_string()) } else { None })
        .collect()
}

fn struct_def(generics: &syn::Generics, fields: &syn::Fields) -> StructDef {
    let mut d = StructDef { generics: generics_of(generics), ..Default::default() };
    match fields {
        syn::Fields::Named(n) => {
            for f in &n.named {
                if let Some(id) = &f.ident {
                    d.fields.insert(id.to_string(), ty_of_syn(&f.ty));
                }
            }
        }
        syn::Fields::Unnamed(u) => {
            for f in &u.unnamed {
                d.tuple.push(ty_of_syn(&f.ty));
            }
        }
        syn::Fields::Unit => {}
    }
    d
}

fn is_test_attr(attrs: &[syn::Attribute]) -> bool {
    attrs.iter().any(|a| {
        let s = a.to_token_stream().to_string().replace(' ', "");
        s.contains("cfg(test)") || s == "#[test]"
    })
}

impl Tables {
    fn add_items(&mut self, file: &str, items: &[syn::Item], self_ty: Option<&str>) {
        for it in items {
            match it {
                syn::Item::Struct(s) if !is_test_attr(&s.attrs) => {
                    let d = struct_def(&s.generics, &s.fields);
                    for (n, t) in &d.fields {
                        let e = self.field_hash.entry(n.clone()).or_default();
                        if t.is_hash() {
                            e.0 += 1
                        } else {
                            e.1 += 1
                        }
                    }
                    self.structs.entry(s.ident.to_string()).or_default().push(d);
                }
                syn::Item::Enum(e) if !is_test_attr(&e.attrs) => {
                    let mut vs = HashMap::new();
                    for v in &e.variants {
                        let d = struct_def(&e.generics, &v.fields);
                        for (n, t) in &d.fields {
                            let en = self.field_hash.entry(n.clone()).or_default();
                            if t.is_hash() {
                                en.0 += 1
                            } else {
                                en.1 += 1
                            }
                        }
                        vs.insert(v.ident.to_string(), d);
                    }
                    self.enums.insert(e.ident.to_string(), (generics_of(&e.generics), vs));
                }
                syn::Item::Use(u) => {
                    fn walk(t: &syn::UseTree, file: &str, module: &str, out: &mut HashMap<(String, String), (String, String)>) {
                        match t {
                            syn::UseTree::Path(p) => walk(&p.tree, file, &p.ident.to_string(), out),
                            syn::UseTree::Group(g) => g.items.iter().for_each(|i| walk(i, file, module, out)),
                            syn::UseTree::Rename(r) => {
                                out.insert((file.to_string(), r.rename.to_string()), (r.ident.to_string(), module.to_string()));
                            }
                            syn::UseTree::Name(n) => {
                                out.insert((file.to_string(), n.ident.to_string()), (n.ident.to_string(), module.to_string()));
                            }
                            _ => {}
                        }
                    }
                    walk(&u.tree, file, "", &mut self.renames);
                }
                syn::Item::Type(t) => {
                    self.aliases.insert(t.ident.to_string(), ty_of_syn(&t.ty));
                }
                syn::Item::Fn(f) if !is_test_attr(&f.attrs) => {
                    if let syn::ReturnType::Type(_, t) = &f.sig.output {
                        self.fns.entry(f.sig.ident.to_string()).or_default().push((
                            file.to_string(),
                            self_ty.map(|s| s.to_string()),
                            ty_of_syn(t),
                        ));
                    }
                }
                syn::Item::Impl(im) if !is_test_attr(&im.attrs) => {
                    let st = ty_of_syn(&im.self_ty).name;
                    for ii in &im.items {
                        if let syn::ImplItem::Fn(f) = ii {
                            if let syn::ReturnType::Type(_, t) = &f.sig.output {
                                let mut rt = ty_of_syn(t);
                                if rt.name == "Self" {
                                    rt = Ty::new(&st, vec![]);
                                }
                                self.fns.entry(f.sig.ident.to_string()).or_default().push((
                                    file.to_string(),
                                    Some(st.clone()),
                                    rt,
                                ));
                            }
                        }
                    }
                }
                syn::Item::Mod(m) if !is_test_attr(&m.attrs) => {
                    if let Some((_, items)) = &m.content {
                        self.add_items(file, items, None);
                    }
                }
                _ => {}
            }
        }
    }

    fn resolve_alias(&self, t: Ty) -> Ty {
        if t.args.is_empty() && !self.structs.contains_key(&t.name) && !self.enums.contains_key(&t.name) {
            if let Some(a) = self.aliases.get(&t.name) {
                return a.clone();
            }
        }
        t
    }

    fn subst(&self, generics: &[String], args: &[Ty], t: &Ty) -> Ty {
        if let Some(i) = generics.iter().position(|g| *g == t.name) {
            return args.get(i).cloned().unwrap_or_else(Ty::unknown);
        }
        Ty { name: t.name.clone(), args: t.args.iter().map(|a| self.subst(generics, args, a)).collect() }
    }

    /// type of `base.field` and whether the answer is ambiguous (several structs of that name disagree);
    /// None when the base type is unknown or has no such field
    fn field_ty(&self, base: &Ty, field: &str) -> Option<(Ty, bool)> {
        let mut b = base;
        while matches!(b.name.as_str(), "Box" | "Rc" | "Arc" | "Ref" | "RefMut") && !b.args.is_empty() {
            b = &b.args[0];
        }
        if b.name == "(tuple)" {
            return field.parse::<usize>().ok().map(|i| (b.arg(i), false));
        }
        let defs = self.structs.get(&b.name)?;
        let mut found: Vec<Ty> = vec![];
        for d in defs {
            let t = if let Ok(i) = field.parse::<usize>() { d.tuple.get(i) } else { d.fields.get(field) };
            if let Some(t) = t {
                found.push(self.resolve_alias(self.subst(&d.generics, &b.args, t)));
            }
        }
        if found.is_empty() {
            return None;
        }
        if found.iter().all(|t| *t == found[0]) {
            return Some((found[0].clone(), false));
        }
        if let Some(h) = found.iter().find(|t| t.is_hash()) {
            return Some((h.clone(), true));
        }
        Some((Ty::unknown(), false))
    }

    fn fn_ret(&self, name: &str, file: &str, self_ty: Option<&str>) -> Option<Ty> {
        let imported = self.renames.get(&(file.to_string(), name.to_string()));
        let name = imported.map(|s| s.0.as_str()).unwrap_or(name);
        let cands = self.fns.get(name)?;
        if let (Some((_, module)), None) = (imported, self_ty) {
            let a = format!("/{}.rs", module);
            let b = format!("/{}/mod.rs", module);
            if let Some(c) = cands.iter().find(|c| c.1.is_none() && (c.0.ends_with(&a) || c.0.ends_with(&b))) {
                return Some(self.resolve_alias(c.2.clone()));
            }
        }
        if let Some(st) = self_ty {
            if let Some(c) = cands.iter().find(|c| c.1.as_deref() == Some(st)) {
                return Some(self.resolve_alias(c.2.clone()));
            }
        }
        if let Some(c) = cands.iter().find(|c| c.0 == file) {
            return Some(self.resolve_alias(c.2.clone()));
        }
        if cands.len() == 1 || cands.iter().all(|c| c.2 == cands[0].2) {
            return Some(self.resolve_alias(cands[0].2.clone()));
        }
        // ambiguous: only keep the information "hash or not" if all candidates agree
        if cands.iter().all(|c| c.2.is_hash()) {
            return Some(cands[0].2.clone());
        }
        None
    }
}

const ITER_METHODS: &[&str] = &[
    "iter", "iter_mut", "keys", "values", "values_mut", "into_iter", "into_keys", "into_values", "drain", "retain", "extract_if",
];
const PASS_METHODS: &[&str] = &[
    "clone", "as_ref", "as_mut", "as_deref", "as_deref_mut", "borrow", "borrow_mut", "to_owned", "iter", "iter_mut", "into_iter", "rev",
    "skip", "take", "cloned", "copied", "by_ref", "peekable", "lock", "read", "write", "to_vec", "as_slice", "filter", "skip_while",
    "take_while", "step_by", "chain", "inspect",
];
const UNWRAP_METHODS: &[&str] = &[
    "unwrap", "expect", "unwrap_or_default", "unwrap_or", "unwrap_or_else", "unwrap_unchecked",
];

struct Site {
    file: String,
    func: String,
    recv: String,
    kind: String,
    line: usize,
    ambiguous: bool,
    sorted_after: bool,
}

struct Scanner<'t> {
    t: &'t Tables,
    file: String,
    self_ty: Option<String>,
    func: String,
    env: Vec<HashMap<String, Ty>>,
    sites: Vec<Site>,
    /// statements following the current one in the enclosing blocks (innermost last), as token text
    followers: Vec<Vec<String>>,
    /// the variable bound by the enclosing `let` (for sorted_after)
    let_var: Vec<Option<String>>,
}

fn norm(ts: impl ToTokens) -> String {
    ts.to_token_stream().to_string().replace(' ', "")
}

fn strip_expr(e: &syn::Expr) -> &syn::Expr {
    match e {
        syn::Expr::Reference(r) => strip_expr(&r.expr),
        syn::Expr::Paren(p) => strip_expr(&p.expr),
        syn::Expr::Group(p) => strip_expr(&p.expr),
        syn::Expr::Unary(u) if matches!(u.op, syn::UnOp::Deref(_)) => strip_expr(&u.expr),
        _ => e,
    }
}

impl<'t> Scanner<'t> {
    fn lookup(&self, name: &str) -> Option<Ty> {
        for s in self.env.iter().rev() {
            if let Some(t) = s.get(name) {
                return Some(t.clone());
            }
        }
        None
    }

    fn bind_name(&mut self, name: String, ty: Ty) {
        if let Some(s) = self.env.last_mut() {
            s.insert(name, ty);
        }
    }

    fn bind(&mut self, pat: &syn::Pat, ty: &Ty) {
        match pat {
            syn::Pat::Ident(i) => {
                self.bind_name(i.ident.to_string(), ty.clone());
                if let Some((_, sub)) = &i.subpat {
                    self.bind(sub, ty);
                }
            }
            syn::Pat::Reference(r) => self.bind(&r.pat, ty),
            syn::Pat::Paren(p) => self.bind(&p.pat, ty),
            syn::Pat::Type(t) => {
                let tt = self.t.resolve_alias(ty_of_syn(&t.ty));
                self.bind(&t.pat, &tt)
            }
            syn::Pat::Tuple(t) => {
                for (i, p) in t.elems.iter().enumerate() {
                    let et = if ty.name == "(tuple)" { ty.arg(i) } else { Ty::unknown() };
                    self.bind(p, &et);
                }
            }
            syn::Pat::Or(o) => {
                for c in &o.cases {
                    self.bind(c, ty);
                }
            }
            syn::Pat::TupleStruct(ts) => {
                let segs: Vec<String> = ts.path.segments.iter().map(|s| s.ident.to_string()).collect();
                let last = segs.last().cloned().unwrap_or_default();
                let payload: Vec<Ty> = match last.as_str() {
                    "Some" => vec![ty.peel_one("Option")],
                    "Ok" => vec![ty.peel_one("Result")],
                    "Err" => vec![if ty.name == "Result" { ty.arg(1) } else { Ty::unknown() }],
                    _ => self.variant_payload(&segs, ty).map(|d| d.0).unwrap_or_default(),
                };
                for (i, p) in ts.elems.iter().enumerate() {
                    let et = payload.get(i).cloned().unwrap_or_else(Ty::unknown);
                    self.bind(p, &et);
                }
            }
            syn::Pat::Struct(ps) => {
                let segs: Vec<String> = ps.path.segments.iter().map(|s| s.ident.to_string()).collect();
                let named: BTreeMap<String, Ty> = if let Some(d) = self.variant_payload(&segs, ty) {
                    d.1
                } else if let Some(d) = self.t.structs.get(segs.last().map(|s| s.as_str()).unwrap_or("")).and_then(|v| v.first()) {
                    d.fields.iter().map(|(k, v)| (k.clone(), self.t.subst(&d.generics, &ty.args, v))).collect()
                } else {
                    BTreeMap::new()
                };
                for f in &ps.fields {
                    let n = match &f.member {
                        syn::Member::Named(i) => i.to_string(),
                        syn::Member::Unnamed(i) => i.index.to_string(),
                    };
                    let ft = named.get(&n).cloned().unwrap_or_else(Ty::unknown);
                    self.bind(&f.pat, &ft);
                }
            }
            syn::Pat::Slice(s) => {
                let et = ty.elem();
                for p in &s.elems {
                    self.bind(p, &et);
                }
            }
            _ => {}
        }
    }

    /// payload types of an enum variant pattern path (`Enum::Variant`, `Self::Variant`, `Variant`)
    fn variant_payload(&self, segs: &[String], scrut: &Ty) -> Option<(Vec<Ty>, BTreeMap<String, Ty>)> {
        let variant = segs.last()?;
        let mut enum_name: Option<String> = None;
        if segs.len() >= 2 {
            let e = &segs[segs.len() - 2];
            if e == "Self" {
                enum_name = self.self_ty.clone();
            } else if self.t.enums.contains_key(e) {
                enum_name = Some(e.clone());
            }
        }
        if enum_name.is_none() && self.t.enums.contains_key(&scrut.peel().name) {
            enum_name = Some(scrut.peel().name.clone());
        }
        if enum_name.is_none() {
            let owners: Vec<&String> = self.t.enums.iter().filter(|(_, (_, vs))| vs.contains_key(variant)).map(|(n, _)| n).collect();
            if owners.len() == 1 {
                enum_name = Some(owners[0].clone());
            }
        }
        let (generics, vs) = self.t.enums.get(&enum_name?)?;
        let d = vs.get(variant)?;
        let args = &scrut.peel().args;
        Some((
            d.tuple.iter().map(|t| self.t.resolve_alias(self.t.subst(generics, args, t))).collect(),
            d.fields.iter().map(|(k, v)| (k.clone(), self.t.resolve_alias(self.t.subst(generics, args, v)))).collect(),
        ))
    }

    /// (type, ambiguous): ambiguous = decided by field NAME only (base type unknown, and the name is a
    /// hash collection in some declarations but not in others)
    fn ty_of(&self, e: &syn::Expr) -> (Ty, bool) {
        match e {
            syn::Expr::Reference(r) => self.ty_of(&r.expr),
            syn::Expr::Paren(p) => self.ty_of(&p.expr),
            syn::Expr::Group(p) => self.ty_of(&p.expr),
            syn::Expr::Unary(u) => self.ty_of(&u.expr),
            syn::Expr::Cast(c) => (ty_of_syn(&c.ty), false),
            syn::Expr::Try(t) => {
                let (b, a) = self.ty_of(&t.expr);
                (if b.name == "Option" || b.name == "Result" { b.arg(0) } else { Ty::unknown() }, a)
            }
            syn::Expr::Path(p) => {
                if p.path.segments.len() == 1 {
                    let n = p.path.segments[0].ident.to_string();
                    if n == "self" {
                        if let Some(st) = &self.self_ty {
                            return (Ty::new(st, vec![]), false);
                        }
                    }
                    if let Some(t) = self.lookup(&n) {
                        return (t, false);
                    }
                }
                (Ty::unknown(), false)
            }
            syn::Expr::Field(f) => {
                let (b, amb) = self.ty_of(&f.base);
                let n = match &f.member {
                    syn::Member::Named(i) => i.to_string(),
                    syn::Member::Unnamed(i) => i.index.to_string(),
                };
                if let Some((t, a2)) = self.t.field_ty(&b, &n) {
                    return (t, amb || a2);
                }
                if !b.is_unknown() && (self.t.structs.contains_key(&b.name) || b.name == "(tuple)") {
                    return (Ty::unknown(), false);
                }
                // base type unknown: decide by the field name over all declarations
                match self.t.field_hash.get(&n) {
                    Some((h, 0)) if *h > 0 => (Ty::new("HashMap", vec![]), false),
                    Some((h, _)) if *h > 0 => (Ty::new("HashMap", vec![]), true),
                    _ => (Ty::unknown(), false),
                }
            }
            syn::Expr::Index(i) => {
                let (b, a) = self.ty_of(&i.expr);
                let p = b.peel();
                let t = match p.name.as_str() {
                    "Vec" | "VecDeque" => {
                        if matches!(&*i.index, syn::Expr::Range(_)) {
                            p.clone()
                        } else {
                            p.arg(0)
                        }
                    }
                    "HashMap" | "BTreeMap" => p.arg(1),
                    _ => Ty::unknown(),
                };
                (t, a)
            }
            syn::Expr::Struct(s) => (Ty::new(&s.path.segments.last().map(|s| s.ident.to_string()).unwrap_or_default(), vec![]), false),
            syn::Expr::Macro(m) => {
                let n = m.mac.path.segments.last().map(|s| s.ident.to_string()).unwrap_or_default();
                (if n == "vec" { Ty::new("Vec", vec![Ty::unknown()]) } else { Ty::unknown() }, false)
            }
            syn::Expr::Block(b) => match b.block.stmts.last() {
                Some(syn::Stmt::Expr(e, None)) => self.ty_of(e),
                _ => (Ty::unknown(), false),
            },
            syn::Expr::If(i) => match i.then_branch.stmts.last() {
                Some(syn::Stmt::Expr(e, None)) => self.ty_of(e),
                _ => (Ty::unknown(), false),
            },
            syn::Expr::Call(c) => {
                let syn::Expr::Path(p) = &*c.func else { return (Ty::unknown(), false) };
                let segs: Vec<String> = p.path.segments.iter().map(|s| s.ident.to_string()).collect();
                let last = segs.last().cloned().unwrap_or_default();
                let prev = if segs.len() >= 2 { Some(segs[segs.len() - 2].clone()) } else { None };
                if last == "Some" && c.args.len() == 1 {
                    let (t, a) = self.ty_of(&c.args[0]);
                    return (Ty::new("Option", vec![t]), a);
                }
                if (last == "Ok") && c.args.len() == 1 {
                    let (t, a) = self.ty_of(&c.args[0]);
                    return (Ty::new("Result", vec![t]), a);
                }
                if (last == "take" || last == "replace") && prev.as_deref() == Some("mem") && !c.args.is_empty() {
                    return self.ty_of(&c.args[0]);
                }
                if let Some(pv) = &prev {
                    if matches!(pv.as_str(), "HashMap" | "HashSet" | "Vec" | "BTreeMap" | "BTreeSet" | "VecDeque") {
                        // HashMap::new(), HashSet::with_capacity(..), HashSet::from(..), ...
                        let mut args = vec![];
                        if let Some(seg) = p.path.segments.iter().rev().nth(1) {
                            if let syn::PathArguments::AngleBracketed(ab) = &seg.arguments {
                                for a in &ab.args {
                                    if let syn::GenericArgument::Type(t) = a {
                                        args.push(ty_of_syn(t));
                                    }
                                }
                            }
                        }
                        return (Ty::new(pv, args), false);
                    }
                    let pvn = if pv == "Self" { self.self_ty.clone().unwrap_or_default() } else { pv.clone() };
                    if let Some(t) = self.t.fn_ret(&last, &self.file, Some(&pvn)) {
                        return (t, false);
                    }
                    if self.t.structs.contains_key(&pvn) && matches!(last.as_str(), "new" | "default") {
                        return (Ty::new(&pvn, vec![]), false);
                    }
                    return (Ty::unknown(), false);
                }
                (self.t.fn_ret(&last, &self.file, None).unwrap_or_else(Ty::unknown), false)
            }
            syn::Expr::MethodCall(m) => {
                let name = m.method.to_string();
                let (r, amb) = self.ty_of(&m.receiver);
                let rp = r.peel().clone();
                if name == "collect" || name == "into" || name == "parse" || name == "sum" {
                    if let Some(tf) = &m.turbofish {
                        for a in &tf.args {
                            if let syn::GenericArgument::Type(t) = a {
                                return (ty_of_syn(t), false);
                            }
                        }
                    }
                    return (Ty::unknown(), false);
                }
                if r.is_unknown() {
                    // a user method with a known (unique) return type
                    if let Some(t) = self.t.fn_ret(&name, &self.file, None) {
                        if !PASS_METHODS.contains(&name.as_str()) && !UNWRAP_METHODS.contains(&name.as_str()) {
                            return (t, false);
                        }
                    }
                    return (Ty::unknown(), false);
                }
                if UNWRAP_METHODS.contains(&name.as_str()) {
                    if r.name == "Option" || r.name == "Result" {
                        return (r.arg(0), amb);
                    }
                    return (r, amb);
                }
                match name.as_str() {
                    "ok_or" | "ok_or_else" if r.name == "Option" => return (Ty::new("Result", vec![r.arg(0)]), amb),
                    "ok" if r.name == "Result" => return (Ty::new("Option", vec![r.arg(0)]), amb),
                    "keys" | "into_keys" if matches!(rp.name.as_str(), "HashMap" | "BTreeMap") => {
                        return (Ty::new("(iter)", vec![rp.arg(0)]), amb)
                    }
                    "values" | "values_mut" | "into_values" if matches!(rp.name.as_str(), "HashMap" | "BTreeMap") => {
                        return (Ty::new("(iter)", vec![rp.arg(1)]), amb)
                    }
                    "drain" if rp.is_hash() => return (rp.clone(), amb),
                    "get" | "get_mut" | "remove" if matches!(rp.name.as_str(), "HashMap" | "BTreeMap") => {
                        return (Ty::new("Option", vec![rp.arg(1)]), amb)
                    }
                    "get" | "get_mut" | "first" | "last" | "pop" | "first_mut" | "last_mut" | "next" | "find" | "max" | "min"
                        if matches!(rp.name.as_str(), "Vec" | "VecDeque" | "(iter)" | "HashSet") =>
                    {
                        return (Ty::new("Option", vec![rp.arg(0)]), amb)
                    }
                    "enumerate" => {
                        return (Ty::new("(iter)", vec![Ty::new("(tuple)", vec![Ty::new("usize", vec![]), r.elem()])]), amb)
                    }
                    "entry" if rp.name == "HashMap" => return (Ty::new("(entry)", vec![rp.arg(1)]), amb),
                    "or_default" | "or_insert" | "or_insert_with" if rp.name == "(entry)" => return (rp.arg(0), amb),
                    _ => {}
                }
                if PASS_METHODS.contains(&name.as_str()) {
                    return (r, amb);
                }
                if let Some(t) = self.t.fn_ret(&name, &self.file, Some(&rp.name)) {
                    if self.t.fns.get(&name).is_some_and(|c| c.iter().any(|x| x.1.as_deref() == Some(rp.name.as_str()))) {
                        return (t, false);
                    }
                }
                (Ty::unknown(), false)
            }
            _ => (Ty::unknown(), false),
        }
    }

    fn sorted_after(&self, var: Option<&str>) -> bool {
        // does any following statement (or the enclosing loop body) sort `var`, or collect into a BTree?
        let Some(v) = var else { return false };
        let pats = [format!("{}.sort", v), format!("{}.sort_by", v), format!("{}.sort_unstable", v)];
        self.followers.iter().flatten().any(|s| pats.iter().any(|p| s.contains(p.as_str())))
    }

    fn site(&mut self, recv: &syn::Expr, kind: &str, line: usize, ambiguous: bool, sort_var: Option<String>) {
        let sorted = self.sorted_after(sort_var.as_deref());
        self.sites.push(Site {
            file: self.file.clone(),
            func: self.func.clone(),
            recv: norm(strip_expr(recv)),
            kind: kind.to_string(),
            line,
            ambiguous,
            sorted_after: sorted,
        });
    }

    fn with_scope(&mut self, f: impl FnOnce(&mut Self)) {
        self.env.push(HashMap::new());
        f(self);
        self.env.pop();
    }

    fn visit_fn_like(&mut self, name: String, sig: &syn::Signature, block: &syn::Block) {
        let saved = std::mem::replace(&mut self.func, name);
        self.with_scope(|s| {
            for inp in &sig.inputs {
                if let syn::FnArg::Typed(pt) = inp {
                    let t = s.t.resolve_alias(ty_of_syn(&pt.ty));
                    s.bind(&pt.pat, &t);
                }
            }
            s.visit_block(block);
        });
        self.func = saved;
    }
}

trait PeelOne {
    fn peel_one(&self, w: &str) -> Ty;
}
impl PeelOne for Ty {
    fn peel_one(&self, w: &str) -> Ty {
        let mut t = self;
        while matches!(t.name.as_str(), "Box" | "Rc" | "Arc" | "Ref" | "RefMut") && !t.args.is_empty() {
            t = &t.args[0];
        }
        if t.name == w { t.arg(0) } else { Ty::unknown() }
    }
}

impl<'ast, 't> Visit<'ast> for Scanner<'t> {
    fn visit_item_fn(&mut self, f: &'ast syn::ItemFn) {
        if is_test_attr(&f.attrs) {
            return;
        }
        let name = match &self.self_ty {
            Some(st) => format!("{}::{}", st, f.sig.ident),
            None => f.sig.ident.to_string(),
        };
        let name = if self.func.is_empty() { name } else { format!("{}/{}", self.func, f.sig.ident) };
        self.visit_fn_like(name, &f.sig, &f.block);
    }

    fn visit_item_impl(&mut self, im: &'ast syn::ItemImpl) {
        if is_test_attr(&im.attrs) {
            return;
        }
        let saved = self.self_ty.replace(ty_of_syn(&im.self_ty).name);
        for ii in &im.items {
            if let syn::ImplItem::Fn(f) = ii {
                if is_test_attr(&f.attrs) {
                    continue;
                }
                let name = format!("{}::{}", self.self_ty.clone().unwrap_or_default(), f.sig.ident);
                self.visit_fn_like(name, &f.sig, &f.block);
            }
        }
        self.self_ty = saved;
    }

    fn visit_item_mod(&mut self, m: &'ast syn::ItemMod) {
        if is_test_attr(&m.attrs) {
            return;
        }
        visit::visit_item_mod(self, m);
    }

    fn visit_block(&mut self, b: &'ast syn::Block) {
        self.with_scope(|s| {
            for (i, st) in b.stmts.iter().enumerate() {
                let rest: Vec<String> = b.stmts[i + 1..].iter().map(norm).collect();
                s.followers.push(rest);
                s.visit_stmt(st);
                s.followers.pop();
            }
        });
    }

    fn visit_local(&mut self, l: &'ast syn::Local) {
        let var = match &l.pat {
            syn::Pat::Ident(i) => Some(i.ident.to_string()),
            syn::Pat::Type(t) => match &*t.pat {
                syn::Pat::Ident(i) => Some(i.ident.to_string()),
                _ => None,
            },
            _ => None,
        };
        self.let_var.push(var);
        let mut init_ty = Ty::unknown();
        if let Some(init) = &l.init {
            self.visit_expr(&init.expr);
            init_ty = self.ty_of(&init.expr).0;
            if let Some((_, div)) = &init.diverge {
                self.visit_expr(div);
            }
        }
        self.let_var.pop();
        let pat = l.pat.clone();
        self.bind(&pat, &init_ty);
    }

    fn visit_expr_for_loop(&mut self, f: &'ast syn::ExprForLoop) {
        let (t, amb) = self.ty_of(&f.expr);
        let inner = strip_expr(&f.expr);
        let is_iter_call = matches!(inner, syn::Expr::MethodCall(m) if ITER_METHODS.contains(&m.method.to_string().as_str()));
        let line = f.for_token.span.start().line;
        // loop body is the "follower" for sorted_after of the loop variable (e.g. `for subs in m.values_mut() { subs.sort() }`)
        let loop_var = match &*f.pat {
            syn::Pat::Ident(i) => Some(i.ident.to_string()),
            _ => None,
        };
        self.followers.push(vec![norm(&f.body)]);
        self.let_var.push(loop_var.clone());
        if t.is_hash() && !is_iter_call {
            self.site(&f.expr, "for", line, amb, loop_var.clone());
        }
        self.visit_expr(&f.expr);
        self.let_var.pop();
        self.followers.pop();
        let et = t.elem();
        self.with_scope(|s| {
            s.bind(&f.pat, &et);
            s.visit_block(&f.body);
        });
    }

    fn visit_expr_method_call(&mut self, m: &'ast syn::ExprMethodCall) {
        let name = m.method.to_string();
        let line = m.method.span().start().line;
        if ITER_METHODS.contains(&name.as_str()) {
            let (t, amb) = self.ty_of(&m.receiver);
            if t.is_hash() {
                let var = self.let_var.last().cloned().flatten();
                self.site(&m.receiver, &format!("method:{}", name), line, amb, var);
            }
        }
        if name == "extend" || name == "append" {
            for a in &m.args {
                let (t, amb) = self.ty_of(a);
                if t.is_hash() && !matches!(strip_expr(a), syn::Expr::MethodCall(mm) if ITER_METHODS.contains(&mm.method.to_string().as_str())) {
                    let recv_is_hash = self.ty_of(&m.receiver).0.is_hash();
                    self.site(a, if recv_is_hash { "extend-into-hash" } else { "extend-arg" }, line, amb, None);
                }
            }
        }
        // closure parameters of iterator adaptors get the element type
        self.visit_expr(&m.receiver);
        let elem = self.ty_of(&m.receiver).0.elem();
        for a in &m.args {
            if let syn::Expr::Closure(c) = a {
                if matches!(
                    name.as_str(),
                    "map" | "filter" | "filter_map" | "any" | "all" | "find" | "for_each" | "position" | "flat_map" | "find_map" | "inspect"
                        | "retain" | "take_while" | "skip_while" | "is_some_and" | "is_ok_and" | "and_then"
                ) && c.inputs.len() == 1
                {
                    let et = if matches!(name.as_str(), "is_some_and" | "and_then") {
                        self.ty_of(&m.receiver).0.peel_one("Option")
                    } else {
                        elem.clone()
                    };
                    self.with_scope(|s| {
                        s.bind(&c.inputs[0], &et);
                        s.visit_expr(&c.body);
                    });
                    continue;
                }
            }
            self.visit_expr(a);
        }
    }

    fn visit_expr_if(&mut self, i: &'ast syn::ExprIf) {
        self.with_scope(|s| {
            s.visit_expr(&i.cond);
            s.visit_block(&i.then_branch);
        });
        if let Some((_, e)) = &i.else_branch {
            self.visit_expr(e);
        }
    }

    fn visit_expr_while(&mut self, w: &'ast syn::ExprWhile) {
        self.with_scope(|s| {
            s.visit_expr(&w.cond);
            s.visit_block(&w.body);
        });
    }

    fn visit_expr_let(&mut self, l: &'ast syn::ExprLet) {
        self.visit_expr(&l.expr);
        let t = self.ty_of(&l.expr).0;
        let pat = (*l.pat).clone();
        self.bind(&pat, &t);
    }

    fn visit_expr_match(&mut self, m: &'ast syn::ExprMatch) {
        self.visit_expr(&m.expr);
        let t = self.ty_of(&m.expr).0;
        for arm in &m.arms {
            self.with_scope(|s| {
                s.bind(&arm.pat, &t);
                if let Some((_, g)) = &arm.guard {
                    s.visit_expr(g);
                }
                s.visit_expr(&arm.body);
            });
        }
    }

    fn visit_macro(&mut self, m: &'ast syn::Macro) {
        // format!/println!/vec!/assert!/write!...: arguments are ordinary expressions
        use syn::punctuated::Punctuated;
        if let Ok(args) = m.parse_body_with(Punctuated::<syn::Expr, syn::Token![,]>::parse_terminated) {
            for a in args.iter() {
                // the parsed expressions do not live as long as 'ast: scan them with a fresh visitor pass
                let e: syn::Expr = a.clone();
                scan_detached(self, &e);
            }
        }
    }

    fn visit_expr_closure(&mut self, c: &'ast syn::ExprClosure) {
        self.with_scope(|s| {
            for p in &c.inputs {
                s.bind(p, &Ty::unknown());
            }
            s.visit_expr(&c.body);
        });
    }
}

fn scan_detached(sc: &mut Scanner<'_>, e: &syn::Expr) {
    sc.visit_expr(e);
}

fn rs_files(dir: &Path, out: &mut Vec<PathBuf>) {
    let Ok(rd) = std::fs::read_dir(dir) else { return };
    let mut es: Vec<PathBuf> = rd.flatten().map(|e| e.path()).collect();
    es.sort();
    for p in es {
        if p.is_dir() {
            let n = p.file_name().and_then(|s| s.to_str()).unwrap_or("");
            if n == "tests" || n == "snapshots" {
                continue;
            }
            rs_files(&p, out);
        } else if p.extension().is_some_and(|e| e == "rs") {
            let n = p.file_name().and_then(|s| s.to_str()).unwrap_or("");
            if n == "tests.rs" || n.ends_with("_tests.rs") {
                continue;
            }
            out.push(p);
        }
    }
}

fn jstr(s: &str) -> String {
    serde_json::Value::String(s.to_string()).to_string()
}

fn scan(repo: &str) -> i32 {
    let root = Path::new(repo);
    let mut type_files = vec![];
    for d in ["src", "crates/incan_syntax/src"] {
        rs_files(&root.join(d), &mut type_files);
    }
    let mut parsed: Vec<(String, syn::File)> = vec![];
    for p in &type_files {
        let rel = p.strip_prefix(root).unwrap_or(p).to_string_lossy().to_string();
        let Ok(text) = std::fs::read_to_string(p) else { continue };
        match syn::parse_file(&text) {
            Ok(f) => parsed.push((rel, f)),
            Err(e) => {
                println!("{{\"error\":{},\"file\":{}}}", jstr(&e.to_string()), jstr(&rel));
            }
        }
    }
    let mut t = Tables::default();
    for (rel, f) in &parsed {
        t.add_items(rel, &f.items, None);
    }
    let mut all: Vec<Site> = vec![];
    for (rel, f) in &parsed {
        if !(rel.starts_with("src/frontend/") || rel.starts_with("src/backend/") || rel.starts_with("src/cli/")) {
            continue;
        }
        let mut sc = Scanner {
            t: &t,
            file: rel.clone(),
            self_ty: None,
            func: String::new(),
            env: vec![HashMap::new()],
            sites: vec![],
            followers: vec![],
            let_var: vec![],
        };
        sc.visit_file(f);
        all.extend(sc.sites);
    }
    // number duplicates inside one function
    let mut counts: BTreeMap<(String, String, String, String), usize> = BTreeMap::new();
    for s in &all {
        let k = (s.file.clone(), s.func.clone(), s.recv.clone(), s.kind.clone());
        let n = counts.entry(k).or_insert(0);
        *n += 1;
        println!(
            "{{\"file\":{},\"fn\":{},\"recv\":{},\"kind\":{},\"n\":{},\"line\":{},\"ambiguous\":{},\"sorted_after\":{}}}",
            jstr(&s.file),
            jstr(&s.func),
            jstr(&s.recv),
            jstr(&s.kind),
            n,
            s.line,
            s.ambiguous,
            s.sorted_after
        );
    }
    0
}

pub fn run(args: &[String]) {
    match args.first().map(|s| s.as_str()).unwrap_or("") {
        "scan" => {
            let repo = args.get(1).cloned().unwrap_or_else(|| "/repo".to_string());
            std::process::exit(scan(&repo));
        }
        "cli" => cli(&args[1..]),
        "cli-batch" => cli_batch(),
        other => {
            eprintln!("c12: unknown mode {:?} (scan|cli)", other);
            std::process::exit(2);
        }
    }
}
